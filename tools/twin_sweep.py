#!/venv/bin/python
"""Robustness sweep: behaviour-preserving local-variable renames must leave every check silent.

For every function of the listed files and every local variable of it (assigned name,
loop target, with/except alias — not a parameter, not a global/nonlocal), build an
in-memory variant in which that local is renamed consistently (including uses in
nested closures and comprehensions) and run all 20 property checks on it.  Any
violation or analysis error is a false alarm of the machinery.

usage: twin_sweep.py [file-substring ...]
"""
import ast, os, sys, json
from concurrent.futures import ProcessPoolExecutor

HERE = os.path.dirname(os.path.dirname(os.path.abspath(__file__)))
sys.path.insert(0, HERE)
sys.dont_write_bytecode = True
from sa.rulebase import _eval_overlay

REPO = "/repo"
FILES = [
    "src/hypergraph/runners/_shared/helpers.py",
    "src/hypergraph/runners/_shared/caching.py",
    "src/hypergraph/runners/_shared/gate_execution.py",
    "src/hypergraph/runners/_shared/routing_validation.py",
    "src/hypergraph/runners/_shared/template_sync.py",
    "src/hypergraph/runners/_shared/template_async.py",
    "src/hypergraph/runners/_shared/types.py",
    "src/hypergraph/runners/_shared/validation.py",
    "src/hypergraph/runners/_shared/input_normalization.py",
    "src/hypergraph/runners/sync/superstep.py",
    "src/hypergraph/runners/async_/superstep.py",
    "src/hypergraph/runners/sync/runner.py",
    "src/hypergraph/runners/async_/runner.py",
    "src/hypergraph/runners/sync/executors/function_node.py",
    "src/hypergraph/runners/sync/executors/graph_node.py",
    "src/hypergraph/runners/async_/executors/function_node.py",
    "src/hypergraph/runners/async_/executors/graph_node.py",
    "src/hypergraph/runners/async_/executors/interrupt_node.py",
    "src/hypergraph/events/dispatcher.py",
    "src/hypergraph/cache.py",
    "src/hypergraph/nodes/base.py",
    "src/hypergraph/nodes/_rename.py",
    "src/hypergraph/nodes/_callable.py",
    "src/hypergraph/nodes/graph_node.py",
    "src/hypergraph/graph/core.py",
    "src/hypergraph/graph/input_spec.py",
    "src/hypergraph/graph/validation.py",
    "src/hypergraph/graph/_conflict.py",
    "src/hypergraph/viz/renderer/edges.py",
    "src/hypergraph/viz/renderer/precompute.py",
    "src/hypergraph/viz/mermaid.py",
]
ALL = [c for c in os.environ.get("TWIN_CHECKS", "").split(",") if c] or [f"C{i:02d}" for i in range(1, 21)]


from sa.variants import locals_of, param_twins, rename, structural_twins  # noqa: E402


def main():
    filt = sys.argv[1:]
    jobs = []
    mode = os.environ.get("TWIN_MODE", "rename")
    for rel in FILES:
        if filt and not any(f in rel for f in filt):
            continue
        if mode == "params":
            for desc, ov in param_twins(REPO, rel):
                for pid in ALL:
                    jobs.append((rel, desc.split(":", 1)[-1], 0, mode, pid, (f"rules.{pid.lower()}", REPO, ov, "quick")))
            continue
        if mode != "rename":
            for desc, ov in structural_twins(REPO, rel, tuple(mode.split(","))):
                for pid in ALL:
                    jobs.append((rel, desc.split(":")[-1], 0, mode, pid, (f"rules.{pid.lower()}", REPO, ov, "quick")))
            continue
        text = open(os.path.join(REPO, rel), encoding="utf-8").read()
        tree = ast.parse(text)
        lines = text.split("\n")
        for fn in [n for n in ast.walk(tree) if isinstance(n, (ast.FunctionDef, ast.AsyncFunctionDef))]:
            for loc in locals_of(fn):
                new = loc + "_rn"
                if any(isinstance(x, ast.Name) and x.id == new for x in ast.walk(fn)):
                    continue
                nl = rename(lines, fn, loc, new)
                if nl is None:
                    continue
                newsrc = "\n".join(nl)
                try:
                    ast.parse(newsrc)
                except SyntaxError:
                    continue
                if newsrc == text:
                    continue
                for pid in ALL:
                    jobs.append((rel, fn.name, fn.lineno, loc, pid, (f"rules.{pid.lower()}", REPO, {rel: newsrc}, "quick")))
    print(f"{len(jobs) // len(ALL)} rename twins x {len(ALL)} checks = {len(jobs)} evaluations", flush=True)
    bad = []
    with ProcessPoolExecutor(16) as ex:
        for job, (fired, err) in zip(jobs, ex.map(_eval_overlay, [j[5] for j in jobs], chunksize=20)):
            if fired:
                bad.append({"file": job[0], "function": job[1], "line": job[2], "local": job[3], "check": job[4], "fired": fired, "error": err})
    out = os.path.join(HERE, "notes", f"twin_sweep_{mode.replace(',', '_')}.json")
    json.dump({"twins": len(jobs) // len(ALL), "checks": ALL, "evaluations": len(jobs), "false_alarms": bad}, open(out, "w"), indent=1)
    for b in bad:
        print(f"FALSE ALARM {b['check']} {b['fired']} on rename of local '{b['local']}' in {b['file']}:{b['function']}@{b['line']} {b['error'] or ''}")
    print(f"false alarms: {len(bad)} / {len(jobs)} evaluations")


if __name__ == "__main__":
    main()

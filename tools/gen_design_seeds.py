#!/venv/bin/python
"""Emit the seeded-defect table of DESIGN.md section 6 from notes/seed_matrix.json and seeded/*/meta.json."""
import glob, json, os
HERE = os.path.dirname(os.path.dirname(os.path.abspath(__file__)))
mat = json.load(open(os.path.join(HERE, "notes", "seed_matrix.json")))
print("| seeded defect | property | rules that fire (`;` separates properties) | what the change is |")
print("|---|---|---|---|")
for d in sorted(glob.glob(os.path.join(HERE, "seeded", "*"))):
    seed = os.path.basename(d)
    meta = json.load(open(os.path.join(d, "meta.json")))
    fired = mat.get(seed, {})
    cell = "; ".join(", ".join(r for r in rules if r != "ANALYSIS-ERROR") or "analysis-error" for pid, rules in sorted(fired.items())) or "**none**"
    summ = " ".join(meta.get("summary", "").split())
    if len(summ) > 150:
        summ = summ[:150] + "…"
    print(f"| {seed} | {meta['property']} | {cell} | {summ.replace('|', '/')} |")

#!/venv/bin/python
"""Regenerate /verif/MANIFEST.json from the rule modules that exist.

A property with a rules module is claimed; every other property is listed under
not_applicable with the reason recorded in NOT_CLAIMED below.
"""
import importlib
import json
import os
import sys

HERE = os.path.dirname(os.path.dirname(os.path.abspath(__file__)))
sys.path.insert(0, HERE)
sys.dont_write_bytecode = True

NOT_CLAIMED: dict[str, str] = {}

props = [json.loads(l) for l in open(os.path.join(HERE, "properties.jsonl"))]
baseline = json.load(open("/root/.vp/BASELINE.json"))["cmd"] if os.path.exists("/root/.vp/BASELINE.json") else "cd /repo && /venv/bin/python -m pytest -q"

checks = []
na = []
claimed = []
for p in props:
    pid = p["id"]
    path = os.path.join(HERE, "rules", f"{pid.lower()}.py")
    if not os.path.exists(path) or pid in NOT_CLAIMED:
        na.append({"property_id": pid, "reason": NOT_CLAIMED.get(pid, "no exact static rule has been built for this property yet in this code base; see DESIGN.md section 3")})
        continue
    mod = importlib.import_module(f"rules.{pid.lower()}")
    claimed.append(pid)
    checks.append(
        {
            "property_id": pid,
            "quick_cmd": f"/venv/bin/python check {pid} --tier quick",
            "thorough_cmd": f"/venv/bin/python check {pid} --tier thorough",
            "evidence_file": f"/verif/evidence/{pid}.json",
            "replay_cmd_template": f"/venv/bin/python check {pid} --replay {{path}}",
            "engine": "sa",
            "level_claimed": {
                "category": "other",
                "text": "Static analysis (no execution): structural necessary conditions of the property are decided for every path of the analysed functions. "
                + mod.EXPLANATION,
                "design_ref": f"DESIGN.md section 3, {pid}",
            },
            "level_note": "Decides the named structural clauses only, not the behaviour as a whole. NOT decided: "
            + mod.NOT_DECIDED
            + " Trusted base: CPython ast; annotation-driven type and call resolution (no type checker available offline); the explicit no-raise assumptions and "
            "third-party contracts (asyncio, networkx, pickle, hmac, diskcache) printed in the evidence.",
            "technique": getattr(mod, "TECHNIQUE", "static analysis: AST + CFG (exception edges) + call-graph/effect rules specific to this repository"),
        }
    )

manifest = {
    "version": 1,
    "setup_cmd": "/venv/bin/python -m compileall -q /verif/sa /verif/rules >/dev/null 2>&1; /venv/bin/python /verif/check C13 --tier quick >/dev/null 2>&1; true",
    "hooks": {
        "guard": "HYPERGRAPH_VERIF",
        "enable": "none - static analysis reads the source tree, no instrumentation is compiled in and the guard is never read",
        "baseline_off_cmd": baseline,
        "source_commits": [],
        "add_only": True,
    },
    "engines": [
        {
            "name": "sa",
            "path": "/verif/sa",
            "serves_properties": claimed,
            "kind_free_text": "repository-specific static analyser on stdlib ast: program database with annotation-driven call resolution, statement-level CFG with exception edges and finally duplication, dominance/reachability, reaching definitions, correlated-branch specialisation, attribute effect summaries, sibling comparison; in-memory variant overlay for checker self-test",
        }
    ],
    "checks": checks,
    "notes": "All checks are static: they parse /repo/src/hypergraph on every run and never import or execute it. Exit 2 + 'ANALYSIS-ERROR' means the analysis itself broke (vanished anchor, rule matched fewer sites than confirmed by hand). Known findings: /verif/known_findings.json. Seeded defects used to test the checks: /verif/seeded/.",
    "not_applicable": na,
}
with open(os.path.join(HERE, "MANIFEST.json"), "w") as fh:
    json.dump(manifest, fh, indent=1)
    fh.write("\n")
print("claimed:", claimed)
print("not_applicable:", [x["property_id"] for x in na])

#!/venv/bin/python
"""debug: run one self-test variant (or a patch file) of a property and print violated obligations"""
import sys, os, importlib
sys.path.insert(0, os.path.dirname(os.path.dirname(os.path.abspath(__file__))))
sys.dont_write_bytecode = True
from sa.db import ProgramDB
from sa.report import Report
from sa.rulebase import Ctx
from sa.variants import apply_variant, apply_patch_in_memory
pid, name = sys.argv[1], sys.argv[2]
repo = sys.argv[3] if len(sys.argv) > 3 else "/repo"
mod = importlib.import_module(f"rules.{pid.lower()}")
if os.path.exists(name):
    ov = apply_patch_in_memory(repo, open(name).read())
else:
    v = [v for v in mod.VARIANTS if v.name == name][0]
    ov = apply_variant(repo, v)
db = ProgramDB(repo, ov)
rep = Report(pid, "quick", repo)
mod.run(Ctx(db, rep, "quick"))
try:
    rep.check_floors()
except Exception as e:
    print("FLOOR:", e)
rep.apply_known()
for o in rep.obligations:
    if not o.ok:
        print(("(known) " if o.known else "") + str(o.loc), o.rule, o.instance, "::", o.msg, ("\n    " + o.witness) if o.witness else "")
print(len(rep.obligations), "obligations")

#!/bin/sh
# run thorough tier for one property and summarise self-test
cd /verif && ./check $1 --tier thorough; echo rc=$?; /venv/bin/python -c "
import json,sys; e=json.load(open('evidence/$1.json'));
st=e['coverage'].get('selftest',{})
for d in st.get('details',[]): print(' ', 'OK ' if d['as_expected'] else 'BAD', d['variant'], d['expected'], d['fired'])
for d in st.get('seeded',[]): print('  seeded', d)
print('  n/a:', st.get('not_applicable'))
for d in st.get('rename_twins',{}).get('false_alarms',[])+st.get('structural_twins',{}).get('false_alarms',[]): print('  TWIN-ALARM', d)
for k,v in e['coverage']['rules'].items(): print(' ', k, v['instances'], v['discharged'])
"

#!/venv/bin/python
"""debug: run one property's rules on a private-parameter rename twin.
usage: ptwin.py C16 src/hypergraph/runners/_shared/helpers.py _collect_all_outputs state"""
import sys, os, importlib
sys.path.insert(0, os.path.dirname(os.path.dirname(os.path.abspath(__file__))))
sys.dont_write_bytecode = True
from sa.db import ProgramDB, AnalysisError
from sa.report import Report
from sa.rulebase import Ctx
from sa.variants import param_twins
pid, rel, fn, par = sys.argv[1:5]
repo = "/repo"
mod = importlib.import_module(f"rules.{pid.lower()}")
hits = [(d, ov) for d, ov in param_twins(repo, rel) if f":{fn}@" in d and d.endswith(f"param:{par}")]
if not hits:
    sys.exit("no such twin; have e.g. " + "; ".join(d for d, _ in param_twins(repo, rel)[:5]))
d, ov = hits[0]
print("twin:", d)
db = ProgramDB(repo, ov)
rep = Report(pid, "quick", repo)
try:
    mod.run(Ctx(db, rep, "quick"))
    rep.check_floors()
except AnalysisError as e:
    print("ANALYSIS-ERROR:", e)
for o in rep.obligations:
    if not o.ok:
        print(o.loc, o.rule, o.instance, "::", o.msg[:300])
print(len(rep.obligations), "obligations")

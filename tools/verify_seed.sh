#!/bin/bash
# usage: verify_seed.sh <workdir-id> <seed-name>   e.g. verify_seed.sh C02 C02-failfast
# Confirms in a fresh scratch worktree of /repo HEAD: patch applies, suite passes with it, demo fails with it and passes without.
set -u
ID=$1; NAME=${2:-$1}
OUT=/tmp/wt-out/$ID
WT=/tmp/wt/verify-$ID
[ -f $OUT/patch.diff ] || { echo "no patch"; exit 1; }
git -C /repo worktree remove --force $WT 2>/dev/null
git -C /repo worktree add -q --detach $WT HEAD || exit 1
cd $WT
PP="PYTHONPATH=$WT/src"
# demo paths may reference the agent's worktree; rewrite
sed "s#/tmp/wt/$ID#$WT#g" $OUT/demo.py > $WT/_demo.py
env $PP /venv/bin/python $WT/_demo.py >/tmp/wt-out/$ID/verify_clean.log 2>&1; RC_CLEAN=$?
git apply $OUT/patch.diff || { echo "patch does not apply to HEAD"; git -C /repo worktree remove --force $WT; exit 1; }
env $PP /venv/bin/python $WT/_demo.py >/tmp/wt-out/$ID/verify_patched.log 2>&1; RC_PATCH=$?
SUITE=$(env $PP /venv/bin/python -m pytest -p no:cacheprovider -n 16 --disable-warnings 2>&1 | grep -E "( passed| failed)" | tail -1)
echo "demo clean rc=$RC_CLEAN ; demo patched rc=$RC_PATCH ; suite with patch: $SUITE"
tail -3 /tmp/wt-out/$ID/verify_patched.log
cd /; git -C /repo worktree remove --force $WT
if [ $RC_CLEAN -eq 0 ] && [ $RC_PATCH -ne 0 ] && echo "$SUITE" | grep -q "1626 passed" && ! echo "$SUITE" | grep -q failed; then
  mkdir -p /verif/seeded/$NAME
  cp $OUT/patch.diff /verif/seeded/$NAME/patch.diff
  cp $OUT/demo.py /verif/seeded/$NAME/demo.py
  /venv/bin/python - <<PY
import json
m=json.load(open("$OUT/meta.json"))
m["verified"]={"by":"main session, fresh scratch worktree of /repo HEAD (removed afterwards)","demo_clean_rc":$RC_CLEAN,"demo_patched_rc":$RC_PATCH,"suite_with_patch":"""$SUITE""".strip(),"cmd":"tools/verify_seed.sh $ID $NAME"}
json.dump(m,open("/verif/seeded/$NAME/meta.json","w"),indent=1)
PY
  echo "KEPT as /verif/seeded/$NAME"
else
  echo "REJECTED"
fi

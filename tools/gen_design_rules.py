#!/venv/bin/python
"""Emit the per-property section of DESIGN.md from the rule modules and the latest evidence."""
import importlib, json, os, sys
HERE = os.path.dirname(os.path.dirname(os.path.abspath(__file__)))
sys.path.insert(0, HERE)
sys.dont_write_bytecode = True
props = {json.loads(l)["id"]: json.loads(l) for l in open(os.path.join(HERE, "properties.jsonl"))}
out = []
for pid in sorted(props):
    mod = importlib.import_module(f"rules.{pid.lower()}")
    ev = json.load(open(os.path.join(HERE, "evidence", f"{pid}.json")))
    out.append(f"### {pid} {props[pid]['title']}\n")
    out.append(f"*Decided.* {mod.EXPLANATION}\n")
    out.append(f"*Not decided.* {mod.NOT_DECIDED}\n")
    out.append("| rule | statement | instances today | floor |")
    out.append("|---|---|---|---|")
    for rid, r in ev["coverage"]["rules"].items():
        out.append(f"| {rid} | {r['text']} | {r['instances']} | {r['floor']} |")
    st = ev["coverage"].get("selftest")
    nv = len(getattr(mod, "VARIANTS", []))
    twins = sum(1 for v in getattr(mod, "VARIANTS", []) if not v.expect)
    out.append(f"\nSelf-test catalogue: {nv} in-memory variants ({nv - twins} must fire, {twins} behaviour-preserving twins must stay silent).\n")
print("\n".join(out))

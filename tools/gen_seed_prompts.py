#!/venv/bin/python
"""Generate the prompts for one round of seeding sub-agents (one per property).

Each prompt carries only the property's text, the agent's own scratch worktree and the
one-line summaries of the changes earlier agents already submitted for that property
(so that the new one is different) — nothing about the checks in /verif.

usage: gen_seed_prompts.py <round-tag>      e.g. r4  ->  /tmp/wt-prompts/C01-r4.txt ...
"""
import glob, json, os, re, sys

HERE = os.path.dirname(os.path.dirname(os.path.abspath(__file__)))
tag = sys.argv[1]
tmpl_path = "/tmp/wt-prompts/C11-r3.txt"
tmpl = open(tmpl_path).read()
props = {json.loads(l)["id"]: json.loads(l) for l in open(os.path.join(HERE, "properties.jsonl"))}
head, rest = tmpl.split("The property (a semantic guarantee users of the library rely on):")
_, tail = rest.split("YOUR TASK:")
os.makedirs("/tmp/wt-prompts", exist_ok=True)
for pid, p in props.items():
    wid = f"{pid}-{tag}"
    a = p["anchors"]
    text = (
        f"ID: {pid}\nTitle: {p['title']}\nStatement: {p['statement']}\nQuantified over: {p['quantifier']['text']}\n"
        f"Why the existing tests cannot settle it: {p['why_tests_cant']}\n"
        f"Where the mechanism lives (anchors): files = {a.get('files')}; mechanisms = {json.dumps(a.get('mechanism'))}\n"
    )
    prev = []
    for m in sorted(glob.glob(os.path.join(HERE, "seeded", "*", "meta.json"))):
        meta = json.load(open(m))
        if meta.get("property") == pid:
            prev.append("  - " + meta.get("summary", "").strip())
    note = "\n\nNOTE: other contributors already submitted the following changes for this property. Yours must be substantially DIFFERENT from all of them: a different file or a different mechanism/clause of the property (do not vary the same idea):\n" + "\n".join(prev) + "\nAlso avoid: adding a functools.cached_property without invalidation; weakening _invalidate_cached_properties; dropping a list copy in a _copy helper; cancelling sibling tasks; string-prefix tests on ids — those ideas are taken as well. Prefer a clause of the property statement that none of the above touches.\n\n"
    out = head.replace("C11-r3", wid) + "The property (a semantic guarantee users of the library rely on):\n\n" + text + note + "YOUR TASK:" + tail.replace("C11-r3", wid).replace('"property": "C11"', f'"property": "{pid}"')
    open(f"/tmp/wt-prompts/{wid}.txt", "w").write(out)
print("written", len(props))

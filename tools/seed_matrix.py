#!/venv/bin/python
"""Run every property check against every seeded defect (in memory) and print which rules fire."""
import glob, json, os, sys
from concurrent.futures import ProcessPoolExecutor
HERE = os.path.dirname(os.path.dirname(os.path.abspath(__file__)))
sys.path.insert(0, HERE)
sys.dont_write_bytecode = True
from sa.rulebase import _eval_overlay
from sa.variants import apply_patch_in_memory

ALL = [f"C{i:02d}" for i in range(1, 21)]
repo = "/repo"
jobs = []
for d in sorted(glob.glob(os.path.join(HERE, "seeded", "*"))):
    try:
        ov = apply_patch_in_memory(repo, open(os.path.join(d, "patch.diff")).read())
    except Exception as e:
        print("cannot apply", d, e)
        continue
    for pid in ALL:
        jobs.append((os.path.basename(d), pid, (f"rules.{pid.lower()}", repo, ov, "quick")))
with ProcessPoolExecutor(16) as ex:
    res = list(ex.map(_eval_overlay, [j[2] for j in jobs]))
mat = {}
for (seed, pid, _), (fired, err) in zip(jobs, res):
    if fired:
        mat.setdefault(seed, {})[pid] = fired
json.dump(mat, open(os.path.join(HERE, "notes", "seed_matrix.json"), "w"), indent=1, sort_keys=True)
for seed in sorted(mat):
    meta = json.load(open(os.path.join(HERE, "seeded", seed, "meta.json")))
    own = meta["property"]
    print(f"| {seed} | {own} | " + "; ".join(", ".join(r for r in rules if r != "ANALYSIS-ERROR") or "analysis-error" for pid, rules in sorted(mat[seed].items())) + " |")
missing = [os.path.basename(d) for d in glob.glob(os.path.join(HERE, "seeded", "*")) if os.path.basename(d) not in mat]
print("undetected:", missing)

#!/bin/sh
# run the thorough tier of all 20 properties (4 at a time; each uses its own worker pool) and summarise
cd /verif
: > /tmp/thorough_all.log
for i in 01 02 03 04 05 06 07 08 09 10 11 12 13 14 15 16 17 18 19 20; do echo C$i; done | xargs -P 4 -I{} sh -c './check {} --tier thorough > /tmp/thorough_{}.log 2>&1; echo "{} rc=$?" >> /tmp/thorough_all.log; grep -h "self-test" /tmp/thorough_{}.log >> /tmp/thorough_all.log'
sort /tmp/thorough_all.log | grep -c "rc=0"
grep -h "rc=[^0]" /tmp/thorough_all.log
grep -h "self-test" /tmp/thorough_all.log | grep -v "unexpected=0" 
grep -h "self-test" /tmp/thorough_all.log | awk '{for(i=1;i<=NF;i++) if ($i ~ /silent=/) print $1, $i}' | awk -F'[=/]' '$2!=$3' | head

"""E4: dataflow over the CFG — reaching definitions, def-use slices, constant
refinement of tests, generic forward typestate."""

from __future__ import annotations

import ast
from typing import Any, Callable, Iterable

from .cfg import CFG, EdgeFilter, N, _walk_expr, both, eval_test, reachable, succs


def assigned_names(cfg: CFG, n: N) -> dict[str, ast.AST | None]:
    """Names (re)bound at node ``n`` -> the value expression (None if not a plain value)."""
    out: dict[str, ast.AST | None] = {}
    a = n.ast
    if a is None:
        return out

    def targets(t: ast.AST, val: ast.AST | None) -> None:
        if isinstance(t, ast.Name):
            out[t.id] = val
        elif isinstance(t, (ast.Tuple, ast.List)):
            elts = None
            if isinstance(val, (ast.Tuple, ast.List)) and len(val.elts) == len(t.elts):
                elts = val.elts
            for i, e in enumerate(t.elts):
                targets(e, elts[i] if elts is not None else _Proj(val, i) if val is not None else None)
        elif isinstance(t, ast.Starred):
            targets(t.value, None)

    if n.kind == "stmt":
        if isinstance(a, ast.Assign):
            for t in a.targets:
                targets(t, a.value)
        elif isinstance(a, ast.AnnAssign) and a.value is not None:
            targets(a.target, a.value)
        elif isinstance(a, ast.AugAssign):
            targets(a.target, a)
        elif isinstance(a, (ast.FunctionDef, ast.AsyncFunctionDef, ast.ClassDef)):
            out[a.name] = a
        elif isinstance(a, (ast.Import, ast.ImportFrom)):
            for al in a.names:
                out[(al.asname or al.name).split(".")[0]] = None
    elif n.kind == "for":
        targets(a.target, _Elem(a.iter))  # type: ignore[attr-defined]
    elif n.kind == "with_enter":
        for it in a.items:  # type: ignore[attr-defined]
            if it.optional_vars is not None:
                targets(it.optional_vars, it.context_expr)
    elif n.kind == "handler":
        if a.name:  # type: ignore[attr-defined]
            out[a.name] = a  # type: ignore[attr-defined]
    for e in cfg.header_exprs(n):
        for x in _walk_expr(e):
            if isinstance(x, ast.NamedExpr) and isinstance(x.target, ast.Name):
                out[x.target.id] = x.value
    return out


class _Proj(ast.AST):
    """value[i] of a tuple-unpacked right-hand side."""

    _fields = ("value",)

    def __init__(self, value: ast.AST, index: int):
        self.value = value
        self.index = index


class _Elem(ast.AST):
    """an element of an iterated expression."""

    _fields = ("value",)

    def __init__(self, value: ast.AST):
        self.value = value


RD = dict[N, dict[str, frozenset]]


def reaching_defs(cfg: CFG, ef: EdgeFilter | None = None) -> RD:
    """node -> {name -> set of defining nodes reaching the *entry* of node}.
    Parameters (and free variables) are defined at ``cfg.entry``."""
    nodes = sorted(reachable(cfg.entry, ef))
    gen: dict[N, dict[str, ast.AST | None]] = {n: assigned_names(cfg, n) for n in nodes}
    IN: dict[N, dict[str, frozenset]] = {n: {} for n in nodes}
    work = list(nodes)
    inwork = set(nodes)
    while work:
        n = work.pop(0)
        inwork.discard(n)
        out = dict(IN[n])
        for name in gen[n]:
            out[name] = frozenset([n])
        for t, l, i in n.succ:
            if ef is not None and not ef(n, t, l, i):
                continue
            if t not in IN:
                continue
            # an exception edge leaves before the node's own bindings take effect
            src = IN[n] if l == "exc" else out
            tgt = IN[t]
            changed = False
            for name, ds in src.items():
                old = tgt.get(name)
                if old is None:
                    tgt[name] = ds
                    changed = True
                elif not ds <= old:
                    tgt[name] = old | ds
                    changed = True
            if changed and t not in inwork:
                work.append(t)
                inwork.add(t)
    return IN


def defs_reaching(cfg: CFG, rd: RD, n: N, name: str) -> list[tuple[N, ast.AST | None]]:
    """(def node, value expr) pairs for ``name`` at node ``n``; a parameter / free
    variable yields (cfg.entry, None)."""
    ds = rd.get(n, {}).get(name)
    if not ds:
        return [(cfg.entry, None)]
    out = []
    for d in sorted(ds):
        out.append((d, assigned_names(cfg, d).get(name)))
    return out


def refine_constants(cfg: CFG, ef: EdgeFilter | None = None, rounds: int = 3) -> EdgeFilter:
    """Prune branches of tests ``x is None`` / ``x is not None`` / ``x`` / ``not x``
    decided by the constant definitions that reach them."""
    decided: dict[int, bool] = {}

    def ef_dec(a: N, b: N, label: str, info: Any) -> bool:
        if a.kind == "test" and a.id in decided and label in ("T", "F"):
            return (label == "T") == decided[a.id]
        return True

    cur = both(ef, ef_dec)
    for _ in range(rounds):
        rd = reaching_defs(cfg, cur)
        changed = False
        for n in reachable(cfg.entry, cur):
            if n.kind != "test" or n.id in decided or n.ast is None:
                continue
            val: dict[str, bool] = {}
            for x in ast.walk(n.ast):
                if isinstance(x, ast.Name):
                    ds = rd.get(n, {}).get(x.id)
                    if not ds:
                        continue
                    consts = []
                    for d in ds:
                        v = assigned_names(cfg, d).get(x.id)
                        consts.append(v.value if isinstance(v, ast.Constant) else _NOCONST)
                    if all(c is not _NOCONST for c in consts):
                        if all(c is None for c in consts):
                            val[f"{x.id} is None"] = True
                            val[x.id] = False
                        elif all(c is not None for c in consts):
                            val[f"{x.id} is None"] = False
                            if all(bool(c) for c in consts):
                                val[x.id] = True
                            elif all(not bool(c) for c in consts):
                                val[x.id] = False
            if val:
                r = eval_test(n.ast, val)
                if r is not None:
                    decided[n.id] = r
                    changed = True
        if not changed:
            break
    return cur


_NOCONST = object()


def names_in(e: ast.AST) -> set[str]:
    return {x.id for x in _walk_expr(e) if isinstance(x, ast.Name)}


def backward_slice(cfg: CFG, rd: RD, n: N, exprs: Iterable[ast.AST], limit: int = 400) -> list[tuple[N, str, ast.AST | None]]:
    """All (def node, name, value) transitively feeding the names in ``exprs`` at ``n``."""
    out: list[tuple[N, str, ast.AST | None]] = []
    seen: set[tuple[int, str]] = set()
    todo: list[tuple[N, str]] = []
    for e in exprs:
        for nm in names_in(e):
            todo.append((n, nm))
    while todo and len(out) < limit:
        at, nm = todo.pop()
        for d, v in defs_reaching(cfg, rd, at, nm):
            if (d.id, nm) in seen:
                continue
            seen.add((d.id, nm))
            out.append((d, nm, v))
            if v is not None and d is not cfg.entry:
                # the whole header of the defining node feeds it (e.g. for-loop iter)
                for sub in names_in(v) if not isinstance(v, (ast.FunctionDef, ast.AsyncFunctionDef, ast.ClassDef, ast.ExceptHandler)) else set():
                    todo.append((d, sub))
    return out


def forward_states(
    cfg: CFG,
    init: frozenset,
    transfer: Callable[[N, frozenset], frozenset],
    ef: EdgeFilter | None = None,
    exc_transfer: Callable[[N, frozenset, frozenset], frozenset] | None = None,
) -> dict[N, frozenset]:
    """Generic forward may-analysis: state = frozenset of automaton states at node entry.
    ``transfer`` applies the node's effect on normal edges; on exception edges the
    state *before* the node is propagated (optionally adjusted by ``exc_transfer``)."""
    IN: dict[N, frozenset] = {cfg.entry: init}
    work = [cfg.entry]
    while work:
        n = work.pop()
        s_in = IN[n]
        s_out = transfer(n, s_in)
        for t, l, i in n.succ:
            if ef is not None and not ef(n, t, l, i):
                continue
            s = s_in if l == "exc" else s_out
            if l == "exc" and exc_transfer is not None:
                s = exc_transfer(n, s_in, i)
            old = IN.get(t)
            new = s if old is None else (old | s)
            if old is None or new != old:
                IN[t] = new
                work.append(t)
    return IN

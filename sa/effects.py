"""E5: attribute read/write/mutation effects on parameters, closed over resolved callees."""

from __future__ import annotations

import ast
from dataclasses import dataclass
from typing import Iterable

from .db import Callee, FuncInfo, ProgramDB, bind_args, dotted, walk_local

MUTATORS = {
    "append",
    "extend",
    "insert",
    "update",
    "setdefault",
    "pop",
    "popitem",
    "clear",
    "add",
    "remove",
    "discard",
    "sort",
    "reverse",
    "move_to_end",
    "appendleft",
    "popleft",
    "__setitem__",
    "__delitem__",
    "put_nowait",
    # networkx graph mutators (the nx graph is shared by every bind/select/with_entrypoint copy of a Graph)
    "add_edge",
    "add_edges_from",
    "add_node",
    "add_nodes_from",
    "remove_edge",
    "remove_edges_from",
    "remove_node",
    "remove_nodes_from",
    "clear_edges",
}
ELEMENT_GETTERS = {"get", "values", "items", "keys", "__getitem__"}
NX_READS = {"subgraph", "predecessors", "successors", "nodes", "edges", "has_node", "has_edge", "in_edges", "out_edges", "neighbors", "in_degree", "out_degree", "number_of_nodes", "reverse"}
FRESH_CALLS = {"dict", "list", "set", "tuple", "frozenset", "sorted", "copy.copy", "copy.deepcopy", "str", "repr", "len", "bool", "int", "float"}

SHALLOW_COPY_CALLS = {"copy.copy", "dict", "list", "set"}
SHALLOW = "<shallow>"

PURE_EXTERNALS = {
    "isinstance", "issubclass", "len", "str", "repr", "type", "id", "hasattr", "print", "bool", "int", "float", "hash", "callable", "iter", "next",
    "dict", "list", "set", "tuple", "frozenset", "sorted", "reversed", "enumerate", "zip", "any", "all", "min", "max", "sum", "getattr", "format",
    "deepcopy", "copy", "dumps", "isawaitable", "iscoroutine", "isgenerator", "isasyncgen", "iscoroutinefunction", "isgeneratorfunction", "isasyncgenfunction",
    "signature", "get_type_hints", "getsource", "descendants", "ancestors", "has_path", "topological_sort", "is_directed_acyclic_graph", "simple_cycles",
    "gather", "create_task", "warn", "chain", "product", "map", "filter", "replace", "fields", "is_dataclass", "asdict", "unparse", "join",
}
Path = tuple  # of attribute names / '[*]'


@dataclass(frozen=True)
class Effect:
    kind: str  # 'read' | 'write' | 'mutate' | 'unknown'
    path: Path
    func: str
    lineno: int
    detail: str = ""

    def top(self) -> str:
        return self.path[0] if self.path else ""


def _fmt(path: Path) -> str:
    return ".".join(path).replace(".[*]", "[*]")


class Effects:
    def __init__(self, db: ProgramDB, max_depth: int = 4):
        self.db = db
        self.max_depth = max_depth
        self.memo: dict[str, dict[str, set[Effect]]] = {}
        self.active: set[str] = set()

    # -- aliasing -------------------------------------------------------------

    def env(self, f: FuncInfo) -> dict[str, set[tuple[str, Path]]]:
        """local name -> set of (root, path) it may alias.  Roots are parameter names of
        ``f`` or ``free:<name>`` for variables of enclosing functions."""
        cached = getattr(f, "_alias_env", None)
        if cached is not None:
            return cached
        env: dict[str, set[tuple[str, Path]]] = {}
        params = set(f.param_names)
        for p in params:
            env[p] = {(p, ())}
        locals_ = self.db.local_defs(f)
        # free variables: names used but neither local nor param, defined in an enclosing function
        if f.parent is not None:
            used = {n.id for n in walk_local(f.node) if isinstance(n, ast.Name)}
            for name in used:
                if name in params or name in locals_:
                    continue
                g = f.parent
                while g is not None:
                    if name in g.param_names or name in self.db.local_defs(g):
                        env[name] = {(f"free:{name}", ())}
                        break
                    g = g.parent
        for name in locals_:
            if name not in params and name not in env:
                env[name] = {(f"local:{name}", ())}
        for _ in range(4):
            changed = False
            for n in walk_local(f.node):
                pairs: list[tuple[ast.AST, ast.AST | None, bool]] = []
                if isinstance(n, ast.Assign):
                    for t in n.targets:
                        pairs.append((t, n.value, False))
                elif isinstance(n, ast.AnnAssign) and n.value is not None:
                    pairs.append((n.target, n.value, False))
                elif isinstance(n, (ast.For, ast.AsyncFor, ast.comprehension)):
                    pairs.append((n.target, n.iter, True))
                elif isinstance(n, ast.NamedExpr):
                    pairs.append((n.target, n.value, False))
                elif isinstance(n, (ast.With, ast.AsyncWith)):
                    for it in n.items:
                        if it.optional_vars is not None:
                            pairs.append((it.optional_vars, it.context_expr, False))
                for tgt, val, elem in pairs:
                    if val is None:
                        continue
                    ps = self.paths(val, env, f)
                    if elem:
                        ps = {(r, p + ("[*]",)) for r, p in ps}
                    names = [tgt] if isinstance(tgt, ast.Name) else [e for e in ast.walk(tgt) if isinstance(e, ast.Name)] if isinstance(tgt, (ast.Tuple, ast.List)) else []
                    if isinstance(tgt, (ast.Tuple, ast.List)) and not elem:
                        # tuple unpacking of a non-iterated value: elements
                        ps = {(r, p + ("[*]",)) for r, p in ps}
                    for nm in names:
                        if nm.id in params:
                            continue  # rebinding a parameter: keep it simple, still aliases the param as well
                        cur = env.setdefault(nm.id, set())
                        if not ps <= cur:
                            cur |= ps
                            changed = True
            if not changed:
                break
        f._alias_env = env  # type: ignore[attr-defined]
        return env

    def paths(self, e: ast.AST, env: dict[str, set[tuple[str, Path]]], f: FuncInfo | None = None) -> set[tuple[str, Path]]:
        if isinstance(e, ast.Name):
            return set(env.get(e.id, set()))
        if isinstance(e, ast.Attribute):
            res: set[tuple[str, Path]] = set()
            for r, p in self.paths(e.value, env, f):
                o = self._overrides(p[-1]).get(e.attr) if p else None
                if o is not None:
                    res |= set(o[0])  # the field was re-assigned on the fresh copy
                    if o[1]:
                        continue
                res.add((r, _cap(p + (e.attr,), 4 if not any(_is_shallow(x) for x in p) else 6)))
            return res
        if isinstance(e, ast.Subscript):
            return {(r, _cap(p + ("[*]",))) for r, p in self.paths(e.value, env, f)}
        if isinstance(e, ast.Starred):
            return self.paths(e.value, env, f)
        if isinstance(e, ast.Await):
            return self.paths(e.value, env, f)
        if isinstance(e, ast.IfExp):
            return self.paths(e.body, env, f) | self.paths(e.orelse, env, f)
        if isinstance(e, ast.BoolOp):
            out: set[tuple[str, Path]] = set()
            for v in e.values:
                out |= self.paths(v, env, f)
            return out
        if isinstance(e, ast.NamedExpr):
            return self.paths(e.value, env, f)
        if isinstance(e, ast.Call):
            if isinstance(e.func, ast.Attribute) and e.func.attr in ELEMENT_GETTERS | {"pop", "setdefault"}:
                return {(r, _cap(p + ("[*]",))) for r, p in self.paths(e.func.value, env, f)}
            d = dotted(e.func)
            if d == "getattr" and len(e.args) >= 2 and isinstance(e.args[1], ast.Constant) and isinstance(e.args[1].value, str):
                return {(r, _cap(p + (e.args[1].value,))) for r, p in self.paths(e.args[0], env, f)}
            # shallow copies: a fresh top-level object whose fields / elements are shared with the source
            if d in SHALLOW_COPY_CALLS and len(e.args) == 1 and not e.keywords:
                return {(r, _cap(p + (SHALLOW,), 5)) for r, p in self.paths(e.args[0], env, f)}
            if d in ("reversed", "iter", "enumerate", "zip") and e.args:
                out = set()
                for a in e.args:
                    out |= self.paths(a, env, f)
                return out
            if f is not None:
                return self._call_result_paths(e, env, f)
            return set()
        return set()

    def returns(self, g: FuncInfo) -> tuple[set[tuple[str, Path]], dict[str, tuple[frozenset, bool]]]:
        """What the value returned by ``g`` may alias: (parameter, path) pairs (``return graph.inputs`` ->
        ("graph", ("inputs",))), and the fields the function re-assigned on the returned local before
        returning it (``clone.hist = list(self.hist)``): field -> (aliases of the new value, assigned on every path)."""
        memo = self.__dict__.setdefault("_ret_memo", {})
        if g.qname in memo:
            return memo[g.qname]
        act = self.__dict__.setdefault("_ret_active", set())
        if g.qname in act or len(act) > 6:
            return set(), {}
        act.add(g.qname)
        out: set[tuple[str, Path]] = set()
        ov: dict[str, tuple[frozenset, bool]] = {}
        if not any(isinstance(n, (ast.Yield, ast.YieldFrom)) for n in walk_local(g.node)):
            env = self.env(g)
            params = set(g.param_names)
            ret_names: set[str] = set()
            for n in walk_local(g.node):
                if isinstance(n, ast.Return) and n.value is not None:
                    out |= {(r, p) for r, p in self.paths(n.value, env, g) if r in params}
                    if isinstance(n.value, ast.Name):
                        ret_names.add(n.value.id)
            if len(ret_names) == 1:
                nm = next(iter(ret_names))
                top = set(map(id, g.body))
                for n in walk_local(g.node):
                    if isinstance(n, ast.Assign) and len(n.targets) == 1 and isinstance(n.targets[0], ast.Attribute) and isinstance(n.targets[0].value, ast.Name) and n.targets[0].value.id == nm:
                        fld = n.targets[0].attr
                        ps = frozenset((r, p) for r, p in self.paths(n.value, env, g) if r in params)
                        strong = id(n) in top
                        if fld in ov:
                            ps, strong = ps | ov[fld][0], strong and ov[fld][1]
                        ov[fld] = (ps, strong)
        act.discard(g.qname)
        memo[g.qname] = (out, ov)
        return out, ov

    def _marker(self, table: dict[str, tuple[frozenset, bool]]) -> str:
        tabs = self.__dict__.setdefault("_ov", [])
        key = tuple(sorted((k, tuple(sorted(v[0])), v[1]) for k, v in table.items()))
        idx = self.__dict__.setdefault("_ov_idx", {})
        if key not in idx:
            idx[key] = len(tabs)
            tabs.append(table)
        return f"{SHALLOW[:-1]}#{idx[key]}>"

    def _overrides(self, elem: str) -> dict[str, tuple[frozenset, bool]]:
        if elem.startswith(SHALLOW[:-1] + "#"):
            return self.__dict__.get("_ov", [])[int(elem[len(SHALLOW) :-1])]
        return {}

    def _call_result_paths(self, call: ast.Call, env, f: FuncInfo) -> set[tuple[str, Path]]:
        """Aliases of the result of a call to a package function, through its return summary."""
        out: set[tuple[str, Path]] = set()
        for c in self.db.resolve_call(call, f):
            g = c.func
            if g is None or c.kind != "func":
                continue
            rs, ov = self.returns(g)
            if not rs:
                continue
            binding = dict(bind_args(call, g) or {})
            if isinstance(call.func, ast.Attribute) and g.positional_params[:1] == ["self"] and "self" not in binding:
                binding["self"] = call.func.value
            arg_paths = {k: self.paths(a, env, f) for k, a in binding.items()}

            def remap_pairs(pairs, depth=0) -> frozenset:
                res = set()
                for root, path in pairs:
                    for r, p in arg_paths.get(root, ()):
                        res.add((r, _cap(p + remap_path(path, depth), 6)))
                return frozenset(res)

            def remap_path(path: Path, depth=0) -> Path:
                if depth > 3:
                    return tuple(SHALLOW if _is_shallow(x) else x for x in path)
                return tuple(self._marker({k: (remap_pairs(v[0], depth + 1), v[1]) for k, v in self._overrides(x).items()}) if self._overrides(x) else x for x in path)

            for root, path in rs:
                if root not in arg_paths:
                    continue
                path2 = remap_path(path)
                if ov and path2 and _is_shallow(path2[-1]):
                    table = dict(self._overrides(path2[-1]))
                    table.update({k: (remap_pairs(v[0]), v[1]) for k, v in ov.items()})
                    path2 = path2[:-1] + (self._marker(table),)
                out |= {(r, _cap(p + path2, 6)) for r, p in arg_paths[root]}
        return out

    # -- summaries ---------------------------------------------------------------

    def summary(self, f: FuncInfo, depth: int = 0) -> dict[str, set[Effect]]:
        """root -> effects (paths relative to the root)."""
        if f.qname in self.memo:
            return self.memo[f.qname]
        cuts = self.__dict__.setdefault("_cuts", [])
        if f.qname in self.active or depth > 12:
            # recursion cut: every summary being computed above this point is incomplete with respect to
            # f and must not be memoised until f itself has finished
            for cs in cuts:
                cs.add(f.qname)
            return {}
        partial = self.__dict__.setdefault("_partial", {})
        if f.qname in partial and partial[f.qname][0] <= self.active:
            # computed earlier in the same recursion context (same functions still open): reuse
            return partial[f.qname][1]
        self.active.add(f.qname)
        my_cuts: set[str] = set()
        cuts.append(my_cuts)
        out: dict[str, set[Effect]] = {}
        env = self.env(f)

        def add(kind: str, root: str, path: Path, node: ast.AST, detail: str = "") -> None:
            if any(_is_shallow(x) for x in path):
                # effects on the fresh top level of a shallow copy are not effects on the source;
                # anything below it (a field's object, an element) is shared with the source
                i = max(k for k, x in enumerate(path) if _is_shallow(x))
                rest = tuple(x for x in path[i + 1 :])
                if rest[:1] == ("__dict__",):
                    rest = rest[1:]
                    if kind == "mutate" and len(rest) == 0:
                        return  # the copy's own attribute dict
                if kind == "write" and len(rest) == 1:
                    return
                if kind == "mutate" and len(rest) == 0:
                    return
                path = tuple(x for x in path if not _is_shallow(x))
            out.setdefault(root, set()).add(Effect(kind, _cap(path), f.qname, getattr(node, "lineno", 0), detail))

        def add_all(kind: str, ps: Iterable[tuple[str, Path]], node: ast.AST, detail: str = "", extra: Path = ()) -> None:
            for r, p in ps:
                add(kind, r, p + extra, node, detail)

        for n in walk_local(f.node):
            # stores
            if isinstance(n, (ast.Assign, ast.AugAssign, ast.AnnAssign, ast.Delete)):
                tgts = n.targets if isinstance(n, (ast.Assign, ast.Delete)) else [n.target]
                flat: list[ast.AST] = []
                for t in tgts:
                    if isinstance(t, (ast.Tuple, ast.List)):
                        flat += list(t.elts)
                    else:
                        flat.append(t)
                for t in flat:
                    if isinstance(t, ast.Attribute):
                        add_all("write", self.paths(t.value, env, f), n, f"{ast.unparse(t)} = ...", (t.attr,))
                    elif isinstance(t, ast.Subscript):
                        add_all("mutate", self.paths(t.value, env, f), n, f"{'del ' if isinstance(n, ast.Delete) else ''}{ast.unparse(t)}", ("[*]",) if False else ())
                    elif isinstance(t, ast.Name) and isinstance(n, ast.AugAssign):
                        # x += ... mutates in place for lists
                        if isinstance(n.op, (ast.Add, ast.BitOr)):
                            add_all("mutate", env.get(t.id, set()) if t.id not in f.param_names or True else set(), n, f"{t.id} {type(n.op).__name__}= ...")
            elif isinstance(n, ast.Attribute) and isinstance(n.ctx, ast.Load):
                ps = self.paths(n.value, env, f)
                if ps:
                    add_all("read", ps, n, "", (n.attr,))
                    # property expansion
                    t = self.db.type_of(n.value, f)
                    if t is not None:
                        for ci in t.classes():
                            m = ci.find_method(n.attr)
                            if m is not None and m.is_property:
                                sub = self.summary(m, depth + 1)
                                for eff in sub.get("self", set()):
                                    for r, p in ps:
                                        add(eff.kind, r, p + eff.path, n, f"via property {m.qname}: {eff.detail}")
            elif isinstance(n, ast.Call):
                self._call(f, n, env, add, add_all, depth)
        # nested functions defined here: their effects on free variables map to our env
        for ch in f.children.values():
            sub = self.summary(ch, depth + 1)
            for root, effs in sub.items():
                if root.startswith("free:"):
                    name = root[5:]
                    for r, p in env.get(name, set()):
                        for eff in effs:
                            out.setdefault(r, set()).add(Effect(eff.kind, _cap(p + eff.path), eff.func, eff.lineno, eff.detail))
        self.active.discard(f.qname)
        cuts.pop()
        open_cuts = (my_cuts - {f.qname}) & self.active
        if open_cuts:
            # depends on a function that is still being summarised: valid only while those stay open
            partial[f.qname] = (frozenset(open_cuts), out)
        else:
            self.memo[f.qname] = out
            partial.pop(f.qname, None)
        return out

    def _call(self, f: FuncInfo, call: ast.Call, env, add, add_all, depth: int) -> None:
        fe = call.func
        cals = self.db.resolve_call(call, f)
        d = dotted(fe)
        # method call on an aliased receiver
        if isinstance(fe, ast.Attribute):
            recv = self.paths(fe.value, env, f)
            if recv:
                pkg = [c for c in cals if c.func is not None and c.kind == "func"]
                if pkg:
                    for c in pkg:
                        g = c.func
                        if g.positional_params[:1] == ["self"]:
                            sub = self.summary(g, depth + 1)
                            for eff in sub.get("self", set()):
                                for r, p in recv:
                                    add(eff.kind, r, p + eff.path, call, f"via {g.qname}: {eff.detail}" if not eff.detail.startswith("via") else eff.detail)
                else:
                    if fe.attr in MUTATORS:
                        add_all("mutate", recv, call, f"{ast.unparse(fe)}(...)")
                    elif fe.attr in ELEMENT_GETTERS or fe.attr in NX_READS or fe.attr in ("copy", "index", "count", "startswith", "endswith", "join", "format", "split", "strip", "lower", "upper", "encode", "is_set", "locked", "issubset", "issuperset", "union", "intersection", "difference", "isdisjoint", "get_nowait", "empty", "qsize"):
                        add_all("read", recv, call)
                    elif not cals or all(c.kind == "ext" for c in cals):
                        add_all("unknown", recv, call, f"unresolved method {ast.unparse(fe)}(...)")
        # setattr(obj, name, v)
        if d == "setattr" and len(call.args) >= 2:
            nm = call.args[1].value if isinstance(call.args[1], ast.Constant) else "?"
            add_all("write", self.paths(call.args[0], env, f), call, f"setattr(..., {nm!r})", (str(nm),))
            return
        if d in ("object.__setattr__",) and len(call.args) >= 3:
            nm = call.args[1].value if isinstance(call.args[1], ast.Constant) else "?"
            add_all("write", self.paths(call.args[0], env, f), call, f"object.__setattr__(..., {nm!r})", (str(nm),))
            return
        # arguments flowing into package callees
        for c in cals:
            g = c.func
            if g is None:
                continue
            binding = bind_args(call, g)
            if not binding:
                continue
            sub = None
            for pname, aexpr in binding.items():
                ps = self.paths(aexpr, env, f)
                if not ps:
                    continue
                if sub is None:
                    sub = self.summary(g, depth + 1)
                for eff in sub.get(pname, set()):
                    for r, p in ps:
                        add(eff.kind, r, p + eff.path, call, eff.detail if eff.detail.startswith("via") else f"via {g.qname}: {eff.detail}")
        if not cals or all(c.kind == "ext" for c in cals):
            # unresolved / external callee receiving an alias
            short = (d or (fe.attr if isinstance(fe, ast.Attribute) else "")).split(".")[-1]
            for a in list(call.args) + [k.value for k in call.keywords]:
                ps = self.paths(a, env, f)
                if not ps:
                    continue
                if short in PURE_EXTERNALS:
                    continue
                if isinstance(fe, ast.Attribute) and fe.attr in MUTATORS | {"put_nowait", "issubset", "issuperset", "union", "intersection", "difference", "get", "index", "count", "join", "format", "warning", "debug", "info", "error"}:
                    add_all("escape", ps, call, f"stored/passed to {ast.unparse(fe)[:40]}(...)")
                    continue
                add_all("unknown", ps, call, f"passed to unresolved {ast.unparse(fe)[:40]}(...)")

    # -- queries -------------------------------------------------------------------

    def on_param(self, f: FuncInfo, param: str) -> set[Effect]:
        return set(self.summary(f).get(param, set()))

    def writes(self, f: FuncInfo, param: str, include_unknown: bool = False) -> list[Effect]:
        kinds = {"write", "mutate"} | ({"unknown"} if include_unknown else set())
        return sorted((e for e in self.on_param(f, param) if e.kind in kinds), key=lambda e: (e.func, e.lineno, e.path))

    def reads(self, f: FuncInfo, param: str) -> set[Path]:
        return {e.path for e in self.on_param(f, param) if e.kind == "read"}


def _is_shallow(x: str) -> bool:
    return x == SHALLOW or x.startswith(SHALLOW[:-1] + "#")


def _cap(p: Path, n: int = 4) -> Path:
    return p[:n]


def fmt_effect(e: Effect) -> str:
    return f"{e.kind} {_fmt(e.path)} at {e.func.split('.')[-1]}:{e.lineno} {e.detail}".strip()

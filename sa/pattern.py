"""AST patterns with metavariables, so rules recognise constructs independent of local names.

A pattern is Python source in which identifiers of the form ``_A``, ``_Node`` (underscore
followed by an upper-case letter) are *metavariables*: each matches any expression, and
repeated occurrences must match structurally equal expressions.  ``__`` matches anything
without binding.  A statement pattern whose body is ``...`` matches any body.

    find_all("_O.name != _N.name", func_node)       -> [(node, {"_O": <ast>, "_N": <ast>}), ...]
    find_all("for _W in _N.wait_for: ...", func)    -> loops over <something>.wait_for
"""

from __future__ import annotations

import ast
import re
from typing import Iterator

_META = re.compile(r"^_[A-Z][A-Za-z0-9]*$")
_cache: dict[str, ast.AST] = {}


def _parse(pattern: str) -> ast.AST:
    if pattern not in _cache:
        try:
            node: ast.AST = ast.parse(pattern, mode="eval").body
        except SyntaxError:
            mod = ast.parse(pattern)
            node = mod.body[0]
            if isinstance(node, ast.Expr):
                node = node.value
        _cache[pattern] = node
    return _cache[pattern]


def _is_any_body(body: list) -> bool:
    return len(body) == 1 and isinstance(body[0], ast.Expr) and isinstance(body[0].value, ast.Constant) and body[0].value.value is Ellipsis


def _eq(a: ast.AST, b: ast.AST) -> bool:
    try:
        return ast.unparse(a) == ast.unparse(b)  # ignores Load/Store context
    except Exception:
        return ast.dump(a) == ast.dump(b)


def match(pat: ast.AST | str, node: ast.AST, env: dict[str, ast.AST] | None = None) -> dict[str, ast.AST] | None:
    """Match ``node`` against ``pat``; returns the (extended) bindings or None."""
    if isinstance(pat, str):
        pat = _parse(pat)
    env = dict(env or {})
    return env if _m(pat, node, env) else None


def _m(p, n, env) -> bool:
    if isinstance(p, ast.Name):
        if p.id == "__":
            return isinstance(n, ast.AST)
        if _META.match(p.id):
            if not isinstance(n, ast.AST):
                return False
            if p.id in env:
                return _eq(env[p.id], n)
            env[p.id] = n
            return True
    if isinstance(p, ast.AST):
        if type(p) is not type(n):
            return False
        if isinstance(p, ast.Compare) and len(p.ops) == 1 and isinstance(p.ops[0], (ast.Eq, ast.NotEq)) and len(getattr(n, "ops", [])) == 1 and type(n.ops[0]) is type(p.ops[0]):
            # == and != are matched in either operand order
            for a, b in ((n.left, n.comparators[0]), (n.comparators[0], n.left)):
                trial = dict(env)
                if _m(p.left, a, trial) and _m(p.comparators[0], b, trial):
                    env.clear()
                    env.update(trial)
                    return True
            return False
        for f in p._fields:
            if f in ("ctx", "type_comment", "type_params"):
                continue
            pv, nv = getattr(p, f, None), getattr(n, f, None)
            if f in ("body", "orelse", "finalbody") and isinstance(pv, list) and _is_any_body(pv):
                continue
            if f == "orelse" and isinstance(pv, list) and not pv and isinstance(p, (ast.For, ast.While, ast.If, ast.Try)):
                continue  # pattern without else matches with or without
            if not _m(pv, nv, env):
                return False
        return True
    if isinstance(p, list):
        if not isinstance(n, list) or len(p) != len(n):
            return False
        return all(_m(a, b, env) for a, b in zip(p, n))
    # identifiers in attribute/arg positions may be metavariables too
    if isinstance(p, str) and _META.match(p):
        if not isinstance(n, str):
            return False
        key = p
        if key in env:
            return isinstance(env[key], ast.Name) and env[key].id == n
        env[key] = ast.Name(id=n, ctx=ast.Load())
        return True
    return p == n


def find_all(pattern: str, root: ast.AST, env: dict[str, ast.AST] | None = None) -> list[tuple[ast.AST, dict[str, ast.AST]]]:
    pat = _parse(pattern)
    out = []
    for n in ast.walk(root):
        b = match(pat, n, env)
        if b is not None:
            out.append((n, b))
    return out


def exists(pattern: str, root: ast.AST, env: dict[str, ast.AST] | None = None) -> bool:
    return bool(find_all(pattern, root, env))


def solve(patterns: list[str], root: ast.AST) -> list[dict[str, ast.AST]]:
    """All binding environments under which every pattern matches somewhere in ``root``
    (metavariables shared across patterns must agree)."""
    envs: list[dict[str, ast.AST]] = [{}]
    for p in patterns:
        nxt = []
        for e in envs:
            for _, b in find_all(p, root, e):
                if b not in nxt:
                    nxt.append(b)
        envs = nxt
        if not envs:
            break
    return envs


def name_of(n: ast.AST | None) -> str | None:
    return n.id if isinstance(n, ast.Name) else None

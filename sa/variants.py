"""In-memory source variants for the checker self-test.

A variant is an edit of one or more files of the *current* tree, applied in
memory (overlay) — nothing is written to disk.  Variants never change a check's
exit code; their outcome is recorded in the evidence.
"""

from __future__ import annotations

import ast
import os
import re
from dataclasses import dataclass, field
from typing import Callable


class VariantNotApplicable(Exception):
    pass


@dataclass
class Variant:
    name: str
    rel: str  # file path relative to repo root
    edit: Callable[[str], str]
    expect: set[str] = field(default_factory=set)  # rule ids expected to fire; empty = silent twin
    note: str = ""


def replace_once(old: str, new: str) -> Callable[[str], str]:
    """Edit: replace exactly one occurrence of ``old`` (after whitespace-insensitive
    location).  Raises VariantNotApplicable if not found exactly once."""

    def edit(src: str) -> str:
        n = src.count(old)
        if n != 1:
            raise VariantNotApplicable(f"pattern occurs {n} times: {old[:60]!r}")
        return src.replace(old, new)

    return edit


def sub_once(pattern: str, repl: str, flags: int = re.S) -> Callable[[str], str]:
    def edit(src: str) -> str:
        out, n = re.subn(pattern, repl, src, flags=flags)
        if n != 1:
            raise VariantNotApplicable(f"regex matched {n} times: {pattern[:60]!r}")
        return out

    return edit


def sub_first(pattern: str, repl: str, flags: int = re.S) -> Callable[[str], str]:
    def edit(src: str) -> str:
        out, n = re.subn(pattern, repl, src, count=1, flags=flags)
        if n != 1:
            raise VariantNotApplicable(f"regex did not match: {pattern[:60]!r}")
        return out

    return edit


def chain(*edits: Callable[[str], str]) -> Callable[[str], str]:
    def edit(src: str) -> str:
        for e in edits:
            src = e(src)
        return src

    return edit


def apply_variant(repo: str, v: Variant) -> dict[str, str]:
    path = os.path.join(repo, v.rel)
    with open(path, encoding="utf-8") as fh:
        src = fh.read()
    new = v.edit(src)
    if new == src:
        raise VariantNotApplicable("edit left the source unchanged")
    try:
        ast.parse(new)
    except SyntaxError as e:
        raise VariantNotApplicable(f"variant does not parse: {e}") from e
    return {v.rel: new}


# ---------------------------------------------------------------------------
# unified diff -> overlay
# ---------------------------------------------------------------------------


def apply_patch_in_memory(repo: str, patch_text: str) -> dict[str, str]:
    """Apply a unified diff (``git diff`` output) to the files of ``repo`` in memory."""
    files: dict[str, list[tuple[int, list[str]]]] = {}
    cur: str | None = None
    hunk: list[str] | None = None
    start = 0
    for line in patch_text.splitlines():
        if line.startswith("+++ "):
            p = line[4:].strip()
            if p.startswith("b/"):
                p = p[2:]
            cur = p
            files.setdefault(cur, [])
            hunk = None
        elif line.startswith("--- ") or line.startswith("diff ") or line.startswith("index ") or line.startswith("new file") or line.startswith("deleted file") or line.startswith("similarity") or line.startswith("rename "):
            hunk = None
        elif line.startswith("@@"):
            m = re.match(r"@@ -(\d+)(?:,(\d+))? \+(\d+)(?:,(\d+))? @@", line)
            if not m or cur is None:
                raise VariantNotApplicable(f"bad hunk header: {line}")
            start = int(m.group(1))
            hunk = []
            files[cur].append((start, hunk))
        elif hunk is not None and (line[:1] in (" ", "+", "-") or line == ""):
            hunk.append(line if line else " ")
        elif line.startswith("\\"):
            continue
    overlay: dict[str, str] = {}
    for rel, hunks in files.items():
        path = os.path.join(repo, rel)
        if os.path.exists(path):
            with open(path, encoding="utf-8") as fh:
                lines = fh.read().split("\n")
        else:
            lines = [""]
        offset = 0
        for start, h in hunks:
            old = [l[1:] for l in h if l[:1] in (" ", "-")]
            new = [l[1:] for l in h if l[:1] in (" ", "+")]
            pos = None
            base = start - 1 + offset
            for delta in sorted(range(-400, 401), key=abs):
                p = base + delta
                if p < 0 or p + len(old) > len(lines):
                    continue
                if lines[p : p + len(old)] == old:
                    pos = p
                    break
            if pos is None:
                raise VariantNotApplicable(f"hunk at line {start} of {rel} does not apply to the current tree")
            lines[pos : pos + len(old)] = new
            offset += len(new) - len(old)
        overlay[rel] = "\n".join(lines)
    for rel, src in overlay.items():
        if rel.endswith(".py"):
            try:
                ast.parse(src)
            except SyntaxError as e:
                raise VariantNotApplicable(f"patched {rel} does not parse: {e}") from e
    return overlay


# ---------------------------------------------------------------------------
# behaviour-preserving twins: consistent renames of local variables
# ---------------------------------------------------------------------------

def locals_of(fn):
    params = {a.arg for a in fn.args.posonlyargs + fn.args.args + fn.args.kwonlyargs}
    if fn.args.vararg:
        params.add(fn.args.vararg.arg)
    if fn.args.kwarg:
        params.add(fn.args.kwarg.arg)
    names = set()
    banned = set()

    def walk(n, top=True):
        for c in ast.iter_child_nodes(n):
            if isinstance(c, (ast.FunctionDef, ast.AsyncFunctionDef, ast.ClassDef, ast.Lambda)):
                if isinstance(c, (ast.FunctionDef, ast.AsyncFunctionDef)):
                    banned.add(c.name)
                continue
            if isinstance(c, (ast.Global, ast.Nonlocal)):
                banned.update(c.names)
            if isinstance(c, ast.Name) and isinstance(c.ctx, ast.Store):
                names.add(c.id)
            if isinstance(c, ast.ExceptHandler) and c.name:
                names.add(c.name)
            if isinstance(c, (ast.Import, ast.ImportFrom)):
                for a in c.names:
                    banned.add((a.asname or a.name).split(".")[0])
            walk(c, False)

    walk(fn)
    return sorted(n for n in names - params - banned if not n.startswith("__"))


def rename(src_lines, fn, old, new):
    """Rename Name nodes ``old`` inside ``fn`` (including nested scopes that do not rebind it as a parameter)."""
    edits = []

    def visit(n, shadow):
        for c in ast.iter_child_nodes(n):
            if isinstance(c, (ast.FunctionDef, ast.AsyncFunctionDef, ast.Lambda)):
                ps = {a.arg for a in c.args.posonlyargs + c.args.args + c.args.kwonlyargs}
                if c.args.vararg:
                    ps.add(c.args.vararg.arg)
                if c.args.kwarg:
                    ps.add(c.args.kwarg.arg)
                # nested function assigning the same name has its own local: skip entirely
                own = any(isinstance(x, ast.Name) and x.id == old and isinstance(x.ctx, ast.Store) for x in ast.walk(c)) and not any(isinstance(x, ast.Nonlocal) and old in x.names for x in ast.walk(c))
                if old in ps or own:
                    # still visit decorators / defaults
                    continue
                visit(c, shadow)
                continue
            if isinstance(c, ast.Name) and c.id == old:
                edits.append((c.lineno, c.col_offset, c.end_col_offset))
            if isinstance(c, ast.ExceptHandler) and c.name == old:
                # "except X as old:" — locate the name textually on the header line
                line = src_lines[c.lineno - 1]
                idx = line.rfind(" as " + old)
                if idx >= 0:
                    edits.append((c.lineno, idx + 4, idx + 4 + len(old)))
            if isinstance(c, ast.keyword) and False:
                pass
            visit(c, shadow)

    visit(fn, set())
    lines = list(src_lines)
    for ln, a, b in sorted(set(edits), reverse=True):
        s = lines[ln - 1]
        # col offsets are in utf-8 bytes
        bs = s.encode("utf-8")
        if bs[a:b].decode("utf-8") != old:
            return None
        lines[ln - 1] = (bs[:a] + new.encode() + bs[b:]).decode("utf-8")
    return lines




def rename_twins(repo: str, rel: str) -> list[tuple[str, dict[str, str]]]:
    """(description, overlay) for every local variable of every function of ``rel``,
    renamed consistently (including uses in nested closures and comprehensions)."""
    path = os.path.join(repo, rel)
    if not os.path.exists(path):
        return []
    with open(path, encoding="utf-8") as fh:
        text = fh.read()
    tree = ast.parse(text)
    lines = text.split("\n")
    out = []
    for fn in [n for n in ast.walk(tree) if isinstance(n, (ast.FunctionDef, ast.AsyncFunctionDef))]:
        for loc in locals_of(fn):
            new = loc + "_rn"
            if any(isinstance(x, ast.Name) and x.id == new for x in ast.walk(fn)):
                continue
            nl = rename(lines, fn, loc, new)
            if nl is None:
                continue
            newsrc = "\n".join(nl)
            if newsrc == text:
                continue
            try:
                ast.parse(newsrc)
            except SyntaxError:
                continue
            out.append((f"{rel}:{fn.name}@{fn.lineno}:{loc}", {rel: newsrc}))
    return out


# ---------------------------------------------------------------------------
# more behaviour-preserving twin families (AST transforms, re-emitted with ast.unparse)
# ---------------------------------------------------------------------------


def _invert(test: ast.AST) -> ast.AST:
    if isinstance(test, ast.UnaryOp) and isinstance(test.op, ast.Not):
        return test.operand
    return ast.UnaryOp(op=ast.Not(), operand=test)


def structural_twins(repo: str, rel: str, families: tuple[str, ...] = ("invert-if", "temp-return", "split-and", "flip-compare", "early-continue", "comp-to-loop", "swap-independent", "inline-temp", "temp-test")) -> list[tuple[str, dict[str, str]]]:
    """(description, overlay): one twin per site.

    swap-independent  ``a = e1; b = e2`` -> ``b = e2; a = e1``  (adjacent, effect-free, mutually independent)
    inline-temp  ``t = e; STMT(t)`` -> ``STMT(e)``  (t bound once, read once in the next statement, e effect-free)
    temp-test    ``if c: ...`` -> ``_tst_tw = c; if _tst_tw: ...``  (c effect-free, not a bare name, not an elif)

    invert-if    ``if c: A else: B``  ->  ``if not c: B else: A``
    temp-return  ``return <expr>``    ->  ``_ret_tw = <expr>; return _ret_tw``
    split-and    ``if a and b: X``    ->  ``if a:`` / ``if b: X``            (no else)
    flip-compare ``a == b`` / ``a != b`` -> ``b == a`` / ``b != a``         (call-free operands)
    early-continue  ``for ..: if c: BODY`` <-> ``for ..: if not c: continue; BODY``  (both directions)
    comp-to-loop ``x = [e for v in it if c]`` -> ``x = []; for v in it: if c: x.append(e)``  (list/set/dict)
    """
    import copy as _copy

    path = os.path.join(repo, rel)
    if not os.path.exists(path):
        return []
    with open(path, encoding="utf-8") as fh:
        text = fh.read()
    base = ast.parse(text)
    out: list[tuple[str, dict[str, str]]] = []

    def emit(desc: str, tree: ast.AST) -> None:
        ast.fix_missing_locations(tree)
        try:
            new = ast.unparse(tree) + "\n"
            ast.parse(new)
        except Exception:
            return
        out.append((f"{rel}:{desc}", {rel: new}))

    if "invert-if" in families:
        sites = [n for n in ast.walk(base) if isinstance(n, ast.If) and n.orelse]
        for i, site in enumerate(sites):
            tree = _copy.deepcopy(base)
            tgt = [n for n in ast.walk(tree) if isinstance(n, ast.If) and n.orelse][i]
            tgt.test, tgt.body, tgt.orelse = _invert(tgt.test), tgt.orelse, tgt.body
            emit(f"invert-if@{site.lineno}", tree)
    if "temp-return" in families:
        def ret_sites(t):
            return [n for n in ast.walk(t) if isinstance(n, ast.Return) and n.value is not None and not isinstance(n.value, (ast.Name, ast.Constant))]
        for i, site in enumerate(ret_sites(base)):
            tree = _copy.deepcopy(base)
            tgt = ret_sites(tree)[i]
            # find the statement list that holds the return
            for holder in ast.walk(tree):
                for fld in ("body", "orelse", "finalbody"):
                    lst = getattr(holder, fld, None)
                    if isinstance(lst, list) and tgt in lst:
                        k = lst.index(tgt)
                        lst[k : k + 1] = [ast.Assign(targets=[ast.Name(id="_ret_tw", ctx=ast.Store())], value=tgt.value), ast.Return(value=ast.Name(id="_ret_tw", ctx=ast.Load()))]
                        break
                else:
                    continue
                break
            emit(f"temp-return@{site.lineno}", tree)
    def per_site(pred, rewrite, tag):
        sites = [n for n in ast.walk(base) if pred(n)]
        for i, site in enumerate(sites):
            tree = _copy.deepcopy(base)
            tgt = [n for n in ast.walk(tree) if pred(n)][i]
            if rewrite(tree, tgt) is False:
                continue
            emit(f"{tag}@{site.lineno}", tree)

    def holder_of(tree, stmt):
        for holder in ast.walk(tree):
            for fld in ("body", "orelse", "finalbody"):
                lst = getattr(holder, fld, None)
                if isinstance(lst, list) and any(x is stmt for x in lst):
                    return lst
        return None

    if "split-and" in families:
        # if a and b: X   (no else)   ->   if a:\n    if b: X
        def pred(n):
            return isinstance(n, ast.If) and not n.orelse and isinstance(n.test, ast.BoolOp) and isinstance(n.test.op, ast.And) and len(n.test.values) >= 2

        def rw(tree, t):
            first, rest = t.test.values[0], t.test.values[1:]
            inner = ast.If(test=rest[0] if len(rest) == 1 else ast.BoolOp(op=ast.And(), values=rest), body=t.body, orelse=[])
            t.test, t.body = first, [inner]

        per_site(pred, rw, "split-and")
    if "flip-compare" in families:
        # a == b -> b == a ; a != b -> b != a   (operands without calls)
        def simple(e):
            return not any(isinstance(x, (ast.Call, ast.Await, ast.NamedExpr)) for x in ast.walk(e))

        def pred2(n):
            return isinstance(n, ast.Compare) and len(n.ops) == 1 and isinstance(n.ops[0], (ast.Eq, ast.NotEq)) and simple(n.left) and simple(n.comparators[0])

        def rw2(tree, t):
            t.left, t.comparators = t.comparators[0], [t.left]

        per_site(pred2, rw2, "flip-compare")
    if "early-continue" in families:
        # for x in xs: if c: BODY   (the if is the whole loop body, no else)  ->  if not c: continue; BODY
        def pred3(n):
            return isinstance(n, (ast.For, ast.AsyncFor)) and len(n.body) == 1 and isinstance(n.body[0], ast.If) and not n.body[0].orelse and not n.orelse

        def rw3(tree, t):
            i = t.body[0]
            t.body = [ast.If(test=_invert(i.test), body=[ast.Continue()], orelse=[])] + i.body

        per_site(pred3, rw3, "early-continue")
        # if c: continue; REST  (first statement of a loop body)  ->  if not c: REST
        def pred4(n):
            return isinstance(n, (ast.For, ast.AsyncFor)) and len(n.body) >= 2 and isinstance(n.body[0], ast.If) and not n.body[0].orelse and len(n.body[0].body) == 1 and isinstance(n.body[0].body[0], ast.Continue)

        def rw4(tree, t):
            i = t.body[0]
            t.body = [ast.If(test=_invert(i.test), body=t.body[1:], orelse=[])]

        per_site(pred4, rw4, "guard-to-nest")
    if "comp-to-loop" in families:
        # x = [e for v in it if c]  ->  x = []; for v in it: if c: x.append(e)     (also dict/set; single generator)
        def pred5(n):
            if not (isinstance(n, ast.Assign) and len(n.targets) == 1 and isinstance(n.targets[0], ast.Name) and isinstance(n.value, (ast.ListComp, ast.SetComp, ast.DictComp))):
                return False
            g = n.value.generators
            return len(g) == 1 and not g[0].is_async and not any(isinstance(x, (ast.Await, ast.Yield, ast.NamedExpr, ast.Lambda, ast.ListComp, ast.SetComp, ast.DictComp, ast.GeneratorExp)) for x in ast.walk(n.value) if x is not n.value)

        def rw5(tree, t):
            lst = holder_of(tree, t)
            if lst is None:
                return False
            # the enclosing function must not use the loop variable names elsewhere
            fn = None
            for f_ in ast.walk(tree):
                if isinstance(f_, (ast.FunctionDef, ast.AsyncFunctionDef)) and any(x is t for x in ast.walk(f_)):
                    fn = f_  # innermost wins (walk is outer-first)
            if fn is None:
                return False
            g = t.value.generators[0]
            tnames = {x.id for x in ast.walk(g.target) if isinstance(x, ast.Name)}
            outside = [x for x in ast.walk(fn) if isinstance(x, ast.Name) and x.id in tnames and not any(x is y for y in ast.walk(t))]
            if outside or t.targets[0].id in {x.id for x in ast.walk(t.value) if isinstance(x, ast.Name)}:
                return False
            acc = t.targets[0].id
            if isinstance(t.value, ast.ListComp):
                init: ast.expr = ast.List(elts=[], ctx=ast.Load())
                add: ast.stmt = ast.Expr(ast.Call(func=ast.Attribute(value=ast.Name(id=acc, ctx=ast.Load()), attr="append", ctx=ast.Load()), args=[t.value.elt], keywords=[]))
            elif isinstance(t.value, ast.SetComp):
                init = ast.Call(func=ast.Name(id="set", ctx=ast.Load()), args=[], keywords=[])
                add = ast.Expr(ast.Call(func=ast.Attribute(value=ast.Name(id=acc, ctx=ast.Load()), attr="add", ctx=ast.Load()), args=[t.value.elt], keywords=[]))
            else:
                init = ast.Dict(keys=[], values=[])
                add = ast.Assign(targets=[ast.Subscript(value=ast.Name(id=acc, ctx=ast.Load()), slice=t.value.key, ctx=ast.Store())], value=t.value.value)
            body: list[ast.stmt] = [add]
            for c in reversed(g.ifs):
                body = [ast.If(test=c, body=body, orelse=[])]
            loop = ast.For(target=g.target, iter=g.iter, body=body, orelse=[])
            k = [i for i, x in enumerate(lst) if x is t][0]
            lst[k : k + 1] = [ast.Assign(targets=[ast.Name(id=acc, ctx=ast.Store())], value=init), loop]

        per_site(pred5, rw5, "comp-to-loop")
    if "swap-independent" in families:
        # S1; S2  ->  S2; S1   for two adjacent plain assignments to different local names that do not read each
        # other's target and whose right-hand sides are effect-free (no call, await, yield, walrus): statement order
        # between independent definitions is not behaviour
        PURE_FUNCS = {"len", "set", "list", "dict", "tuple", "frozenset", "sorted", "isinstance", "getattr", "str", "repr", "bool", "int", "min", "max", "any", "all", "sum", "enumerate", "zip", "reversed", "type", "id"}
        PURE_METHODS = {"get", "keys", "values", "items", "copy", "union", "intersection", "difference", "issubset", "issuperset", "startswith", "endswith", "split", "join", "strip", "lower", "upper", "index", "count", "format"}

        def pure(e):
            for x in ast.walk(e):
                if isinstance(x, (ast.Await, ast.Yield, ast.YieldFrom, ast.NamedExpr, ast.Lambda)):
                    return False
                if isinstance(x, ast.Call):
                    if isinstance(x.func, ast.Name) and x.func.id in PURE_FUNCS:
                        continue
                    if isinstance(x.func, ast.Attribute) and x.func.attr in PURE_METHODS:
                        continue
                    return False
            return True

        def names(e):
            return {x.id for x in ast.walk(e) if isinstance(x, ast.Name)}

        def simple_assign(n):
            return isinstance(n, ast.Assign) and len(n.targets) == 1 and isinstance(n.targets[0], ast.Name) and pure(n.value)

        pairs = []
        for holder in ast.walk(base):
            if not isinstance(holder, (ast.FunctionDef, ast.AsyncFunctionDef, ast.If, ast.For, ast.AsyncFor, ast.While, ast.With, ast.AsyncWith, ast.Try)):
                continue
            for fld in ("body", "orelse", "finalbody"):
                lst = getattr(holder, fld, None)
                if not isinstance(lst, list):
                    continue
                for k in range(len(lst) - 1):
                    a, b = lst[k], lst[k + 1]
                    if simple_assign(a) and simple_assign(b) and a.targets[0].id != b.targets[0].id and a.targets[0].id not in names(b.value) and b.targets[0].id not in names(a.value):
                        pairs.append((a.lineno, b.lineno))
        for la, lb in pairs:
            tree = _copy.deepcopy(base)
            done = False
            for holder in ast.walk(tree):
                for fld in ("body", "orelse", "finalbody"):
                    lst = getattr(holder, fld, None)
                    if isinstance(lst, list):
                        for k in range(len(lst) - 1):
                            if getattr(lst[k], "lineno", None) == la and getattr(lst[k + 1], "lineno", None) == lb and simple_assign(lst[k]) and simple_assign(lst[k + 1]):
                                lst[k], lst[k + 1] = lst[k + 1], lst[k]
                                done = True
                                break
                    if done:
                        break
                if done:
                    break
            if done:
                emit(f"swap-independent@{la}", tree)
    if "inline-temp" in families:
        # t = e; STMT(t)  ->  STMT(e)   when t is bound once in its function, read exactly once — in the statement that
        # follows — and e is effect-free (same purity notion as swap-independent)
        PF = {"len", "set", "list", "dict", "tuple", "frozenset", "sorted", "isinstance", "getattr", "str", "repr", "bool", "int", "min", "max", "any", "all", "sum", "enumerate", "zip", "reversed", "type", "id"}
        PM = {"get", "keys", "values", "items", "copy", "union", "intersection", "difference", "issubset", "issuperset", "startswith", "endswith", "split", "join", "strip", "lower", "upper", "index", "count", "format"}

        def pure2(e):
            for x in ast.walk(e):
                if isinstance(x, (ast.Await, ast.Yield, ast.YieldFrom, ast.NamedExpr, ast.Lambda)):
                    return False
                if isinstance(x, ast.Call) and not (isinstance(x.func, ast.Name) and x.func.id in PF or isinstance(x.func, ast.Attribute) and x.func.attr in PM):
                    return False
            return True

        sites6 = []
        for fn in [n for n in ast.walk(base) if isinstance(n, (ast.FunctionDef, ast.AsyncFunctionDef))]:
            stores: dict[str, int] = {}
            loads: dict[str, int] = {}
            for x in ast.walk(fn):
                if isinstance(x, ast.Name):
                    if isinstance(x.ctx, ast.Store):
                        stores[x.id] = stores.get(x.id, 0) + 1
                    elif isinstance(x.ctx, ast.Load):
                        loads[x.id] = loads.get(x.id, 0) + 1
                elif isinstance(x, ast.arg):
                    stores[x.arg] = stores.get(x.arg, 0) + 1
            for holder in ast.walk(fn):
                for fld in ("body", "orelse", "finalbody"):
                    lst = getattr(holder, fld, None)
                    if not isinstance(lst, list):
                        continue
                    for k in range(len(lst) - 1):
                        a = lst[k]
                        if not (isinstance(a, ast.Assign) and len(a.targets) == 1 and isinstance(a.targets[0], ast.Name) and pure2(a.value)):
                            continue
                        t_ = a.targets[0].id
                        nxt = lst[k + 1]
                        if isinstance(nxt, (ast.For, ast.AsyncFor, ast.While, ast.FunctionDef, ast.AsyncFunctionDef, ast.ClassDef, ast.Try, ast.With, ast.AsyncWith)):
                            continue  # the use could be evaluated repeatedly / later
                        head = nxt.test if isinstance(nxt, ast.If) else nxt
                        uses = [x for x in ast.walk(head) if isinstance(x, ast.Name) and x.id == t_ and isinstance(x.ctx, ast.Load)]
                        if stores.get(t_, 0) == 1 and loads.get(t_, 0) == 1 and len(uses) == 1 and not any(isinstance(x, (ast.ListComp, ast.SetComp, ast.DictComp, ast.GeneratorExp, ast.Lambda)) and any(y is uses[0] for y in ast.walk(x)) for x in ast.walk(head)):
                            sites6.append((a.lineno, t_))
        for la, t_ in sites6:
            tree = _copy.deepcopy(base)
            done = False
            for holder in ast.walk(tree):
                for fld in ("body", "orelse", "finalbody"):
                    lst = getattr(holder, fld, None)
                    if isinstance(lst, list):
                        for k in range(len(lst) - 1):
                            a = lst[k]
                            if isinstance(a, ast.Assign) and getattr(a, "lineno", None) == la and isinstance(a.targets[0], ast.Name) and a.targets[0].id == t_:
                                nxt = lst[k + 1]

                                class _Sub(ast.NodeTransformer):
                                    def visit_Name(self, n):
                                        if n.id == t_ and isinstance(n.ctx, ast.Load):
                                            return _copy.deepcopy(a.value)
                                        return n

                                if isinstance(nxt, ast.If):
                                    nxt.test = _Sub().visit(nxt.test)
                                else:
                                    lst[k + 1] = _Sub().visit(nxt)
                                del lst[k]
                                done = True
                                break
                    if done:
                        break
                if done:
                    break
            if done:
                emit(f"inline-temp@{la}:{t_}", tree)
    if "temp-test" in families:
        # if c: ...  ->  _tst_tw = c; if _tst_tw: ...   (c effect-free, not already a bare name; plain if statements
        # that are not part of an elif chain)
        PF3 = {"len", "set", "list", "dict", "tuple", "frozenset", "sorted", "isinstance", "getattr", "str", "repr", "bool", "int", "min", "max", "any", "all", "sum", "type", "id", "hasattr", "callable"}
        PM3 = {"get", "keys", "values", "items", "startswith", "endswith", "issubset", "issuperset", "isidentifier", "count", "index"}

        def pure3(e):
            for x in ast.walk(e):
                if isinstance(x, (ast.Await, ast.Yield, ast.YieldFrom, ast.NamedExpr, ast.Lambda)):
                    return False
                if isinstance(x, ast.Call) and not (isinstance(x.func, ast.Name) and x.func.id in PF3 or isinstance(x.func, ast.Attribute) and x.func.attr in PM3):
                    return False
            return True

        sites7 = []
        for holder in ast.walk(base):
            for fld in ("body", "orelse", "finalbody"):
                lst = getattr(holder, fld, None)
                if not isinstance(lst, list):
                    continue
                if fld == "orelse" and isinstance(holder, ast.If) and len(lst) == 1 and isinstance(lst[0], ast.If):
                    continue  # elif
                for st in lst:
                    if isinstance(st, ast.If) and not isinstance(st.test, ast.Name) and pure3(st.test):
                        sites7.append(st.lineno)
        for la in sites7:
            tree = _copy.deepcopy(base)
            done = False
            for holder in ast.walk(tree):
                for fld in ("body", "orelse", "finalbody"):
                    lst = getattr(holder, fld, None)
                    if isinstance(lst, list) and not (fld == "orelse" and isinstance(holder, ast.If) and len(lst) == 1 and isinstance(lst[0], ast.If)):
                        for k, st in enumerate(lst):
                            if isinstance(st, ast.If) and getattr(st, "lineno", None) == la and not isinstance(st.test, ast.Name):
                                tmp = ast.Assign(targets=[ast.Name(id="_tst_tw", ctx=ast.Store())], value=st.test)
                                st.test = ast.Name(id="_tst_tw", ctx=ast.Load())
                                lst.insert(k, tmp)
                                done = True
                                break
                    if done:
                        break
                if done:
                    break
            if done:
                emit(f"temp-test@{la}", tree)
    return out


def param_twins(repo: str, rel: str) -> list[tuple[str, dict[str, str]]]:
    """(description, overlay): every parameter of every *private* function / method / closure of ``rel``
    (leading underscore, not a dunder; or nested in another function) renamed consistently, including
    keyword arguments at its call sites.  Parameter names of private helpers are not API.
    A parameter is skipped when a call site outside ``rel`` passes it by keyword."""
    import copy as _copy
    import glob as _glob

    path = os.path.join(repo, rel)
    if not os.path.exists(path):
        return []
    with open(path, encoding="utf-8") as fh:
        text = fh.read()
    base = ast.parse(text)
    # keyword uses in other files
    other_kw: set[tuple[str, str]] = set()
    defined_elsewhere: set[str] = set()  # same-named functions in other files: override families (template method / implementation)
    for fp in _glob.glob(os.path.join(repo, "src", "hypergraph", "**", "*.py"), recursive=True):
        if os.path.abspath(fp) == os.path.abspath(path):
            continue
        try:
            t = ast.parse(open(fp, encoding="utf-8").read())
        except SyntaxError:
            continue
        for c in ast.walk(t):
            if isinstance(c, ast.Call):
                nm = c.func.id if isinstance(c.func, ast.Name) else c.func.attr if isinstance(c.func, ast.Attribute) else None
                for k in c.keywords:
                    if nm and k.arg:
                        other_kw.add((nm, k.arg))
            elif isinstance(c, (ast.FunctionDef, ast.AsyncFunctionDef)):
                defined_elsewhere.add(c.name)

    def funcs(t):
        out = []

        def rec(n, nested):
            for c in ast.iter_child_nodes(n):
                if isinstance(c, (ast.FunctionDef, ast.AsyncFunctionDef)):
                    private = (c.name.startswith("_") and not (c.name.startswith("__") and c.name.endswith("__"))) or nested
                    if private:
                        out.append(c)
                    rec(c, True)
                else:
                    rec(c, nested)

        rec(t, False)
        return out

    out: list[tuple[str, dict[str, str]]] = []
    sites = [(i, a.arg) for i, f in enumerate(funcs(base)) for a in f.args.posonlyargs + f.args.args + f.args.kwonlyargs if a.arg not in ("self", "cls")]
    for fi, pname in sites:
        fb = funcs(base)[fi]
        if (fb.name, pname) in other_kw:
            continue
        if fb.name in defined_elsewhere and any(isinstance(c, ast.Call) and (c.func.attr if isinstance(c.func, ast.Attribute) else getattr(c.func, "id", None)) == fb.name and any(k.arg == pname for k in c.keywords) for c in ast.walk(base)):
            continue  # passed by keyword to a method that another file overrides / implements: the keyword is shared API
        new = pname + "_rn"
        if any(isinstance(x, ast.Name) and x.id == new for x in ast.walk(fb)):
            continue
        tree = _copy.deepcopy(base)
        f = funcs(tree)[fi]
        for a in f.args.posonlyargs + f.args.args + f.args.kwonlyargs:
            if a.arg == pname:
                a.arg = new

        def visit(n):
            for c in ast.iter_child_nodes(n):
                if isinstance(c, (ast.FunctionDef, ast.AsyncFunctionDef, ast.Lambda)):
                    ps = {a.arg for a in c.args.posonlyargs + c.args.args + c.args.kwonlyargs}
                    own = any(isinstance(x, ast.Name) and x.id == pname and isinstance(x.ctx, ast.Store) for x in ast.walk(c))
                    if pname in ps or own:
                        continue
                if isinstance(c, ast.Name) and c.id == pname:
                    c.id = new
                visit(c)

        visit(f)
        # keyword arguments at call sites in this file
        for c in ast.walk(tree):
            if isinstance(c, ast.Call):
                nm = c.func.id if isinstance(c.func, ast.Name) else c.func.attr if isinstance(c.func, ast.Attribute) else None
                if nm == f.name:
                    for k in c.keywords:
                        if k.arg == pname:
                            k.arg = new
        ast.fix_missing_locations(tree)
        try:
            src_new = ast.unparse(tree) + "\n"
            ast.parse(src_new)
        except Exception:
            continue
        out.append((f"{rel}:{f.name}@{fb.lineno}:param:{pname}", {rel: src_new}))
    return out

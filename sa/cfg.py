"""E3: per-function control-flow graphs with exception edges.

Nodes are statement-level.  Exceptional control flow is modelled with abstract
exception *atoms*:

* ``"Exception"``       – some (unknown) subclass of ``Exception``
* ``"PauseExecution"``  – the framework's pause signal (a ``BaseException``)
* ``"BaseOther"``       – any other non-``Exception`` ``BaseException``
                          (``KeyboardInterrupt``, ``CancelledError`` …)
* ``"cls:<name>"``      – an exception of exactly that class (explicit ``raise X(...)``)

``finally`` bodies and ``with`` exits are duplicated per continuation kind.
"""

from __future__ import annotations

import ast
from dataclasses import dataclass, field
from typing import Any, Callable, Iterable, Iterator

from .db import BUILTIN_EXC_PARENT, ClassInfo, FuncInfo, ProgramDB, builtin_exc_is_subclass, dotted, walk_local

G_EXC = "Exception"
G_PAUSE = "PauseExecution"
G_BASE = "BaseOther"
ALL_GROUPS = frozenset({G_EXC, G_PAUSE, G_BASE})

# Calls that are assumed not to raise (printed in the evidence as an assumption).
NO_RAISE_BUILTINS = {
    "isinstance",
    "issubclass",
    "hasattr",
    "len",
    "dict",
    "list",
    "set",
    "tuple",
    "frozenset",
    "id",
    "type",
    "bool",
    "callable",
    "repr",
    "time.time",
    "time.perf_counter",
    "time.monotonic",
    "object",
    "enumerate",
    "zip",
    "range",
    "sorted",
    "min",
    "max",
}


class N:
    __slots__ = ("id", "kind", "ast", "succ", "pred", "caught", "note", "handler_names")

    def __init__(self, id: int, kind: str, node: ast.AST | None = None, note: str = ""):
        self.id = id
        self.kind = kind  # entry | exit_return | exit_raise | stmt | test | for | with_enter | with_exit | handler | reraise | join
        self.ast = node
        self.succ: list[tuple[N, str, Any]] = []
        self.pred: list[tuple[N, str, Any]] = []
        self.caught: set[str] = set()
        self.note = note
        self.handler_names: list[str] = []

    @property
    def lineno(self) -> int:
        return getattr(self.ast, "lineno", 0) if self.ast is not None else 0

    def __repr__(self) -> str:
        what = ""
        if self.ast is not None:
            try:
                what = ast.unparse(self.ast).split("\n")[0][:60]
            except Exception:
                what = type(self.ast).__name__
        return f"<{self.id}:{self.kind}@{self.lineno} {what}>"

    def __hash__(self) -> int:
        return self.id

    def __eq__(self, other: object) -> bool:
        return self is other

    def __lt__(self, other: "N") -> bool:
        return self.id < other.id


@dataclass
class _Frame:
    kind: str  # 'handlers' | 'finally'
    outer: "_Frame | None"
    handlers: list[tuple[list[str], N]] = field(default_factory=list)
    make_copy: Callable[[N], N] | None = None
    memo: dict[Any, N] = field(default_factory=dict)


@dataclass
class _Ctx:
    ret: Callable[[], N]
    brk: Callable[[], N] | None
    cont: Callable[[], N] | None
    exc: _Frame | None
    handler: N | None = None  # innermost enclosing handler node (for bare raise)
    handler_name: str | None = None


class CFG:
    def __init__(self, db: ProgramDB, func: FuncInfo, no_raise: Callable[[ast.Call, FuncInfo], bool] | None = None):
        self.db = db
        self.func = func
        self.nodes: list[N] = []
        self._no_raise = no_raise
        self.entry = self._new("entry")
        self.exit_return = self._new("exit_return")
        self.exit_raise = self._new("exit_raise")
        self.assumed_no_raise: set[str] = set()
        ctx = _Ctx(ret=lambda: self.exit_return, brk=None, cont=None, exc=None)
        first = self._seq(func.body, self.exit_return, ctx)
        self._edge(self.entry, first, "n")
        self._by_ast: dict[int, list[N]] | None = None

    # -- construction ---------------------------------------------------------

    def _new(self, kind: str, node: ast.AST | None = None, note: str = "") -> N:
        n = N(len(self.nodes), kind, node, note)
        self.nodes.append(n)
        return n

    def _edge(self, a: N, b: N, label: str, info: Any = None) -> None:
        for (t, l, i) in a.succ:
            if t is b and l == label and i == info:
                return
        a.succ.append((b, label, info))
        b.pred.append((a, label, info))

    def _seq(self, stmts: list[ast.stmt], k: N, ctx: _Ctx) -> N:
        for s in reversed(stmts):
            k = self._stmt(s, k, ctx)
        return k

    # exception class helpers
    def _exc_name(self, expr: ast.AST | None) -> str | None:
        """Resolve an exception class expression to a canonical name."""
        if expr is None:
            return "BaseException"
        sym = self.db.resolve_expr_symbol(expr, self.func.module, self.func)
        if sym and sym[0] == "class":
            return sym[1].qname
        if sym and sym[0] == "ext":
            return sym[1]
        return dotted(expr)

    def _handler_names(self, h: ast.ExceptHandler) -> list[str]:
        if h.type is None:
            return ["BaseException"]
        elts = h.type.elts if isinstance(h.type, ast.Tuple) else [h.type]
        return [self._exc_name(e) or "?" for e in elts]

    def class_group(self, name: str) -> str:
        ci = self.db.classes.get(name)
        if ci is not None:
            if ci.name == "PauseExecution" or any(c.name == "PauseExecution" for c in ci.mro()):
                return G_PAUSE
            if any(builtin_exc_is_subclass(b.split(".")[-1] if b not in BUILTIN_EXC_PARENT else b, "Exception") for b in ci.all_ext_bases()):
                return G_EXC
            return G_BASE
        short = name if name in BUILTIN_EXC_PARENT else name.split(".")[-1]
        if short in BUILTIN_EXC_PARENT:
            return G_EXC if builtin_exc_is_subclass(short, "Exception") else G_BASE
        return G_EXC

    def _is_sub(self, c: str, h: str) -> bool:
        if c == h:
            return True
        ci = self.db.classes.get(c)
        if ci is not None:
            if any(k.qname == h for k in ci.mro()):
                return True
            for b in ci.all_ext_bases():
                bb = b if b in BUILTIN_EXC_PARENT else b.split(".")[-1]
                if builtin_exc_is_subclass(bb, h if h in BUILTIN_EXC_PARENT else h.split(".")[-1]):
                    return True
            return False
        cc = c if c in BUILTIN_EXC_PARENT else c.split(".")[-1]
        hh = h if h in BUILTIN_EXC_PARENT else h.split(".")[-1]
        return builtin_exc_is_subclass(cc, hh)

    def definitely_caught(self, atom: str, names: list[str]) -> bool:
        for h in names:
            hs = h.split(".")[-1]
            if atom.startswith("cls:"):
                if self._is_sub(atom[4:], h):
                    return True
            elif atom == G_EXC and hs in ("Exception", "BaseException"):
                return True
            elif atom == G_PAUSE and (hs == "BaseException" or hs == "PauseExecution"):
                return True
            elif atom == G_BASE and hs == "BaseException":
                return True
        return False

    def maybe_caught(self, atom: str, names: list[str]) -> bool:
        if self.definitely_caught(atom, names):
            return True
        if atom.startswith("cls:"):
            return False
        for h in names:
            g = self.class_group(h)
            hs = h.split(".")[-1]
            if atom == G_EXC and g == G_EXC and hs != "Exception":
                return True
            if atom == G_BASE and g == G_BASE and hs not in ("BaseException",):
                return True
        return False

    def _route_exc(self, src: N, atoms: Iterable[str], frame: _Frame | None) -> None:
        rest = set(atoms)
        while frame is not None and rest:
            if frame.kind == "handlers":
                for names, hnode in frame.handlers:
                    maybe = {a for a in rest if self.maybe_caught(a, names)}
                    if maybe:
                        self._edge(src, hnode, "exc", frozenset(maybe))
                        hnode.caught |= maybe
                    rest -= {a for a in rest if self.definitely_caught(a, names)}
                frame = frame.outer
            else:
                key = ("exc", frozenset(rest))
                if key not in frame.memo:
                    rr = self._new("reraise", None, "propagate after finally")
                    self._route_exc(rr, rest, frame.outer)
                    assert frame.make_copy is not None
                    frame.memo[key] = frame.make_copy(rr)
                self._edge(src, frame.memo[key], "exc", frozenset(rest))
                return
        if rest:
            self._edge(src, self.exit_raise, "exc", frozenset(rest))

    def call_no_raise(self, call: ast.Call) -> bool:
        d = dotted(call.func)
        callees = self.db.resolve_call(call, self.func)
        for c in callees:
            if c.kind == "ext" and c.ext in NO_RAISE_BUILTINS:
                self.assumed_no_raise.add(c.ext)
                return True
        if d in NO_RAISE_BUILTINS:
            self.assumed_no_raise.add(d)
            return True
        if self._no_raise is not None and self._no_raise(call, self.func):
            self.assumed_no_raise.add(d or "?")
            return True
        return False

    def _raise_atoms(self, st: ast.Raise, ctx: _Ctx) -> set[str]:
        if st.exc is None:
            return set(ctx.handler.caught) if ctx.handler is not None else set(ALL_GROUPS)
        e = st.exc
        if isinstance(e, ast.Name) and ctx.handler is not None and ctx.handler_name == e.id:
            return set(ctx.handler.caught) or set(ALL_GROUPS)
        target = e.func if isinstance(e, ast.Call) else e
        sym = self.db.resolve_expr_symbol(target, self.func.module, self.func)
        if sym and sym[0] == "class":
            return {f"cls:{sym[1].qname}"}
        if sym and sym[0] == "ext" and (sym[1] in BUILTIN_EXC_PARENT or sym[1].split(".")[-1] in BUILTIN_EXC_PARENT):
            return {f"cls:{sym[1]}"}
        # a typed local / attribute
        t = self.db.type_of(e, self.func)
        if t is not None and t.classes():
            return {f"cls:{c.qname}" for c in t.classes()} if isinstance(e, ast.Call) else {self.class_group(c.qname) for c in t.classes()}
        return set(ALL_GROUPS)

    def expr_atoms(self, exprs: Iterable[ast.AST]) -> set[str]:
        atoms: set[str] = set()
        for e in exprs:
            if e is None:
                continue
            awaited_ok: set[int] = set()
            for n in _walk_expr(e):
                if isinstance(n, ast.Await):
                    # awaiting a call that cannot raise can still be cancelled (CancelledError)
                    if isinstance(n.value, ast.Call) and self.call_no_raise(n.value):
                        atoms.add(G_BASE)
                        awaited_ok.add(id(n.value))
                        continue
                    return set(ALL_GROUPS)
                if isinstance(n, ast.Call) and id(n) not in awaited_ok and not self.call_no_raise(n):
                    return set(ALL_GROUPS)
        return atoms

    def _stmt_exprs(self, st: ast.stmt) -> list[ast.AST]:
        if isinstance(st, (ast.FunctionDef, ast.AsyncFunctionDef, ast.ClassDef)):
            return list(st.decorator_list)
        if isinstance(st, (ast.Import, ast.ImportFrom, ast.Pass, ast.Break, ast.Continue, ast.Global, ast.Nonlocal)):
            return []
        return [st]

    def _stmt(self, st: ast.stmt, k: N, ctx: _Ctx) -> N:
        if isinstance(st, ast.If):
            t = self._new("test", st.test)
            self._edge(t, self._seq(st.body, k, ctx), "T")
            self._edge(t, self._seq(st.orelse, k, ctx), "F")
            self._route_exc(t, self.expr_atoms([st.test]), ctx.exc)
            return t
        if isinstance(st, ast.While):
            t = self._new("test", st.test)
            inner = _Ctx(ctx.ret, lambda: k, lambda: t, ctx.exc, ctx.handler, ctx.handler_name)
            body = self._seq(st.body, t, inner)
            self._edge(t, body, "T")
            const_true = isinstance(st.test, ast.Constant) and bool(st.test.value)
            if not const_true:
                self._edge(t, self._seq(st.orelse, k, ctx), "F")
            self._route_exc(t, self.expr_atoms([st.test]), ctx.exc)
            return t
        if isinstance(st, (ast.For, ast.AsyncFor)):
            h = self._new("for", st)
            inner = _Ctx(ctx.ret, lambda: k, lambda: h, ctx.exc, ctx.handler, ctx.handler_name)
            body = self._seq(st.body, h, inner)
            self._edge(h, body, "T")
            self._edge(h, self._seq(st.orelse, k, ctx), "F")
            atoms = self.expr_atoms([st.iter])
            if isinstance(st, ast.AsyncFor):
                atoms = set(ALL_GROUPS)
            self._route_exc(h, atoms, ctx.exc)
            return h
        if isinstance(st, (ast.With, ast.AsyncWith)):
            enter = self._new("with_enter", st)

            def make_copy(cont: N, st: ast.stmt = st) -> N:
                x = self._new("with_exit", st)
                self._edge(x, cont, "n")
                return x

            frame = _Frame("finally", ctx.exc, make_copy=make_copy)
            inner = self._finally_ctx(ctx, frame)
            body = self._seq(st.body, make_copy(k), inner)
            self._edge(enter, body, "n")
            atoms = self.expr_atoms([it.context_expr for it in st.items])
            if isinstance(st, ast.AsyncWith):
                atoms = set(ALL_GROUPS)
            self._route_exc(enter, atoms, ctx.exc)
            return enter
        if isinstance(st, ast.Try) or (hasattr(ast, "TryStar") and isinstance(st, getattr(ast, "TryStar"))):
            return self._try(st, k, ctx)
        if isinstance(st, ast.Match):
            t = self._new("test", st.subject)
            for case in st.cases:
                self._edge(t, self._seq(case.body, k, ctx), "T")
            self._edge(t, k, "F")
            self._route_exc(t, self.expr_atoms([st.subject]), ctx.exc)
            return t
        # simple statements
        n = self._new("stmt", st)
        if isinstance(st, ast.Return):
            self._route_exc(n, self.expr_atoms([st.value] if st.value is not None else []), ctx.exc)
            self._edge(n, ctx.ret(), "n")
            return n
        if isinstance(st, ast.Raise):
            atoms = self._raise_atoms(st, ctx)
            inner_atoms = set()
            if st.exc is not None and isinstance(st.exc, ast.Call):
                inner_atoms = self.expr_atoms(list(st.exc.args) + [kw.value for kw in st.exc.keywords])
            self._route_exc(n, atoms | inner_atoms, ctx.exc)
            return n
        if isinstance(st, ast.Break):
            assert ctx.brk is not None
            self._edge(n, ctx.brk(), "n")
            return n
        if isinstance(st, ast.Continue):
            assert ctx.cont is not None
            self._edge(n, ctx.cont(), "n")
            return n
        if isinstance(st, ast.Assert):
            self._route_exc(n, {"cls:AssertionError"} | self.expr_atoms([st.test]), ctx.exc)
            self._edge(n, k, "n")
            return n
        self._route_exc(n, self.expr_atoms(self._stmt_exprs(st)), ctx.exc)
        self._edge(n, k, "n")
        return n

    def _finally_ctx(self, ctx: _Ctx, frame: _Frame) -> _Ctx:
        def through(kind: str, getter: Callable[[], N] | None) -> Callable[[], N] | None:
            if getter is None:
                return None

            def get() -> N:
                target = getter()
                key = (kind, target.id)
                if key not in frame.memo:
                    assert frame.make_copy is not None
                    frame.memo[key] = frame.make_copy(target)
                return frame.memo[key]

            return get

        return _Ctx(through("ret", ctx.ret), through("brk", ctx.brk), through("cont", ctx.cont), frame, ctx.handler, ctx.handler_name)  # type: ignore[arg-type]

    def _try(self, st: ast.Try, k: N, ctx: _Ctx) -> N:
        outer_ctx = ctx
        fin_frame: _Frame | None = None
        after = k
        if st.finalbody:

            def make_copy(cont: N, st: ast.Try = st, ctx: _Ctx = ctx) -> N:
                return self._seq(st.finalbody, cont, ctx)

            fin_frame = _Frame("finally", ctx.exc, make_copy=make_copy)
            outer_ctx = self._finally_ctx(ctx, fin_frame)
            after = make_copy(k)
        # handler entries first
        hframe = _Frame("handlers", outer_ctx.exc)
        hnodes: list[N] = []
        for h in st.handlers:
            hn = self._new("handler", h)
            hn.handler_names = self._handler_names(h)
            hframe.handlers.append((hn.handler_names, hn))
            hnodes.append(hn)
        body_ctx = _Ctx(outer_ctx.ret, outer_ctx.brk, outer_ctx.cont, hframe if st.handlers else outer_ctx.exc, ctx.handler, ctx.handler_name)
        else_entry = self._seq(st.orelse, after, outer_ctx)
        body_entry = self._seq(st.body, else_entry, body_ctx)
        for h, hn in zip(st.handlers, hnodes):
            hctx = _Ctx(outer_ctx.ret, outer_ctx.brk, outer_ctx.cont, outer_ctx.exc, hn, h.name)
            self._edge(hn, self._seq(h.body, after, hctx), "n")
        return body_entry

    # -- queries ----------------------------------------------------------------

    def nodes_for(self, a: ast.AST) -> list[N]:
        if self._by_ast is None:
            self._by_ast = {}
            for n in self.nodes:
                if n.ast is not None:
                    self._by_ast.setdefault(id(n.ast), []).append(n)
        return self._by_ast.get(id(a), [])

    def node_containing(self, expr: ast.AST) -> list[N]:
        """CFG nodes whose statement/test contains ``expr``."""
        from .db import parent

        cur: ast.AST | None = expr
        while cur is not None:
            ns = [n for n in self.nodes_for(cur) if n.kind != "with_exit"]
            if ns:
                # a For/With statement node only covers its header expressions
                return ns
            cur = parent(cur)
        return []

    def header_exprs(self, n: N) -> list[ast.AST]:
        """The expressions evaluated *at* this node (not the nested blocks)."""
        a = n.ast
        if a is None:
            return []
        if n.kind == "test":
            return [a]
        if n.kind == "for":
            return [a.iter, a.target]  # type: ignore[attr-defined]
        if n.kind == "with_enter":
            out: list[ast.AST] = []
            for it in a.items:  # type: ignore[attr-defined]
                out.append(it.context_expr)
                if it.optional_vars is not None:
                    out.append(it.optional_vars)
            return out
        if n.kind in ("with_exit", "handler", "reraise"):
            return []
        if isinstance(a, (ast.FunctionDef, ast.AsyncFunctionDef, ast.ClassDef)):
            return list(a.decorator_list)
        return [a]

    def calls_at(self, n: N) -> list[ast.Call]:
        out: list[ast.Call] = []
        for e in self.header_exprs(n):
            out += [x for x in _walk_expr(e) if isinstance(x, ast.Call)]
        return out

    def real_nodes(self) -> list[N]:
        reach = reachable(self.entry)
        return [n for n in self.nodes if n in reach]

    def dump(self) -> str:
        lines = []
        for n in self.nodes:
            lines.append(f"{n!r}")
            for t, l, i in n.succ:
                lines.append(f"    -{l}{'' if i is None else sorted(i)}-> {t.id}")
        return "\n".join(lines)


def _walk_expr(e: ast.AST) -> Iterator[ast.AST]:
    """Walk an expression/statement without entering nested defs / lambdas."""
    yield e
    if isinstance(e, (ast.FunctionDef, ast.AsyncFunctionDef, ast.ClassDef, ast.Lambda)):
        return
    yield from walk_local(e)


# ---------------------------------------------------------------------------
# Graph algorithms
# ---------------------------------------------------------------------------

EdgeFilter = Callable[[N, N, str, Any], bool]


def succs(n: N, ef: EdgeFilter | None = None) -> list[N]:
    if ef is None:
        return [t for t, _, _ in n.succ]
    return [t for t, l, i in n.succ if ef(n, t, l, i)]


def preds(n: N, ef: EdgeFilter | None = None) -> list[N]:
    if ef is None:
        return [t for t, _, _ in n.pred]
    return [t for t, l, i in n.pred if ef(t, n, l, i)]


def reachable(start: N | Iterable[N], ef: EdgeFilter | None = None, avoid: Iterable[N] = ()) -> set[N]:
    av = set(avoid)
    todo = [start] if isinstance(start, N) else list(start)
    seen: set[N] = set()
    while todo:
        n = todo.pop()
        if n in seen or n in av:
            continue
        seen.add(n)
        todo.extend(succs(n, ef))
    return seen


def reaches(a: N, b: N, ef: EdgeFilter | None = None, avoid: Iterable[N] = ()) -> bool:
    """Is there a path a -> ... -> b (length >= 0) avoiding ``avoid`` (a itself may be in avoid)?"""
    av = set(avoid)
    todo = [a]
    seen: set[N] = set()
    while todo:
        n = todo.pop()
        if n is b:
            return True
        if n in seen:
            continue
        seen.add(n)
        for s in succs(n, ef):
            if s is b:
                return True
            if s not in av:
                todo.append(s)
    return False


def dominators(entry: N, ef: EdgeFilter | None = None) -> dict[N, set[N]]:
    nodes = sorted(reachable(entry, ef))
    allset = set(nodes)
    dom: dict[N, set[N]] = {n: set(allset) for n in nodes}
    dom[entry] = {entry}
    changed = True
    while changed:
        changed = False
        for n in nodes:
            if n is entry:
                continue
            ps = [p for p in preds(n, ef) if p in allset]
            new = set(allset)
            for p in ps:
                new &= dom[p]
            new.add(n)
            if new != dom[n]:
                dom[n] = new
                changed = True
    return dom


def all_paths_pass(entry: N, target: N, through: Iterable[N], ef: EdgeFilter | None = None) -> bool:
    """Every path entry -> target passes a node of ``through``."""
    thr = set(through)
    if target in thr or entry in thr:
        return True
    return not reaches(entry, target, ef, avoid=thr)


def find_path(a: N, b: N, ef: EdgeFilter | None = None, avoid: Iterable[N] = ()) -> list[N] | None:
    av = set(avoid)
    prev: dict[N, N | None] = {a: None}
    todo = [a]
    while todo:
        n = todo.pop(0)
        if n is b and n is not a:
            break
        for s in succs(n, ef):
            if s in prev or s in av:
                continue
            prev[s] = n
            todo.append(s)
            if s is b:
                todo = []
                break
    if b not in prev:
        return None
    path = []
    cur: N | None = b
    while cur is not None:
        path.append(cur)
        cur = prev[cur]
    return list(reversed(path))


def fmt_path(path: list[N] | None) -> str:
    if not path:
        return ""
    return " -> ".join(f"L{n.lineno}:{n.kind}" for n in path if n.kind not in ("join",))


# ---------------------------------------------------------------------------
# Correlated branches
# ---------------------------------------------------------------------------


def eval_test(e: ast.AST, val: dict[str, bool], defs: dict[str, ast.AST] | None = None, _depth: int = 0) -> bool | None:
    """Three-valued evaluation of a test under a valuation of atomic tests.
    ``defs`` maps single-assignment locals to their defining expression (looked through)."""
    if isinstance(e, ast.UnaryOp) and isinstance(e.op, ast.Not):
        r = eval_test(e.operand, val, defs, _depth)
        return None if r is None else (not r)
    if isinstance(e, ast.BoolOp):
        rs = [eval_test(v, val, defs, _depth) for v in e.values]
        if isinstance(e.op, ast.And):
            if any(r is False for r in rs):
                return False
            return True if all(r is True for r in rs) else None
        if any(r is True for r in rs):
            return True
        return False if all(r is False for r in rs) else None
    if isinstance(e, ast.Compare) and len(e.ops) == 1 and isinstance(e.ops[0], ast.IsNot):
        k = ast.unparse(ast.Compare(e.left, [ast.Is()], e.comparators))
        return None if k not in val else (not val[k])
    if isinstance(e, ast.Constant):
        return bool(e.value)
    k = ast.unparse(e)
    if k in val:
        return val[k]
    if defs and isinstance(e, ast.Name) and e.id in defs and _depth < 4:
        return eval_test(defs[e.id], val, defs, _depth + 1)
    return None


def test_atoms(e: ast.AST) -> list[ast.AST]:
    if isinstance(e, ast.UnaryOp) and isinstance(e.op, ast.Not):
        return test_atoms(e.operand)
    if isinstance(e, ast.BoolOp):
        out: list[ast.AST] = []
        for v in e.values:
            out += test_atoms(v)
        return out
    if isinstance(e, ast.Compare) and len(e.ops) == 1 and isinstance(e.ops[0], ast.IsNot):
        return [ast.Compare(e.left, [ast.Is()], e.comparators)]
    return [e]


def stable_atoms(cfg: CFG, extra_ok: Callable[[ast.AST], bool] | None = None) -> list[str]:
    """Atomic tests that are path invariants of the function: built only from
    locals/parameters that are bound at most once (and constants / ``is None``)."""
    f = cfg.func
    defs = cfg.db.local_defs(f)
    out: list[str] = []
    for n in cfg.nodes:
        if n.kind != "test" or n.ast is None:
            continue
        for a in test_atoms(n.ast):
            ok = True
            for x in ast.walk(a):
                if isinstance(x, ast.Name):
                    nd = len(defs.get(x.id, []))
                    is_param = x.id in f.param_names or (f.parent is not None and _is_outer_stable(cfg.db, f, x.id))
                    if not ((nd == 1 and not is_param) or (nd == 0 and is_param) or x.id in ("None", "True", "False")):
                        ok = False
                elif isinstance(x, (ast.Call, ast.Await, ast.Subscript)):
                    ok = False
                elif isinstance(x, ast.Attribute):
                    ok = False
            if extra_ok is not None and not ok and extra_ok(a):
                ok = True
            if ok:
                s = ast.unparse(a)
                if s not in out:
                    out.append(s)
    return out


def _is_outer_stable(db: ProgramDB, f: FuncInfo, name: str) -> bool:
    g = f.parent
    while g is not None:
        if name in g.param_names:
            return len(db.local_defs(g).get(name, [])) == 0
        d = db.local_defs(g).get(name)
        if d:
            return len(d) == 1
        g = g.parent
    return False


def valuations(atoms: list[str], cap: int = 6) -> list[dict[str, bool]]:
    atoms = atoms[:cap]
    out: list[dict[str, bool]] = [{}]
    for a in atoms:
        out = [dict(v, **{a: b}) for v in out for b in (True, False)]
    return out


def single_defs(cfg: "CFG") -> dict[str, ast.AST]:
    """Locals of the function that are bound exactly once by a plain assignment."""
    out: dict[str, ast.AST] = {}
    for name, ds in cfg.db.local_defs(cfg.func).items():
        if len(ds) == 1 and isinstance(ds[0], (ast.Assign, ast.AnnAssign)) and ds[0].value is not None and name not in cfg.func.param_names:
            d = ds[0]
            tg = d.targets[0] if isinstance(d, ast.Assign) else d.target
            if isinstance(tg, ast.Name):
                out[name] = d.value
    return out


def specialize(val: dict[str, bool], cfg: "CFG | None" = None) -> EdgeFilter:
    defs = single_defs(cfg) if cfg is not None else None

    def ef(a: N, b: N, label: str, info: Any) -> bool:
        if a.kind == "test" and label in ("T", "F") and a.ast is not None:
            r = eval_test(a.ast, val, defs)
            if r is True and label == "F":
                return False
            if r is False and label == "T":
                return False
        return True

    return ef


def exc_filter(allowed: Callable[[frozenset], bool]) -> EdgeFilter:
    def ef(a: N, b: N, label: str, info: Any) -> bool:
        if label == "exc":
            return allowed(info)
        return True

    return ef


def both(*fs: EdgeFilter | None) -> EdgeFilter:
    fl = [f for f in fs if f is not None]

    def ef(a: N, b: N, label: str, info: Any) -> bool:
        return all(f(a, b, label, info) for f in fl)

    return ef

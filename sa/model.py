"""Role finders for the hypergraph code base.

Anchors are located by role first (what a function does), by name second, so a
rename does not break a check but a disappearance does (-> AnalysisError).
"""

from __future__ import annotations

import ast
from typing import Iterable

from .db import AnalysisError, Callee, ClassInfo, FuncInfo, ProgramDB, dotted, walk_local

PROC_METHODS = {"on_event", "on_event_async", "shutdown", "shutdown_async"}


def processor_classes(db: ProgramDB) -> list[ClassInfo]:
    base = db.cls("events.processor.EventProcessor")
    return [base] + base.all_subclasses()


def is_processor_call(db: ProgramDB, call: ast.Call, f: FuncInfo) -> bool:
    procs = set(processor_classes(db))
    for c in db.resolve_call(call, f):
        if c.func is not None and c.func.cls in procs and c.func.name in PROC_METHODS:
            return True
    return False


def logging_no_raise(call: ast.Call, f: FuncInfo) -> bool:
    d = dotted(call.func) or ""
    return d.startswith("logger.") or d.startswith("logging.") or d in ("warnings.warn", "sys.exc_info")


def node_classes(db: ProgramDB) -> list[ClassInfo]:
    base = db.cls("nodes.base.HyperNode")
    return [base] + base.all_subclasses()


def is_user_func_call(db: ProgramDB, call: ast.Call, f: FuncInfo) -> bool:
    """``<node>.func(...)``: invocation of a user-supplied callable."""
    fe = call.func
    if not (isinstance(fe, ast.Attribute) and fe.attr == "func"):
        return False
    t = db.type_of(fe.value, f)
    ncs = set(node_classes(db))
    if t is not None and any(c in ncs for c in t.classes()):
        return True
    if isinstance(fe.value, ast.Name) and fe.value.id in ("node", "self"):
        if fe.value.id == "self":
            return f.cls is not None and f.cls in ncs
        return True
    return False


def calls_to(db: ProgramDB, f: FuncInfo, target: FuncInfo | str, include_nested: bool = False) -> list[ast.Call]:
    out = []
    for call, cal in db.callees(f, include_nested=include_nested):
        if isinstance(target, FuncInfo):
            if cal.func == target and cal.kind == "func":
                out.append(call)
        elif cal.name == target or cal.name.endswith("." + target):
            out.append(call)
    return out


def funcs_calling(db: ProgramDB, target: FuncInfo, within: str = "") -> list[FuncInfo]:
    out = []
    for f in db.funcs_in(within) if within else db.all_funcs():
        if calls_to(db, f, target):
            out.append(f)
    return out


def superstep_funcs(db: ProgramDB) -> list[FuncInfo]:
    """Superstep functions = top-level functions of runners/ that (directly or in a
    nested closure) call collect_inputs_for_node and construct NodeExecution."""
    collect = db.func("runners._shared.helpers.collect_inputs_for_node")
    ne = db.cls("runners._shared.types.NodeExecution")
    out = []
    for f in db.funcs_in("runners"):
        if f.parent is not None or f.cls is not None:
            continue
        if f == collect or f.module.name.endswith("helpers"):
            continue
        calls = db.callees(f, include_nested=True)
        if any(c.func == collect for _, c in calls) and any(c.cls == ne for _, c in calls):
            out.append(f)
    if len(out) < 2:
        raise AnalysisError(f"expected a sync and an async superstep function, found {[f.qname for f in out]}")
    return out


def template_classes(db: ProgramDB) -> list[ClassInfo]:
    base = db.cls("runners.base.BaseRunner")
    out = [c for c in base.all_subclasses() if "run" in c.methods and "map" in c.methods]
    if len(out) < 2:
        raise AnalysisError("runner templates (classes defining run and map) not found")
    return out


def execute_impl_funcs(db: ProgramDB) -> list[FuncInfo]:
    """Runner methods that drive the superstep loop."""
    ss = superstep_funcs(db)
    out = []
    for f in db.funcs_in("runners"):
        if f.cls is None:
            continue
        if any(cal.func in ss for _, cal in db.callees(f)):
            out.append(f)
    if len(out) < 2:
        raise AnalysisError("execute-graph implementations not found")
    return out


def contains(outer: ast.AST, inner: ast.AST) -> bool:
    from .db import ancestors

    return inner is outer or any(a is outer for a in ancestors(inner))


def enclosing(node: ast.AST, types: tuple) -> ast.AST | None:
    from .db import ancestors

    for a in ancestors(node):
        if isinstance(a, types):
            return a
        if isinstance(a, (ast.FunctionDef, ast.AsyncFunctionDef, ast.Lambda)):
            return None
    return None


def in_block(stmt_list: list[ast.stmt], node: ast.AST) -> bool:
    return any(contains(s, node) for s in stmt_list)

"""Rule context and checker self-test driver."""

from __future__ import annotations

import ast
import glob
import json
import os
from concurrent.futures import ProcessPoolExecutor
from typing import Any, Callable

from .cfg import CFG
from .db import AnalysisError, FuncInfo, ProgramDB
from .report import VERIF, Report
from .variants import Variant, VariantNotApplicable, apply_patch_in_memory, apply_variant, param_twins, rename_twins, structural_twins


class Ctx:
    def __init__(self, db: ProgramDB, rep: Report, tier: str):
        self.db = db
        self.rep = rep
        self.tier = tier
        self._cfgs: dict[tuple[str, int], CFG] = {}

    def cfg(self, f: FuncInfo, no_raise: Callable[[ast.Call, FuncInfo], bool] | None = None) -> CFG:
        key = (f.qname, id(no_raise))
        if key not in self._cfgs:
            self._cfgs[key] = CFG(self.db, f, no_raise)
        return self._cfgs[key]

    @property
    def thorough(self) -> bool:
        return self.tier == "thorough"


def run_rules(mod: Any, ctx: Ctx) -> None:
    mod.run(ctx)


def _eval_overlay(args: tuple[str, str, dict[str, str], str]) -> tuple[list[str], str | None]:
    """Run the rules of one property on an overlay; returns (violated rule ids incl. known, error)."""
    import importlib

    modname, repo, overlay, tier = args
    try:
        mod = importlib.import_module(modname)
        db = ProgramDB(repo, overlay)
        rep = Report(mod.ID, "quick", repo)
        ctx = Ctx(db, rep, "quick")
        mod.run(ctx)
        try:
            rep.check_floors()
        except AnalysisError as e:
            return sorted({o.rule for o in rep.obligations if not o.ok} | {"ANALYSIS-ERROR"}), str(e)
        rep.apply_known()
        return sorted({o.rule for o in rep.violations()}), None
    except AnalysisError as e:
        return ["ANALYSIS-ERROR"], str(e)


def selftest(mod: Any, repo: str, seed: int) -> dict:
    variants: list[Variant] = list(getattr(mod, "VARIANTS", []) or [])
    if callable(getattr(mod, "variants", None)):
        variants = list(mod.variants())
    jobs: list[tuple[str, Any, tuple]] = []
    not_applicable: list[dict] = []
    for v in variants:
        try:
            ov = apply_variant(repo, v)
        except (VariantNotApplicable, FileNotFoundError) as e:
            not_applicable.append({"variant": v.name, "reason": str(e)})
            continue
        jobs.append(("variant", v, (mod.__name__, repo, ov, "quick")))
    seeded_dirs = sorted(glob.glob(os.path.join(VERIF, "seeded", "*", "meta.json")))
    for mpath in seeded_dirs:
        try:
            with open(mpath, encoding="utf-8") as fh:
                meta = json.load(fh)
        except (OSError, ValueError):
            continue
        props = meta.get("detected_by_property") or [meta.get("property")]
        if mod.ID not in props:
            continue
        ppath = os.path.join(os.path.dirname(mpath), "patch.diff")
        try:
            with open(ppath, encoding="utf-8") as fh:
                ov = apply_patch_in_memory(repo, fh.read())
        except (VariantNotApplicable, FileNotFoundError) as e:
            not_applicable.append({"seeded": os.path.basename(os.path.dirname(mpath)), "reason": str(e)})
            continue
        jobs.append(("seeded", os.path.basename(os.path.dirname(mpath)), (mod.__name__, repo, ov, "quick")))

    # behaviour-preserving rename twins over the files the property is anchored in
    twin_files: list[str] = []
    try:
        with open(os.path.join(VERIF, "properties.jsonl"), encoding="utf-8") as fh:
            for line in fh:
                p = json.loads(line)
                if p.get("id") == mod.ID:
                    twin_files = list(p.get("anchors", {}).get("files", []))
    except OSError:
        pass
    twin_files += [f for f in getattr(mod, "TWIN_FILES", []) if f not in twin_files]
    n_twins = 0
    for rel in twin_files:
        for desc, ov in rename_twins(repo, rel):
            n_twins += 1
            jobs.append(("twin", desc, (mod.__name__, repo, ov, "quick")))

    n_struct = 0
    for rel in twin_files:
        for desc, ov in structural_twins(repo, rel):
            n_struct += 1
            jobs.append(("stwin", desc, (mod.__name__, repo, ov, "quick")))
        # seventh family: every parameter of every private function / method / closure renamed (with the keyword
        # arguments at its call sites) — parameter names of private helpers are not API
        for desc, ov in param_twins(repo, rel):
            n_struct += 1
            jobs.append(("stwin", desc, (mod.__name__, repo, ov, "quick")))

    results: list[tuple[list[str], str | None]] = []
    if jobs:
        workers = min(16, len(jobs))
        if workers > 1:
            with ProcessPoolExecutor(max_workers=workers) as ex:
                results = list(ex.map(_eval_overlay, [j[2] for j in jobs], chunksize=4))
        else:
            results = [_eval_overlay(j[2]) for j in jobs]

    applied = fired_ok = silent_ok = 0
    unexpected: list[dict] = []
    details: list[dict] = []
    seeded_total = seeded_detected = 0
    seeded_details: list[dict] = []
    twin_alarms: list[dict] = []
    struct_alarms: list[dict] = []
    for (kind, obj, _), (fired, err) in zip(jobs, results):
        if kind == "variant":
            v: Variant = obj
            applied += 1
            fired_set = set(fired)
            if v.expect:
                good = bool(v.expect & fired_set)
                fired_ok += 1 if good else 0
            else:
                good = not fired_set
                silent_ok += 1 if good else 0
            details.append({"variant": v.name, "file": v.rel, "expected": sorted(v.expect) or "silent", "fired": fired, "as_expected": good})
            if not good:
                unexpected.append({"variant": v.name, "expected": sorted(v.expect) or "silent", "fired": fired, "error": err})
        elif kind == "twin":
            if fired:
                twin_alarms.append({"twin": obj, "fired": fired, "error": err})
        elif kind == "stwin":
            if fired:
                struct_alarms.append({"twin": obj, "fired": fired, "error": err})
        else:
            seeded_total += 1
            det = any(r != "ANALYSIS-ERROR" for r in fired)  # an analysis error is not a detection
            seeded_detected += 1 if det else 0
            seeded_details.append({"seeded": obj, "fired": fired, "detected": det})
    return {
        "catalogue": len(variants),
        "applied": applied,
        "fired_as_expected": fired_ok,
        "silent_as_expected": silent_ok,
        "unexpected": unexpected,
        "not_applicable": not_applicable,
        "details": details,
        "seeded_total": seeded_total,
        "seeded_detected": seeded_detected,
        "seeded": seeded_details,
        "rename_twins": {"files": twin_files, "generated": n_twins, "silent": n_twins - len(twin_alarms), "false_alarms": twin_alarms},
        "structural_twins": {"families": ["invert-if", "temp-return", "split-and", "flip-compare", "early-continue/guard-to-nest", "comp-to-loop", "swap-independent", "inline-temp", "temp-test", "private-param-rename"], "generated": n_struct, "silent": n_struct - len(struct_alarms), "false_alarms": struct_alarms},
        "note": "self-test outcomes never change the exit code of the property check",
    }

"""Name-space qualifier inference around a nested-graph wrapper (C06.R6 / C05.R1).

Every name handled near a ``GraphNode`` lives in one of two spaces:

* OUTER – the wrapper's current names (its ``inputs``/``outputs``/``_map_over``/``_clone``,
  names passed to its public methods, keys of the ``inputs`` dict an executor receives);
* INNER – names of the wrapped graph (anything read through ``._graph``/``.graph``/
  ``.nested_graph``, the inputs/outputs of inner nodes, keys of a nested run's values).

Translators change the space.  A membership test, subscript, ``.get``, equality or a
name-taking method call that combines a name of one space with keys/objects of the
other is wrong under any rename.  Lattice: None (unknown) < OUTER/INNER < TOP; only
definite, different qualifiers are reported.
"""

from __future__ import annotations

import ast
from dataclasses import dataclass

from .db import FuncInfo, ProgramDB, dotted, src, walk_local

OUTER, INNER, TOP = "OUTER", "INNER", "TOP"
INNERNODE = "INNERNODE"  # an object: a node of the wrapped graph
REV_IN, REV_OUT, FWD_OUT = "REV_IN", "REV_OUT", "FWD_OUT"  # rename maps

OUTER_ATTRS = {"inputs", "outputs", "_map_over", "_clone", "data_outputs", "wait_for"}
GRAPH_ATTRS = {"_graph", "graph", "nested_graph"}
NAME_SEQUENCE_ATTRS = {"inputs", "outputs", "data_outputs", "wait_for", "_map_over", "_clone", "selected", "required", "optional", "all"}
INNER_NAME_ATTRS = {"inputs", "outputs", "selected", "bound", "all", "required", "optional", "entrypoints", "leaf_outputs", "data_outputs"}
NODE_NAME_METHODS = {"has_default_for", "get_default_for", "has_signature_default_for", "get_signature_default_for", "get_input_type", "get_output_type"}
TO_INNER_METHODS = {"_resolve_original_input_name", "map_inputs_to_params", "_original_map_params", "_original_clone"}
TO_OUTER_METHODS = {"map_outputs_from_original"}


def join(a, b):
    if a is None:
        return b
    if b is None:
        return a
    if a == b:
        return a
    if a in (OUTER, INNER, TOP) and b in (OUTER, INNER, TOP):
        return TOP
    return TOP


@dataclass
class Mismatch:
    lineno: int
    what: str
    detail: str


class NameSpaces:
    def __init__(self, db: ProgramDB, f: FuncInfo, wrapper: str, seeds: dict[str, str] | None = None, result_vars: set[str] | None = None):
        self.db = db
        self.f = f
        self.g = wrapper  # name of the variable denoting the GraphNode
        self.env: dict[str, str | None] = dict(seeds or {})
        self.keyq: dict[str, str | None] = {}  # mapping var -> qualifier of its keys
        self.valq: dict[str, str | None] = {}  # mapping var -> qualifier of its values (INNERNODE)
        self.result_vars = result_vars or set()
        self.mismatches: list[Mismatch] = []
        for _ in range(4):
            before = (dict(self.env), dict(self.keyq), dict(self.valq))
            self._propagate()
            if before == (self.env, self.keyq, self.valq):
                break
        self._check()

    # -- helpers --------------------------------------------------------------

    def _through_graph(self, e: ast.AST) -> bool:
        """Does the attribute chain of ``e`` pass through <wrapper>._graph / .graph / .nested_graph?"""
        cur = e
        while isinstance(cur, (ast.Attribute, ast.Call, ast.Subscript)):
            if isinstance(cur, ast.Attribute):
                if cur.attr in GRAPH_ATTRS and isinstance(cur.value, ast.Name) and cur.value.id == self.g:
                    return True
                cur = cur.value
            elif isinstance(cur, ast.Call):
                cur = cur.func
            else:
                cur = cur.value
        return False

    def _is_wrapper(self, e: ast.AST) -> bool:
        return isinstance(e, ast.Name) and e.id == self.g

    def q(self, e: ast.AST | None, scope: dict[str, str | None] | None = None):
        """Qualifier of the names denoted by ``e`` (a name, a collection of names, or the keys of a mapping)."""
        if e is None:
            return None
        env = self.env if scope is None else {**self.env, **scope}
        if isinstance(e, ast.Name):
            if e.id in self.keyq and self.keyq[e.id] is not None:
                return self.keyq[e.id]
            return env.get(e.id)
        if isinstance(e, ast.Starred):
            return self.q(e.value, scope)
        if isinstance(e, ast.Attribute):
            if self._is_wrapper(e.value) and e.attr in OUTER_ATTRS:
                return OUTER
            if self._through_graph(e) and e.attr in INNER_NAME_ATTRS:
                return INNER
            if isinstance(e.value, ast.Name) and env.get(e.value.id) == INNERNODE and e.attr in OUTER_ATTRS:
                return INNER
            if e.attr == "values" and isinstance(e.value, ast.Name) and e.value.id in self.result_vars:
                return INNER
            return None
        if isinstance(e, ast.Call):
            fn = e.func
            d = dotted(fn)
            if isinstance(fn, ast.Attribute):
                recv = fn.value
                if self._is_wrapper(recv) and fn.attr in TO_INNER_METHODS:
                    return INNER
                if self._is_wrapper(recv) and fn.attr in TO_OUTER_METHODS:
                    return OUTER
                if fn.attr == "get" and isinstance(recv, ast.Name):
                    m = env.get(recv.id)
                    if m in (REV_IN, REV_OUT):
                        return INNER
                    if m == FWD_OUT:
                        return OUTER
                    if self.valq.get(recv.id) == INNERNODE:
                        return INNERNODE
                    return None
                if fn.attr in ("keys", "items", "copy"):
                    return self.q(recv, scope)
                if fn.attr == "values":
                    if isinstance(recv, ast.Name) and self.valq.get(recv.id) == INNERNODE:
                        return INNERNODE
                    if self._through_graph(recv):
                        return INNERNODE if fn.attr == "values" and "_nodes" in src(recv) or ".nodes" in src(recv) else None
                    return None
                if fn.attr == "iter_nodes" and self._through_graph(fn):
                    return INNERNODE
            if d in ("dict", "list", "set", "tuple", "sorted", "frozenset", "reversed") and e.args:
                return self.q(e.args[0], scope)
            if d == "map_inputs_to_func_params" and len(e.args) >= 2 and self._is_wrapper(e.args[0]):
                return INNER
            if d == "collect_as_lists":
                return OUTER
            if d == "build_reverse_rename_map":
                kind = e.args[1].value if len(e.args) > 1 and isinstance(e.args[1], ast.Constant) else next((k.value.value for k in e.keywords if k.arg == "kind" and isinstance(k.value, ast.Constant)), "inputs")
                return REV_OUT if kind == "outputs" else REV_IN
            return None
        if isinstance(e, ast.Subscript) and isinstance(e.value, ast.Attribute) and e.value.attr in NAME_SEQUENCE_ATTRS:
            # an element of a sequence of names (node.inputs[0]) lives in the space of the sequence
            return self.q(e.value, scope)
        if isinstance(e, ast.IfExp):
            return join(self.q(e.body, scope), self.q(e.orelse, scope))
        if isinstance(e, ast.BoolOp):
            r = None
            for v in e.values:
                r = join(r, self.q(v, scope))
            return r
        if isinstance(e, (ast.ListComp, ast.SetComp, ast.GeneratorExp, ast.DictComp)):
            sc = dict(scope or {})
            for gen in e.generators:
                self._bind_target(gen.target, gen.iter, sc)
            if isinstance(e, ast.DictComp):
                return self.q(e.key, sc)
            return self.q(e.elt, sc)
        if isinstance(e, ast.Dict):
            r = None
            for k in e.keys:
                if k is None:
                    continue
                r = join(r, self.q(k, scope))
            for k, v in zip(e.keys, e.values):
                if k is None:
                    r = join(r, self.q(v, scope))
            return r
        if isinstance(e, (ast.List, ast.Tuple, ast.Set)):
            r = None
            for x in e.elts:
                r = join(r, self.q(x, scope))
            return r
        return None

    def _bind_target(self, tgt: ast.AST, it: ast.AST, sc: dict) -> None:
        qi = self.q(it, sc)
        if isinstance(tgt, ast.Name):
            sc[tgt.id] = qi
        elif isinstance(tgt, (ast.Tuple, ast.List)) and tgt.elts:
            # for k, v in M.items(): k is a key
            if isinstance(it, ast.Call) and isinstance(it.func, ast.Attribute) and it.func.attr == "items" and isinstance(tgt.elts[0], ast.Name):
                sc[tgt.elts[0].id] = qi if qi in (OUTER, INNER, TOP) else None
                if len(tgt.elts) > 1 and isinstance(tgt.elts[1], ast.Name) and isinstance(it.func.value, ast.Name) and self.valq.get(it.func.value.id) == INNERNODE:
                    sc[tgt.elts[1].id] = INNERNODE

    # -- propagation ---------------------------------------------------------------

    def _set(self, name: str, q) -> None:
        if q is None:
            return
        self.env[name] = join(self.env.get(name), q) if self.env.get(name) not in (None,) else q

    def _propagate(self) -> None:
        for n in walk_local(self.f.node):
            if isinstance(n, (ast.Assign, ast.AnnAssign)) and getattr(n, "value", None) is not None:
                tgts = n.targets if isinstance(n, ast.Assign) else [n.target]
                qv = self.q(n.value)
                for t in tgts:
                    if isinstance(t, ast.Name):
                        if qv in (REV_IN, REV_OUT, FWD_OUT, INNERNODE):
                            self.env[t.id] = qv
                        elif isinstance(n.value, ast.DictComp) and self._is_inversion(n.value):
                            self.env[t.id] = FWD_OUT
                        else:
                            if isinstance(n.value, (ast.Dict, ast.DictComp)) or (isinstance(n.value, ast.Call) and dotted(n.value.func) == "dict") or (isinstance(n.value, ast.Call) and isinstance(n.value.func, ast.Attribute) and (n.value.func.attr in TO_INNER_METHODS | TO_OUTER_METHODS)) or (isinstance(n.value, ast.Attribute) and n.value.attr in ("bound", "values")):
                                if qv is not None:
                                    self.keyq[t.id] = join(self.keyq.get(t.id), qv)
                            self._set(t.id, qv)
                    elif isinstance(t, ast.Subscript) and isinstance(t.value, ast.Name):
                        # M[k] = v
                        qk = self.q(t.slice)
                        if qk in (OUTER, INNER, TOP) and t.value.id not in getattr(self, "_kseeds", {}):
                            self.keyq[t.value.id] = join(self.keyq.get(t.value.id), qk) if self.keyq.get(t.value.id) else qk
                        if qv == INNERNODE or (isinstance(n.value, ast.Name) and self.env.get(n.value.id) == INNERNODE):
                            self.valq[t.value.id] = INNERNODE
            elif isinstance(n, (ast.For, ast.AsyncFor)):
                sc: dict = {}
                self._bind_target(n.target, n.iter, sc)
                for k, v in sc.items():
                    if v is not None:
                        self.env[k] = v if self.env.get(k) in (None, v) else join(self.env.get(k), v)

    def _is_inversion(self, dc: ast.DictComp) -> bool:
        g = dc.generators[0]
        if isinstance(g.iter, ast.Call) and isinstance(g.iter.func, ast.Attribute) and g.iter.func.attr == "items" and isinstance(g.iter.func.value, ast.Name) and self.env.get(g.iter.func.value.id) in (REV_IN, REV_OUT):
            if isinstance(g.target, ast.Tuple) and len(g.target.elts) == 2 and isinstance(dc.key, ast.Name) and isinstance(g.target.elts[1], ast.Name) and dc.key.id == g.target.elts[1].id:
                return True
        return False

    # -- sinks -------------------------------------------------------------------------

    def _report(self, n: ast.AST, what: str, qa, qb) -> None:
        if qa in (OUTER, INNER) and qb in (OUTER, INNER) and qa != qb:
            self.mismatches.append(Mismatch(getattr(n, "lineno", 0), what, f"{qa} name used with {qb} keys/object"))

    def _scoped(self, n: ast.AST) -> dict:
        """Comprehension / loop scopes enclosing ``n``."""
        from .db import ancestors

        sc: dict = {}
        chain = []
        for a in ancestors(n):
            if isinstance(a, (ast.ListComp, ast.SetComp, ast.GeneratorExp, ast.DictComp)):
                chain.append(a)
            if isinstance(a, (ast.FunctionDef, ast.AsyncFunctionDef)):
                break
        for a in reversed(chain):
            for gen in a.generators:
                self._bind_target(gen.target, gen.iter, sc)
        return sc

    def _check(self) -> None:
        for n in walk_local(self.f.node):
            sc = self._scoped(n)
            if isinstance(n, ast.Compare) and len(n.ops) == 1:
                op = n.ops[0]
                a, b = n.left, n.comparators[0]
                if isinstance(op, (ast.In, ast.NotIn)):
                    self._report(n, src(n), self.q(a, sc), self.q(b, sc))
                elif isinstance(op, (ast.Eq, ast.NotEq)):
                    self._report(n, src(n), self.q(a, sc), self.q(b, sc))
            elif isinstance(n, ast.Subscript) and isinstance(n.ctx, ast.Load) and not isinstance(n.slice, (ast.Slice, ast.Constant)):
                qb = self.q(n.value, sc)
                if qb in (OUTER, INNER):
                    self._report(n, src(n), self.q(n.slice, sc), qb)
            elif isinstance(n, ast.Subscript) and isinstance(n.ctx, ast.Store) and isinstance(n.value, ast.Name):
                seeded = self.keyq.get(n.value.id)
                if seeded in (OUTER, INNER):
                    self._report(n, src(n) + " = ...", self.q(n.slice, sc), seeded)
            elif isinstance(n, ast.Call) and isinstance(n.func, ast.Attribute):
                recv = n.func.value
                if n.func.attr == "get" and n.args:
                    qb = self.q(recv, sc)
                    m = self.env.get(recv.id) if isinstance(recv, ast.Name) else None
                    if m in (REV_IN, REV_OUT):
                        self._report(n, src(n), self.q(n.args[0], sc), OUTER)  # reverse maps are keyed by current names
                    elif m == FWD_OUT:
                        self._report(n, src(n), self.q(n.args[0], sc), INNER)
                    elif qb in (OUTER, INNER):
                        self._report(n, src(n), self.q(n.args[0], sc), qb)
                elif n.func.attr in NODE_NAME_METHODS and n.args:
                    if isinstance(recv, ast.Name) and ({**self.env, **sc}).get(recv.id) == INNERNODE:
                        self._report(n, src(n), self.q(n.args[0], sc), INNER)
                    elif self._is_wrapper(recv):
                        self._report(n, src(n), self.q(n.args[0], sc), OUTER)
                elif n.func.attr in TO_INNER_METHODS and n.args and self._is_wrapper(recv):
                    self._report(n, src(n), self.q(n.args[0], sc), OUTER)
                elif n.func.attr in TO_OUTER_METHODS and n.args and self._is_wrapper(recv):
                    self._report(n, src(n), self.q(n.args[0], sc), INNER)
                elif n.func.attr in ("run", "map") and len(n.args) >= 2 and self._through_graph(n.args[0]):
                    # nested run: values and map parameters must be in the inner space
                    self._report(n, f"{src(n.func)}(<graph>, {src(n.args[1])}, ...)", self.q(n.args[1], sc), INNER)
                    for kw in n.keywords:
                        if kw.arg in ("map_over", "clone"):
                            self._report(n, f"{kw.arg}={src(kw.value)}", self.q(kw.value, sc), INNER)
                elif n.func.attr == "update" and n.args and isinstance(recv, ast.Name):
                    self._report(n, src(n), self.q(n.args[0], sc), self.keyq.get(recv.id) or self.q(recv, sc))

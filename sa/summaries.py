"""Interprocedural summaries computed bottom-up over the call graph."""

from __future__ import annotations

import ast
from typing import Callable

from .cfg import NO_RAISE_BUILTINS
from .db import FuncInfo, ProgramDB, dotted, walk_local

EXT_NO_RAISE = NO_RAISE_BUILTINS | {
    "<contextvars.ContextVar>.get",
    "<contextvars.ContextVar>.set",
    "<contextvars.ContextVar>.reset",
    "getattr3",
}


class NoRaise:
    """``cannot_raise(f)``: f cannot raise an ``Exception`` — it contains no raise/assert/bare
    await and every call in it is itself no-raise (base predicate, builtin table, or a
    package callee that cannot raise).  Cancellation at an await is not an ``Exception``."""

    def __init__(self, db: ProgramDB, base: Callable[[ast.Call, FuncInfo], bool] | None = None):
        self.db = db
        self.base = base
        self.memo: dict[str, bool] = {}
        self.active: set[str] = set()

    def call_no_raise(self, call: ast.Call, f: FuncInfo) -> bool:
        if self.base is not None and self.base(call, f):
            return True
        d = dotted(call.func)
        if d == "getattr" and len(call.args) == 3:
            return True
        cals = self.db.resolve_call(call, f)
        if not cals:
            return d in EXT_NO_RAISE
        for c in cals:
            if c.kind == "ext":
                if c.ext not in EXT_NO_RAISE:
                    return False
            elif c.kind == "class":
                return False
            elif c.func is not None:
                if not self.cannot_raise(c.func):
                    return False
        return True

    def cannot_raise(self, f: FuncInfo) -> bool:
        if f.qname in self.memo:
            return self.memo[f.qname]
        if f.qname in self.active:
            return False
        self.active.add(f.qname)
        ok = True
        if f.is_abstract:
            ok = False
        for n in walk_local(f.node):
            if isinstance(n, ast.Await) and isinstance(n.value, ast.Call):
                continue  # the awaited call itself is examined below; cancellation is not an Exception
            if isinstance(n, (ast.Raise, ast.Assert, ast.Await, ast.Yield, ast.YieldFrom)):
                ok = False
                break
            if isinstance(n, ast.Call) and not self.call_no_raise(n, f):
                ok = False
                break
        self.active.discard(f.qname)
        self.memo[f.qname] = ok
        return ok

    def predicate(self) -> Callable[[ast.Call, FuncInfo], bool]:
        return self.call_no_raise

"""Static-analysis engine for the hypergraph verification checks.

Pure stdlib (ast).  Nothing in here imports, runs or symbolically executes the
analysed repository: it parses ``<repo>/src/hypergraph`` on every run and
decides rule instances over the resolved program model.
"""

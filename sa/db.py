"""E1/E2: program database, name/type/call resolution.

Everything is derived from the source text of ``<repo>/src/hypergraph`` (or an
in-memory overlay ``{relative path: source}``).  No module of the analysed
package is imported.
"""

from __future__ import annotations

import ast
import os
from dataclasses import dataclass, field
from typing import Any, Iterable, Iterator

PKG = "hypergraph"
SRC_REL = "src"


# parsed trees are reused across ProgramDB instances of one process (self-test workers analyse
# hundreds of overlays that differ in one file); all per-database state is keyed by the database
_TREE_CACHE: dict[tuple[str, int], ast.Module] = {}


class AnalysisError(Exception):
    """The analysis itself is broken (anchor vanished, parse error, floor not met)."""


def _loop_as_comprehension(a: ast.stmt, lp: ast.stmt) -> ast.stmt | None:
    if not (isinstance(a, ast.Assign) and len(a.targets) == 1 and isinstance(a.targets[0], ast.Name) and isinstance(lp, ast.For) and not lp.orelse):
        return None
    acc = a.targets[0].id
    v = a.value
    kind = None
    if isinstance(v, ast.List) and not v.elts:
        kind = "list"
    elif isinstance(v, ast.Dict) and not v.keys:
        kind = "dict"
    elif isinstance(v, ast.Call) and isinstance(v.func, ast.Name) and v.func.id == "set" and not v.args and not v.keywords:
        kind = "set"
    if kind is None:
        return None
    body = lp.body
    ifs: list[ast.expr] = []
    while len(body) == 1 and isinstance(body[0], ast.If) and not body[0].orelse:
        ifs.append(body[0].test)
        body = body[0].body
    if len(body) != 1:
        return None
    st = body[0]
    comp: ast.expr | None = None
    gen = ast.comprehension(target=lp.target, iter=lp.iter, ifs=ifs, is_async=0)
    if kind in ("list", "set") and isinstance(st, ast.Expr) and isinstance(st.value, ast.Call) and isinstance(st.value.func, ast.Attribute) and isinstance(st.value.func.value, ast.Name) and st.value.func.value.id == acc and st.value.func.attr == ("append" if kind == "list" else "add") and len(st.value.args) == 1 and not st.value.keywords:
        comp = ast.ListComp(elt=st.value.args[0], generators=[gen]) if kind == "list" else ast.SetComp(elt=st.value.args[0], generators=[gen])
    elif kind == "dict" and isinstance(st, ast.Assign) and len(st.targets) == 1 and isinstance(st.targets[0], ast.Subscript) and isinstance(st.targets[0].value, ast.Name) and st.targets[0].value.id == acc:
        comp = ast.DictComp(key=st.targets[0].slice, value=st.value, generators=[gen])
    if comp is None:
        return None
    # the accumulator must not be read by the comprehension itself; no await/yield inside
    for x in ast.walk(comp):
        if isinstance(x, ast.Name) and x.id == acc:
            return None
        if isinstance(x, (ast.Await, ast.Yield, ast.YieldFrom)):
            return None
    ast.copy_location(comp, lp)
    new = ast.Assign(targets=a.targets, value=comp)
    ast.copy_location(new, a)
    new.end_lineno, new.end_col_offset = getattr(lp, "end_lineno", None), getattr(lp, "end_col_offset", None)
    ast.fix_missing_locations(new)
    return new


def normalize_tree(tree: ast.Module) -> int:
    """Normal form the rules are written against (semantics-preserving, applied once per parse):

    ``t = <expr>; return t`` with ``t`` occurring nowhere else in the function  ->  ``return <expr>``
    ``if a:`` whose whole body is ``if b: X`` (no else on either)                ->  ``if a and b: X``
    ``<constant> == x`` / ``<constant> != x``                                    ->  ``x == <constant>`` / ``x != <constant>``
    ``x = []; for v in it: [if c:] x.append(e)`` (also set()/add, {}/x[k] = e)    ->  ``x = [e for v in it if c]``
    ``t = <expr>; if <test whose first operand is t>:`` with ``t`` nowhere else     ->  the test with ``<expr>`` for ``t``

    The expression keeps its source position, so reports still point at it.  Returns the
    number of rewrites."""
    n_rw = 0
    # ``if a:\n    if b: X`` (no else on either, nothing else in the outer body)  ->  ``if a and b: X``
    changed = True
    while changed:
        changed = False
        for n in ast.walk(tree):
            if isinstance(n, ast.If) and not n.orelse and len(n.body) == 1 and isinstance(n.body[0], ast.If) and not n.body[0].orelse:
                inner = n.body[0]
                vals = (n.test.values if isinstance(n.test, ast.BoolOp) and isinstance(n.test.op, ast.And) else [n.test]) + (inner.test.values if isinstance(inner.test, ast.BoolOp) and isinstance(inner.test.op, ast.And) else [inner.test])
                new_test = ast.BoolOp(op=ast.And(), values=list(vals))
                ast.copy_location(new_test, n.test)
                new_test.end_lineno, new_test.end_col_offset = getattr(inner.test, "end_lineno", None), getattr(inner.test, "end_col_offset", None)
                n.test, n.body = new_test, inner.body
                n_rw += 1
                changed = True
    # ``x = []; for v in it: [if c:] x.append(e)``  ->  ``x = [e for v in it if c]`` (also set()/add, {}/x[k] = e)
    for holder in list(ast.walk(tree)):
        for fld in ("body", "orelse", "finalbody"):
            lst = getattr(holder, fld, None)
            if not isinstance(lst, list):
                continue
            k = 0
            while k + 1 < len(lst):
                comp = _loop_as_comprehension(lst[k], lst[k + 1])
                if comp is not None:
                    lst[k : k + 2] = [comp]
                    n_rw += 1
                k += 1
    # ``<constant> == x`` -> ``x == <constant>`` (likewise !=)
    for n in ast.walk(tree):
        if isinstance(n, ast.Compare) and len(n.ops) == 1 and isinstance(n.ops[0], (ast.Eq, ast.NotEq)) and isinstance(n.left, ast.Constant) and not isinstance(n.comparators[0], ast.Constant):
            n.left, n.comparators = n.comparators[0], [n.left]
            n_rw += 1
    for fn in [n for n in ast.walk(tree) if isinstance(n, (ast.FunctionDef, ast.AsyncFunctionDef))]:
        counts: dict[str, int] = {}
        for x in ast.walk(fn):
            if isinstance(x, ast.Name):
                counts[x.id] = counts.get(x.id, 0) + 1
            elif isinstance(x, (ast.Global, ast.Nonlocal)):
                for nm in x.names:
                    counts[nm] = counts.get(nm, 0) + 10
        for holder in ast.walk(fn):
            for fld in ("body", "orelse", "finalbody"):
                lst = getattr(holder, fld, None)
                if not isinstance(lst, list):
                    continue
                k = 0
                while k + 1 < len(lst):
                    a, r = lst[k], lst[k + 1]
                    if (
                        isinstance(a, ast.Assign)
                        and len(a.targets) == 1
                        and isinstance(a.targets[0], ast.Name)
                        and isinstance(r, ast.Return)
                        and isinstance(r.value, ast.Name)
                        and r.value.id == a.targets[0].id
                        and counts.get(r.value.id, 0) == 2
                    ):
                        new = ast.Return(value=a.value)
                        ast.copy_location(new, a)
                        new.end_lineno, new.end_col_offset = r.end_lineno, r.end_col_offset
                        lst[k : k + 2] = [new]
                        n_rw += 1
                    elif (
                        isinstance(a, ast.Assign)
                        and len(a.targets) == 1
                        and isinstance(a.targets[0], ast.Name)
                        and isinstance(r, ast.If)
                        and counts.get(a.targets[0].id, 0) == 2
                        and _first_evaluated_name(r.test) == a.targets[0].id
                        and not any(isinstance(x, (ast.Await, ast.Yield, ast.YieldFrom, ast.NamedExpr)) for x in ast.walk(a.value))
                    ):
                        # ``t = <expr>; if <test starting with t>:`` with t occurring nowhere else  ->  the test with <expr> in
                        # place of t (t is the first thing the test evaluates, so the order of evaluation is unchanged)
                        r.test = _SubstName(a.targets[0].id, a.value).visit(r.test)
                        counts[a.targets[0].id] = 0
                        del lst[k]
                        n_rw += 1
                        continue
                    k += 1
    return n_rw


class _SubstName(ast.NodeTransformer):
    def __init__(self, name: str, value: ast.AST):
        self.name, self.value = name, value

    def visit_Name(self, n: ast.Name) -> ast.AST:  # noqa: N802
        return self.value if n.id == self.name and isinstance(n.ctx, ast.Load) else n


def _first_evaluated_name(e: ast.AST) -> str | None:
    """The bare name a test evaluates first (``t``, ``not t``, ``t and ..``, ``t is None``, ``t == x`` ...), if any."""
    while True:
        if isinstance(e, ast.Name):
            return e.id
        if isinstance(e, ast.UnaryOp) and isinstance(e.op, ast.Not):
            e = e.operand
        elif isinstance(e, ast.BoolOp):
            e = e.values[0]
        elif isinstance(e, ast.Compare):
            e = e.left
        else:
            return None


# ---------------------------------------------------------------------------
# Data model
# ---------------------------------------------------------------------------


@dataclass
class ModuleInfo:
    name: str
    rel: str  # path relative to the repository root
    source: str
    tree: ast.Module
    is_pkg: bool
    bindings: dict[str, "Binding"] = field(default_factory=dict)
    type_checking_imports: set[str] = field(default_factory=set)

    def __hash__(self) -> int:
        return hash(self.name)

    def __repr__(self) -> str:
        return f"<module {self.name}>"


@dataclass
class Binding:
    kind: str  # 'func' | 'class' | 'import' | 'assign'
    name: str
    target: str | None = None  # dotted target for imports
    node: ast.AST | None = None  # def / class / assigned value
    info: Any = None  # FuncInfo / ClassInfo


class FuncInfo:
    def __init__(self, qname: str, name: str, module: ModuleInfo, node: ast.AST, cls: "ClassInfo | None", parent: "FuncInfo | None"):
        self.qname = qname
        self.name = name
        self.module = module
        self.node = node
        self.cls = cls
        self.parent = parent
        self.is_async = isinstance(node, ast.AsyncFunctionDef)
        self.children: dict[str, FuncInfo] = {}
        self.local_imports: dict[str, str] = {}
        self.decorators: list[str] = []
        self._locals: dict[str, list[ast.AST]] | None = None

    @property
    def lineno(self) -> int:
        return getattr(self.node, "lineno", 0)

    @property
    def args(self) -> ast.arguments:
        return self.node.args  # type: ignore[attr-defined]

    @property
    def param_names(self) -> list[str]:
        a = self.args
        names = [x.arg for x in a.posonlyargs + a.args]
        if a.vararg:
            names.append(a.vararg.arg)
        names += [x.arg for x in a.kwonlyargs]
        if a.kwarg:
            names.append(a.kwarg.arg)
        return names

    @property
    def positional_params(self) -> list[str]:
        a = self.args
        return [x.arg for x in a.posonlyargs + a.args]

    def param_annotation(self, name: str) -> ast.AST | None:
        a = self.args
        for x in a.posonlyargs + a.args + a.kwonlyargs + ([a.vararg] if a.vararg else []) + ([a.kwarg] if a.kwarg else []):
            if x.arg == name:
                return x.annotation
        return None

    @property
    def is_method(self) -> bool:
        return self.cls is not None and self.parent is None

    @property
    def is_property(self) -> bool:
        return any(d in ("property", "cached_property", "functools.cached_property") for d in self.decorators)

    @property
    def is_abstract(self) -> bool:
        return any(d.endswith("abstractmethod") for d in self.decorators)

    @property
    def is_static(self) -> bool:
        return "staticmethod" in self.decorators

    @property
    def body(self) -> list[ast.stmt]:
        return self.node.body  # type: ignore[attr-defined]

    def loc(self) -> str:
        return f"{self.module.rel}:{self.lineno}"

    def __repr__(self) -> str:
        return f"<func {self.qname}>"

    def __hash__(self) -> int:
        return hash(self.qname)

    def __eq__(self, other: object) -> bool:
        return isinstance(other, FuncInfo) and other.qname == self.qname


class ClassInfo:
    def __init__(self, qname: str, name: str, module: ModuleInfo, node: ast.ClassDef):
        self.qname = qname
        self.name = name
        self.module = module
        self.node = node
        self.methods: dict[str, FuncInfo] = {}
        self.base_infos: list[ClassInfo] = []
        self.ext_bases: list[str] = []
        self.class_attrs: dict[str, ast.AST] = {}  # name -> annotation or value
        self.class_values: dict[str, ast.AST] = {}
        self._mro: list[ClassInfo] | None = None
        self.subclasses: list[ClassInfo] = []

    def mro(self) -> list["ClassInfo"]:
        if self._mro is None:
            self._mro = _c3(self)
        return self._mro

    def find_method(self, name: str) -> FuncInfo | None:
        for c in self.mro():
            if name in c.methods:
                return c.methods[name]
        return None

    def all_ext_bases(self) -> set[str]:
        out: set[str] = set()
        for c in self.mro():
            out.update(c.ext_bases)
        return out

    def is_subclass_of(self, other: "ClassInfo | str") -> bool:
        if isinstance(other, ClassInfo):
            return other in self.mro()
        if other in self.all_ext_bases():
            return True
        return any(c.qname == other or c.name == other for c in self.mro())

    def all_subclasses(self) -> list["ClassInfo"]:
        out: list[ClassInfo] = []
        seen: set[str] = set()
        todo = list(self.subclasses)
        while todo:
            c = todo.pop()
            if c.qname in seen:
                continue
            seen.add(c.qname)
            out.append(c)
            todo.extend(c.subclasses)
        return out

    def loc(self) -> str:
        return f"{self.module.rel}:{self.node.lineno}"

    def __repr__(self) -> str:
        return f"<class {self.qname}>"

    def __hash__(self) -> int:
        return hash(self.qname)

    def __eq__(self, other: object) -> bool:
        return isinstance(other, ClassInfo) and other.qname == self.qname


def _c3(cls: ClassInfo) -> list[ClassInfo]:
    def merge(seqs: list[list[ClassInfo]]) -> list[ClassInfo]:
        res: list[ClassInfo] = []
        seqs = [list(s) for s in seqs if s]
        while seqs:
            for s in seqs:
                cand = s[0]
                if not any(cand in t[1:] for t in seqs):
                    break
            else:  # inconsistent hierarchy: fall back to DFS order
                cand = seqs[0][0]
            res.append(cand)
            seqs = [[x for x in s if x != cand] for s in seqs]
            seqs = [s for s in seqs if s]
        return res

    return [cls] + merge([b.mro() for b in cls.base_infos] + [list(cls.base_infos)])


# Exception hierarchy of the builtins that matter for handler matching.
BUILTIN_EXC_PARENT = {
    "BaseException": None,
    "Exception": "BaseException",
    "KeyboardInterrupt": "BaseException",
    "SystemExit": "BaseException",
    "GeneratorExit": "BaseException",
    "asyncio.CancelledError": "BaseException",
    "CancelledError": "BaseException",
    "TypeError": "Exception",
    "ValueError": "Exception",
    "KeyError": "LookupError",
    "IndexError": "LookupError",
    "LookupError": "Exception",
    "RuntimeError": "Exception",
    "NotImplementedError": "RuntimeError",
    "RecursionError": "RuntimeError",
    "AttributeError": "Exception",
    "AssertionError": "Exception",
    "OSError": "Exception",
    "FileNotFoundError": "OSError",
    "ImportError": "Exception",
    "ModuleNotFoundError": "ImportError",
    "StopIteration": "Exception",
    "StopAsyncIteration": "Exception",
    "UnicodeDecodeError": "ValueError",
    "copy.Error": "Exception",
    "asyncio.QueueEmpty": "Exception",
    "pickle.PicklingError": "Exception",
    "pickle.UnpicklingError": "Exception",
    "EOFError": "Exception",
    "Warning": "Exception",
    "UserWarning": "Warning",
    "DeprecationWarning": "Warning",
}

BUILTIN_NAMES = set(dir(__builtins__)) if not isinstance(__builtins__, dict) else set(__builtins__)


def builtin_exc_is_subclass(name: str, ancestor: str) -> bool:
    cur: str | None = name
    while cur is not None:
        if cur == ancestor:
            return True
        cur = BUILTIN_EXC_PARENT.get(cur)
    return False


# ---------------------------------------------------------------------------
# Types (annotation driven)
# ---------------------------------------------------------------------------


@dataclass(frozen=True)
class Ty:
    kind: str  # 'cls' | 'ext' | 'dict' | 'list' | 'set' | 'tuple' | 'union' | 'none' | 'callable'
    cls: Any = None  # ClassInfo for 'cls', str for 'ext'
    args: tuple = ()

    def classes(self) -> list[ClassInfo]:
        if self.kind == "cls":
            return [self.cls]
        if self.kind == "union":
            out: list[ClassInfo] = []
            for a in self.args:
                out += a.classes()
            return out
        return []

    def elem(self) -> "Ty | None":
        if self.kind in ("list", "set", "iter") and self.args:
            return self.args[0]
        if self.kind == "tuple" and self.args:
            if len(self.args) == 2 and self.args[1] == Ty("ellipsis"):
                return self.args[0]
            return _union(list(self.args))
        if self.kind == "dict" and self.args:
            return self.args[0]
        if self.kind == "union":
            parts = [a.elem() for a in self.args]
            return _union([p for p in parts if p is not None])
        return None


def _union(parts: list[Ty]) -> Ty | None:
    flat: list[Ty] = []
    for p in parts:
        if p is None:
            continue
        if p.kind == "union":
            flat += list(p.args)
        else:
            flat.append(p)
    uniq: list[Ty] = []
    for p in flat:
        if p not in uniq:
            uniq.append(p)
    if not uniq:
        return None
    if len(uniq) == 1:
        return uniq[0]
    return Ty("union", None, tuple(uniq))


# ---------------------------------------------------------------------------
# The database
# ---------------------------------------------------------------------------


class ProgramDB:
    def __init__(self, repo: str = "/repo", overlay: dict[str, str] | None = None):
        self.repo = os.path.abspath(repo)
        self.overlay = dict(overlay or {})
        self.modules: dict[str, ModuleInfo] = {}
        self.by_rel: dict[str, ModuleInfo] = {}
        self.funcs: dict[str, FuncInfo] = {}
        self.classes: dict[str, ClassInfo] = {}
        self._node_func: dict[int, FuncInfo] = {}
        self._load()
        self._index()
        self._link_classes()
        self._call_cache: dict[int, list[Callee]] = {}
        self._type_cache: dict[tuple[int, str], Ty | None] = {}
        self._attr_type_cache: dict[tuple[str, str], Ty | None] = {}
        self._in_progress: set[Any] = set()

    # -- loading ----------------------------------------------------------

    def _load(self) -> None:
        root = os.path.join(self.repo, SRC_REL, PKG)
        if not os.path.isdir(root):
            raise AnalysisError(f"package directory not found: {root}")
        rels: list[str] = []
        for dirpath, dirnames, filenames in os.walk(root):
            dirnames[:] = sorted(d for d in dirnames if d != "__pycache__")
            for fn in sorted(filenames):
                if fn.endswith(".py"):
                    rels.append(os.path.relpath(os.path.join(dirpath, fn), self.repo))
        for rel in self.overlay:
            if rel not in rels and rel.endswith(".py"):
                rels.append(rel)
        for rel in rels:
            if rel in self.overlay:
                src = self.overlay[rel]
            else:
                with open(os.path.join(self.repo, rel), encoding="utf-8") as fh:
                    src = fh.read()
            key = (rel, hash(src))
            tree = _TREE_CACHE.get(key)
            if tree is None:
                try:
                    tree = ast.parse(src, filename=rel)
                except SyntaxError as e:
                    raise AnalysisError(f"cannot parse {rel}: {e}") from e
                normalize_tree(tree)
                if len(_TREE_CACHE) < 400:
                    _TREE_CACHE[key] = tree
            parts = rel[len(SRC_REL) + 1 : -3].split(os.sep)
            is_pkg = parts[-1] == "__init__"
            if is_pkg:
                parts = parts[:-1]
            name = ".".join(parts)
            mi = ModuleInfo(name, rel, src, tree, is_pkg)
            self.modules[name] = mi
            self.by_rel[rel] = mi

    # -- indexing ---------------------------------------------------------

    def _index(self) -> None:
        for mi in self.modules.values():
            for node in ast.walk(mi.tree):
                for child in ast.iter_child_nodes(node):
                    child._parent = node  # type: ignore[attr-defined]
            mi.tree._parent = None  # type: ignore[attr-defined]
            self._index_block(mi, mi.tree.body, None, None, mi.name, toplevel=True, type_checking=False)

    def _decorator_names(self, node: ast.AST) -> list[str]:
        out = []
        for d in getattr(node, "decorator_list", []):
            if isinstance(d, ast.Call):
                d = d.func
            out.append(dotted(d) or "?")
        return out

    def _index_block(
        self,
        mi: ModuleInfo,
        body: list[ast.stmt],
        cls: ClassInfo | None,
        func: FuncInfo | None,
        prefix: str,
        toplevel: bool,
        type_checking: bool,
    ) -> None:
        for st in body:
            if isinstance(st, (ast.FunctionDef, ast.AsyncFunctionDef)):
                qn = f"{prefix}.{st.name}"
                fi = FuncInfo(qn, st.name, mi, st, cls if func is None else (func.cls), func)
                fi.decorators = self._decorator_names(st)
                # setters/overloads: keep the first definition under the plain name
                if qn in self.funcs:
                    qn = f"{qn}#{st.lineno}"
                    fi.qname = qn
                self.funcs[qn] = fi
                if func is not None:
                    func.children.setdefault(st.name, fi)
                elif cls is not None:
                    cls.methods.setdefault(st.name, fi)
                elif toplevel:
                    mi.bindings[st.name] = Binding("func", st.name, node=st, info=fi)
                self._mark(st, fi)
                self._index_block(mi, st.body, None, fi, f"{qn}.<locals>", False, False)
            elif isinstance(st, ast.ClassDef):
                qn = f"{prefix}.{st.name}"
                ci = ClassInfo(qn, st.name, mi, st)
                self.classes[qn] = ci
                if toplevel and cls is None and func is None:
                    mi.bindings[st.name] = Binding("class", st.name, node=st, info=ci)
                for s in st.body:
                    if isinstance(s, ast.AnnAssign) and isinstance(s.target, ast.Name):
                        ci.class_attrs[s.target.id] = s.annotation
                        if s.value is not None:
                            ci.class_values[s.target.id] = s.value
                    elif isinstance(s, ast.Assign):
                        for t in s.targets:
                            if isinstance(t, ast.Name):
                                ci.class_values[t.id] = s.value
                self._index_block(mi, st.body, ci, None, qn, False, False)
            elif isinstance(st, (ast.Import, ast.ImportFrom)):
                for local, target in import_bindings(st, mi):
                    if func is not None:
                        func.local_imports[local] = target
                    elif cls is None:
                        mi.bindings[local] = Binding("import", local, target=target, node=st)
                        if type_checking:
                            mi.type_checking_imports.add(local)
            elif isinstance(st, (ast.Assign, ast.AnnAssign)) and toplevel and func is None and cls is None:
                targets = st.targets if isinstance(st, ast.Assign) else [st.target]
                for t in targets:
                    if isinstance(t, ast.Name) and st.value is not None:
                        mi.bindings[t.id] = Binding("assign", t.id, node=st.value)
            elif isinstance(st, ast.If):
                tc = type_checking or (dotted(st.test) in ("TYPE_CHECKING", "typing.TYPE_CHECKING"))
                self._index_block(mi, st.body, cls, func, prefix, toplevel, tc)
                self._index_block(mi, st.orelse, cls, func, prefix, toplevel, type_checking)
            elif isinstance(st, (ast.For, ast.AsyncFor, ast.While)):
                self._index_block(mi, st.body, cls, func, prefix, toplevel, type_checking)
                self._index_block(mi, st.orelse, cls, func, prefix, toplevel, type_checking)
            elif isinstance(st, (ast.With, ast.AsyncWith)):
                self._index_block(mi, st.body, cls, func, prefix, toplevel, type_checking)
            elif isinstance(st, ast.Try):
                self._index_block(mi, st.body, cls, func, prefix, toplevel, type_checking)
                for h in st.handlers:
                    self._index_block(mi, h.body, cls, func, prefix, toplevel, type_checking)
                self._index_block(mi, st.orelse, cls, func, prefix, toplevel, type_checking)
                self._index_block(mi, st.finalbody, cls, func, prefix, toplevel, type_checking)

    def _mark(self, fnode: ast.AST, fi: FuncInfo) -> None:
        """Record the innermost enclosing function of every node in ``fnode``."""
        stack = list(ast.iter_child_nodes(fnode))
        while stack:
            n = stack.pop()
            self._node_func[id(n)] = fi
            if isinstance(n, (ast.FunctionDef, ast.AsyncFunctionDef)):
                # nested def: its body is re-marked when it is indexed; decorators/defaults belong to fi
                continue
            stack.extend(ast.iter_child_nodes(n))

    def _link_classes(self) -> None:
        for ci in self.classes.values():
            for b in ci.node.bases:
                sym = self.resolve_expr_symbol(b, ci.module, None)
                if sym and sym[0] == "class":
                    ci.base_infos.append(sym[1])
                    sym[1].subclasses.append(ci)
                elif sym and sym[0] == "ext":
                    ci.ext_bases.append(sym[1])
                else:
                    d = dotted(b)
                    if d:
                        ci.ext_bases.append(d)

    # -- lookup helpers ---------------------------------------------------

    def module(self, name: str) -> ModuleInfo:
        if name not in self.modules:
            raise AnalysisError(f"module vanished: {name}")
        return self.modules[name]

    def func(self, qname: str) -> FuncInfo:
        if not qname.startswith(PKG + "."):
            qname = f"{PKG}.{qname}"
        if qname not in self.funcs:
            raise AnalysisError(f"anchor function vanished: {qname}")
        return self.funcs[qname]

    def maybe_func(self, qname: str) -> FuncInfo | None:
        if not qname.startswith(PKG + "."):
            qname = f"{PKG}.{qname}"
        return self.funcs.get(qname)

    def cls(self, qname: str) -> ClassInfo:
        if not qname.startswith(PKG + "."):
            qname = f"{PKG}.{qname}"
        if qname not in self.classes:
            raise AnalysisError(f"anchor class vanished: {qname}")
        return self.classes[qname]

    def maybe_cls(self, qname: str) -> ClassInfo | None:
        if not qname.startswith(PKG + "."):
            qname = f"{PKG}.{qname}"
        return self.classes.get(qname)

    def enclosing_func(self, node: ast.AST) -> FuncInfo | None:
        return self._node_func.get(id(node))

    def funcs_in(self, module_prefix: str) -> list[FuncInfo]:
        if not module_prefix.startswith(PKG):
            module_prefix = f"{PKG}.{module_prefix}" if module_prefix else PKG
        return [f for f in self.funcs.values() if f.module.name == module_prefix or f.module.name.startswith(module_prefix + ".")]

    def all_funcs(self) -> list[FuncInfo]:
        return list(self.funcs.values())

    # -- symbol resolution --------------------------------------------------

    def resolve_dotted(self, target: str, _depth: int = 0) -> tuple[str, Any] | None:
        """Resolve 'a.b.c' to ('module'|'func'|'class'|'const'|'ext', obj)."""
        if _depth > 12:
            return None
        if not (target == PKG or target.startswith(PKG + ".")):
            return ("ext", target)
        parts = target.split(".")
        # longest module prefix
        for i in range(len(parts), 0, -1):
            mname = ".".join(parts[:i])
            if mname in self.modules:
                cur: tuple[str, Any] = ("module", self.modules[mname])
                rest = parts[i:]
                for j, p in enumerate(rest):
                    nxt = self._member(cur, p, _depth)
                    if nxt is None:
                        return None
                    cur = nxt
                return cur
        return None

    def _member(self, sym: tuple[str, Any], name: str, _depth: int = 0) -> tuple[str, Any] | None:
        kind, obj = sym
        if kind == "module":
            b = obj.bindings.get(name)
            if b is None:
                sub = f"{obj.name}.{name}"
                if sub in self.modules:
                    return ("module", self.modules[sub])
                return None
            if b.kind == "func":
                return ("func", b.info)
            if b.kind == "class":
                return ("class", b.info)
            if b.kind == "import":
                return self.resolve_dotted(b.target or "", _depth + 1)
            if b.kind == "assign":
                return ("const", (obj, name, b.node))
        if kind == "class":
            m = obj.find_method(name)
            if m is not None:
                return ("func", m)
            for c in obj.mro():
                if name in c.class_values:
                    return ("const", (c.module, f"{c.name}.{name}", c.class_values[name]))
            return None
        if kind == "ext":
            return ("ext", f"{obj}.{name}")
        return None

    def resolve_name(self, name: str, module: ModuleInfo, func: FuncInfo | None) -> tuple[str, Any] | None:
        f = func
        while f is not None:
            if name in f.param_names:
                return ("param", (f, name))
            if name in f.children:
                return ("func", f.children[name])
            if name in f.local_imports:
                return self.resolve_dotted(f.local_imports[name])
            if name in self.local_defs(f):
                return ("local", (f, name))
            f = f.parent
        b = module.bindings.get(name)
        if b is not None:
            return self._member(("module", module), name)
        if name in BUILTIN_NAMES:
            return ("ext", name)
        return None

    def resolve_expr_symbol(self, expr: ast.AST, module: ModuleInfo, func: FuncInfo | None) -> tuple[str, Any] | None:
        """Resolve a Name / dotted Attribute expression to a symbol (no types)."""
        if isinstance(expr, ast.Name):
            return self.resolve_name(expr.id, module, func)
        if isinstance(expr, ast.Attribute):
            base = self.resolve_expr_symbol(expr.value, module, func)
            if base is None:
                return None
            if base[0] in ("module", "class", "ext"):
                return self._member(base, expr.attr)
            return None
        if isinstance(expr, ast.Subscript):  # Generic[T] bases etc.
            return self.resolve_expr_symbol(expr.value, module, func)
        return None

    def const_value(self, sym: tuple[str, Any] | None) -> ast.AST | None:
        if sym and sym[0] == "const":
            return sym[1][2]
        return None

    # -- locals -------------------------------------------------------------

    def local_defs(self, f: FuncInfo) -> dict[str, list[ast.AST]]:
        """name -> list of defining nodes (Assign/AnnAssign/For/With/ExceptHandler/NamedExpr...)
        inside ``f`` excluding nested functions."""
        if f._locals is not None:
            return f._locals
        out: dict[str, list[ast.AST]] = {}

        def add_target(t: ast.AST, definer: ast.AST) -> None:
            if isinstance(t, ast.Name):
                out.setdefault(t.id, []).append(definer)
            elif isinstance(t, (ast.Tuple, ast.List)):
                for e in t.elts:
                    add_target(e, definer)
            elif isinstance(t, ast.Starred):
                add_target(t.value, definer)

        for n in walk_local(f.node):
            if isinstance(n, ast.Assign):
                for t in n.targets:
                    add_target(t, n)
            elif isinstance(n, (ast.AnnAssign, ast.AugAssign)):
                add_target(n.target, n)
            elif isinstance(n, (ast.For, ast.AsyncFor)):
                add_target(n.target, n)
            elif isinstance(n, (ast.With, ast.AsyncWith)):
                for it in n.items:
                    if it.optional_vars is not None:
                        add_target(it.optional_vars, it)
            elif isinstance(n, ast.ExceptHandler) and n.name:
                out.setdefault(n.name, []).append(n)
            elif isinstance(n, ast.NamedExpr):
                add_target(n.target, n)
            elif isinstance(n, ast.comprehension):
                add_target(n.target, n)
        f._locals = out
        return out

    # -- types ----------------------------------------------------------------

    def ann_to_ty(self, ann: ast.AST | None, module: ModuleInfo, func: FuncInfo | None) -> Ty | None:
        if ann is None:
            return None
        if isinstance(ann, ast.Constant):
            if ann.value is None:
                return Ty("none")
            if isinstance(ann.value, str):
                try:
                    return self.ann_to_ty(ast.parse(ann.value, mode="eval").body, module, func)
                except SyntaxError:
                    return None
            if ann.value is Ellipsis:
                return Ty("ellipsis")
            return None
        if isinstance(ann, ast.BinOp) and isinstance(ann.op, ast.BitOr):
            return _union([t for t in (self.ann_to_ty(ann.left, module, func), self.ann_to_ty(ann.right, module, func)) if t])
        if isinstance(ann, (ast.Name, ast.Attribute)):
            d = dotted(ann) or ""
            short = d.split(".")[-1]
            if short in ("dict", "Dict", "Mapping", "MutableMapping", "OrderedDict", "defaultdict"):
                return Ty("dict")
            if short in ("list", "List", "Sequence", "Iterable", "Iterator", "Collection"):
                return Ty("list")
            if short in ("set", "Set", "frozenset", "FrozenSet"):
                return Ty("set")
            if short in ("tuple", "Tuple"):
                return Ty("tuple")
            sym = self.resolve_expr_symbol(ann, module, func)
            if sym and sym[0] == "class":
                return Ty("cls", sym[1])
            if sym and sym[0] == "ext":
                return Ty("ext", sym[1])
            return None
        if isinstance(ann, ast.Subscript):
            d = dotted(ann.value) or ""
            short = d.split(".")[-1]
            sl = ann.slice
            elts = list(sl.elts) if isinstance(sl, ast.Tuple) else [sl]
            args = tuple(self.ann_to_ty(e, module, func) or Ty("unknown") for e in elts)
            if short in ("dict", "Dict", "Mapping", "MutableMapping", "OrderedDict", "defaultdict"):
                return Ty("dict", None, args)
            if short in ("list", "List", "Sequence", "Iterable", "Iterator", "Collection"):
                return Ty("list", None, args)
            if short in ("set", "Set", "frozenset", "FrozenSet"):
                return Ty("set", None, args)
            if short in ("tuple", "Tuple"):
                return Ty("tuple", None, args)
            if short == "Optional":
                return args[0]
            if short == "Union":
                return _union(list(args))
            if short in ("type", "Type"):
                return Ty("type", None, args)
            if short in ("ContextVar",):
                return Ty("ext", "contextvars.ContextVar", args)
            return self.ann_to_ty(ann.value, module, func)
        return None

    def attr_type(self, ci: ClassInfo, attr: str) -> Ty | None:
        key = (ci.qname, attr)
        if key in self._attr_type_cache:
            return self._attr_type_cache[key]
        self._attr_type_cache[key] = None
        res: Ty | None = None
        for c in ci.mro():
            m = c.methods.get(attr)
            if m is not None and m.is_property:
                res = self.ann_to_ty(m.node.returns, m.module, m)  # type: ignore[attr-defined]
                break
            if attr in c.class_attrs:
                res = self.ann_to_ty(c.class_attrs[attr], c.module, None)
                if res is not None:
                    break
            found: list[Ty] = []
            for meth in c.methods.values():
                for n in walk_local(meth.node):
                    tgt = None
                    val = None
                    ann = None
                    if isinstance(n, ast.Assign):
                        for t in n.targets:
                            if is_self_attr(t, attr):
                                tgt, val = t, n.value
                    elif isinstance(n, ast.AnnAssign) and is_self_attr(n.target, attr):
                        tgt, val, ann = n.target, n.value, n.annotation
                    if tgt is None:
                        continue
                    t = self.ann_to_ty(ann, meth.module, meth) if ann is not None else None
                    if t is None and val is not None:
                        t = self.type_of(val, meth)
                    if t is not None:
                        found.append(t)
            if found:
                res = _union(found)
                break
        self._attr_type_cache[key] = res
        return res

    def type_of(self, expr: ast.AST, func: FuncInfo | None, module: ModuleInfo | None = None) -> Ty | None:
        module = module or (func.module if func else None)
        if module is None:
            return None
        key = (id(expr), func.qname if func else "")
        cacheable = hasattr(expr, "_parent")  # only nodes of the parsed trees have stable ids
        if cacheable and key in self._type_cache:
            return self._type_cache[key]
        if key in self._in_progress:
            return None
        self._in_progress.add(key)
        try:
            res = self._type_of(expr, func, module)
        finally:
            self._in_progress.discard(key)
        if cacheable:
            self._type_cache[key] = res
        return res

    def _type_of(self, expr: ast.AST, func: FuncInfo | None, module: ModuleInfo) -> Ty | None:
        if isinstance(expr, ast.Await):
            return self.type_of(expr.value, func, module)
        if isinstance(expr, ast.Name):
            return self._type_of_name(expr.id, func, module)
        if isinstance(expr, ast.Attribute):
            base = self.type_of(expr.value, func, module)
            if base is not None:
                parts = []
                for ci in base.classes():
                    t = self.attr_type(ci, expr.attr)
                    if t is not None:
                        parts.append(t)
                if parts:
                    return _union(parts)
            sym = self.resolve_expr_symbol(expr, module, func)
            if sym and sym[0] == "const":
                m, _, val = sym[1]
                return self.type_of(val, None, m)
            return None
        if isinstance(expr, ast.Call):
            # container-returning methods
            if isinstance(expr.func, ast.Attribute):
                recv = self.type_of(expr.func.value, func, module)
                meth = expr.func.attr
                if recv is not None and recv.kind == "dict" and len(recv.args) == 2:
                    k, v = recv.args
                    if meth in ("get", "pop", "setdefault"):
                        return v
                    if meth == "values":
                        return Ty("list", None, (v,))
                    if meth == "keys":
                        return Ty("list", None, (k,))
                    if meth == "items":
                        return Ty("list", None, (Ty("tuple", None, (k, v)),))
                    if meth == "copy":
                        return recv
            callees = self.resolve_call(expr, func, module)
            parts = []
            for c in callees:
                if c.kind == "class" and c.cls is not None:
                    parts.append(Ty("cls", c.cls))
                elif c.func is not None and c.kind != "class":
                    t = self.ann_to_ty(c.func.node.returns, c.func.module, c.func)  # type: ignore[attr-defined]
                    if t is not None:
                        parts.append(t)
                elif c.ext in ("set", "frozenset"):
                    parts.append(Ty("set"))
                elif c.ext in ("list", "dict", "tuple") and not expr.args:
                    parts.append(Ty(c.ext))
                elif c.ext in ("list", "sorted", "reversed") and expr.args:
                    inner = self.type_of(expr.args[0], func, module)
                    if inner is not None and inner.elem() is not None:
                        parts.append(Ty("list", None, (inner.elem(),)))
                elif c.ext in ("dict",) and expr.args:
                    inner = self.type_of(expr.args[0], func, module)
                    if inner is not None:
                        parts.append(inner)
                elif c.ext == "type" and len(expr.args) == 1:
                    inner = self.type_of(expr.args[0], func, module)
                    if inner is not None:
                        parts.append(Ty("type", None, (inner,)))
                elif c.ext == "copy.copy" and expr.args:
                    inner = self.type_of(expr.args[0], func, module)
                    if inner is not None:
                        parts.append(inner)
                elif c.kind == "ext" and c.ext and c.via in ("name", "attr") and c.ext.split(".")[-1][:1].isupper():
                    parts.append(Ty("ext", c.ext))
            return _union(parts)
        if isinstance(expr, ast.Subscript):
            base = self.type_of(expr.value, func, module)
            if base is None:
                return None
            if base.kind == "dict" and len(base.args) == 2:
                return base.args[1]
            if base.kind == "list" and base.args:
                return base if isinstance(expr.slice, ast.Slice) else base.args[0]
            if base.kind == "tuple" and base.args:
                if isinstance(expr.slice, ast.Constant) and isinstance(expr.slice.value, int) and -len(base.args) <= expr.slice.value < len(base.args):
                    return base.args[expr.slice.value]
                return base.elem()
            return None
        if isinstance(expr, ast.BinOp) and isinstance(expr.op, (ast.Sub, ast.BitOr, ast.BitAnd, ast.BitXor)):
            lt, rt = self.type_of(expr.left, func, module), self.type_of(expr.right, func, module)
            if (lt is not None and lt.kind == "set") or (rt is not None and rt.kind == "set"):
                return Ty("set")
            return None
        if isinstance(expr, ast.IfExp):
            return _union([t for t in (self.type_of(expr.body, func, module), self.type_of(expr.orelse, func, module)) if t])
        if isinstance(expr, ast.BoolOp):
            return _union([t for t in (self.type_of(v, func, module) for v in expr.values) if t])
        if isinstance(expr, ast.Dict):
            return Ty("dict")
        if isinstance(expr, (ast.List, ast.ListComp)):
            if isinstance(expr, ast.ListComp):
                return Ty("list")
            return Ty("list")
        if isinstance(expr, (ast.Set, ast.SetComp)):
            return Ty("set")
        if isinstance(expr, ast.DictComp):
            return Ty("dict")
        if isinstance(expr, ast.Tuple):
            return Ty("tuple", None, tuple(self.type_of(e, func, module) or Ty("unknown") for e in expr.elts))
        if isinstance(expr, ast.Constant) and expr.value is None:
            return Ty("none")
        if isinstance(expr, ast.JoinedStr) or (isinstance(expr, ast.Constant) and isinstance(expr.value, str)):
            return Ty("ext", "str")
        return None

    def _type_of_name(self, name: str, func: FuncInfo | None, module: ModuleInfo) -> Ty | None:
        f = func
        while f is not None:
            if name in f.param_names:
                if name in ("self",) and f.cls is not None and f.positional_params[:1] == ["self"]:
                    return Ty("cls", f.cls)
                if name == "cls" and f.cls is not None and f.positional_params[:1] == ["cls"]:
                    return Ty("type", None, (Ty("cls", f.cls),))
                return self.ann_to_ty(f.param_annotation(name), f.module, f)
            defs = self.local_defs(f).get(name)
            if defs:
                parts: list[Ty] = []
                for d in defs:
                    t = self._type_of_def(name, d, f)
                    if t is not None:
                        parts.append(t)
                return _union(parts)
            if name in f.children or name in f.local_imports:
                break
            f = f.parent
        sym = self.resolve_name(name, module, func)
        if sym and sym[0] == "const":
            m, _, val = sym[1]
            return self.type_of(val, None, m)
        return None

    def _type_of_def(self, name: str, d: ast.AST, f: FuncInfo) -> Ty | None:
        if isinstance(d, ast.AnnAssign):
            t = self.ann_to_ty(d.annotation, f.module, f)
            if t is not None:
                return t
            return self.type_of(d.value, f) if d.value is not None else None
        if isinstance(d, ast.Assign):
            for t in d.targets:
                if isinstance(t, ast.Name) and t.id == name:
                    return self.type_of(d.value, f)
                if isinstance(t, (ast.Tuple, ast.List)):
                    vt = self.type_of(d.value, f)
                    for i, e in enumerate(t.elts):
                        if isinstance(e, ast.Name) and e.id == name and vt is not None and vt.kind == "tuple" and i < len(vt.args):
                            return vt.args[i]
            return None
        if isinstance(d, (ast.For, ast.AsyncFor, ast.comprehension)):
            it = self.type_of(d.iter, f)
            if it is None:
                return None
            el = it.elem()
            if isinstance(d.target, ast.Name):
                return el
            if isinstance(d.target, (ast.Tuple, ast.List)) and el is not None and el.kind == "tuple":
                for i, e in enumerate(d.target.elts):
                    if isinstance(e, ast.Name) and e.id == name and i < len(el.args):
                        return el.args[i]
            return None
        if isinstance(d, ast.ExceptHandler):
            if d.type is not None:
                return self.ann_to_ty(d.type, f.module, f)
            return None
        if isinstance(d, ast.NamedExpr):
            return self.type_of(d.value, f)
        return None

    # -- call resolution -----------------------------------------------------

    def resolve_call(self, call: ast.Call, func: FuncInfo | None, module: ModuleInfo | None = None) -> list["Callee"]:
        module = module or (func.module if func else None)
        assert module is not None
        key = id(call)
        cacheable = hasattr(call, "_parent")
        if cacheable and key in self._call_cache:
            return self._call_cache[key]
        if cacheable:
            self._call_cache[key] = []
        res = self._resolve_callable(call.func, func, module, call)
        if cacheable:
            self._call_cache[key] = res
        return res

    def _callee_from_sym(self, sym: tuple[str, Any] | None, via: str) -> list["Callee"]:
        if sym is None:
            return []
        k, obj = sym
        if k == "func":
            return [Callee("func", func=obj, via=via)]
        if k == "class":
            init = obj.find_method("__init__")
            return [Callee("class", func=init, cls=obj, via=via)]
        if k == "ext":
            return [Callee("ext", ext=obj, via=via)]
        return []

    def _method_targets(self, ci: ClassInfo, name: str, include_overrides: bool = True) -> list[FuncInfo]:
        out: list[FuncInfo] = []
        m = ci.find_method(name)
        if m is not None:
            out.append(m)
        if include_overrides:
            for sub in ci.all_subclasses():
                if name in sub.methods and sub.methods[name] not in out:
                    out.append(sub.methods[name])
            concrete = [m for m in out if not m.is_abstract]
            if concrete:
                out = concrete
        return out

    def _resolve_callable(self, fexpr: ast.AST, func: FuncInfo | None, module: ModuleInfo, call: ast.Call | None) -> list["Callee"]:
        if isinstance(fexpr, ast.Name):
            sym = self.resolve_name(fexpr.id, module, func)
            if sym and sym[0] in ("func", "class", "ext"):
                return self._callee_from_sym(sym, "name")
            if sym and sym[0] in ("local", "param"):
                # a local holding a callable: registry value / closure / typed object with __call__
                out: list[Callee] = []
                if sym[0] == "local":
                    f, name = sym[1]
                    for d in self.local_defs(f).get(name, []):
                        if isinstance(d, ast.Assign):
                            out += self._registry_targets(d.value, f)
                            out += [Callee("func", func=g, via="callable-value") for g in self.callable_values(d.value, f)]
                else:
                    f, name = sym[1]
                    out += [Callee("func", func=g, via="callable-param") for g in self.param_callables(f, name)]
                if not out:
                    t = self._type_of_name(fexpr.id, func, module)
                    if t is not None:
                        for ci in t.classes():
                            for m in self._method_targets(ci, "__call__"):
                                out.append(Callee("func", func=m, via="call-dunder"))
                return out
            return []
        if isinstance(fexpr, ast.Attribute):
            # module / class / external attribute
            sym = self.resolve_expr_symbol(fexpr, module, func)
            if sym and sym[0] in ("func", "class", "ext"):
                return self._callee_from_sym(sym, "attr")
            # super().m
            if isinstance(fexpr.value, ast.Call) and isinstance(fexpr.value.func, ast.Name) and fexpr.value.func.id == "super" and func is not None:
                owner = func
                while owner is not None and owner.cls is None:
                    owner = owner.parent
                if owner is not None and owner.cls is not None:
                    mro = owner.cls.mro()
                    for c in mro[1:]:
                        if fexpr.attr in c.methods:
                            return [Callee("func", func=c.methods[fexpr.attr], via="super")]
                return []
            t = self.type_of(fexpr.value, func, module)
            out = []
            if t is not None:
                classes = t.classes()
                if t.kind == "type":
                    classes = [c for a in t.args for c in a.classes()]
                for ci in classes:
                    for m in self._method_targets(ci, fexpr.attr):
                        c = Callee("func", func=m, via="method")
                        if c not in out:
                            out.append(c)
                if not out and t.kind in ("dict", "list", "set", "tuple", "ext"):
                    return [Callee("ext", ext=f"<{t.kind if t.kind != 'ext' else t.cls}>.{fexpr.attr}", via="container")]
                if not out and classes:
                    # attribute holding a callable object?
                    for ci in classes:
                        at = self.attr_type(ci, fexpr.attr)
                        if at is not None:
                            for cj in at.classes():
                                for m in self._method_targets(cj, "__call__"):
                                    out.append(Callee("func", func=m, via="call-dunder"))
            return out
        if isinstance(fexpr, ast.Call):
            # f(...)(...)
            return []
        return []

    def callable_values(self, expr: ast.AST, f: FuncInfo, _depth: int = 0) -> list[FuncInfo]:
        """Functions an expression may evaluate to (closures returned by factories, names of defs)."""
        if _depth > 4:
            return []
        if isinstance(expr, (ast.Name, ast.Attribute)):
            sym = self.resolve_expr_symbol(expr, f.module, f)
            if sym and sym[0] == "func":
                return [sym[1]]
            if sym and sym[0] == "param":
                return self.param_callables(sym[1][0], sym[1][1], _depth + 1)
            if sym and sym[0] == "local" and isinstance(expr, ast.Name):
                out: list[FuncInfo] = []
                for d in self.local_defs(sym[1][0]).get(expr.id, []):
                    if isinstance(d, ast.Assign):
                        out += self.callable_values(d.value, sym[1][0], _depth + 1)
                return out
            if isinstance(expr, ast.Attribute):
                t = self.type_of(expr.value, f)
                if t is not None:
                    return [m for ci in t.classes() for m in self._method_targets(ci, expr.attr) if not m.is_property]
            return []
        if isinstance(expr, ast.Call):
            out = []
            for cal in self.resolve_call(expr, f):
                g = cal.func
                if g is None or cal.kind != "func":
                    continue
                for n in walk_local(g.node):
                    if isinstance(n, ast.Return) and n.value is not None and isinstance(n.value, ast.Name):
                        sym = self.resolve_name(n.value.id, g.module, g)
                        if sym and sym[0] == "func" and sym[1] not in out:
                            out.append(sym[1])
            return out
        return []

    def callers_of(self, f: FuncInfo) -> list[tuple[FuncInfo, ast.Call]]:
        if not hasattr(self, "_callers"):
            idx: dict[str, list[tuple[FuncInfo, ast.Call]]] = {}
            for g in list(self.funcs.values()):
                for c in self.calls_in(g):
                    for cal in self.resolve_call(c, g):
                        if cal.func is not None:
                            idx.setdefault(cal.func.qname, []).append((g, c))
            self._callers = idx
        return self._callers.get(f.qname, [])

    def param_callables(self, f: FuncInfo, param: str, _depth: int = 0) -> list[FuncInfo]:
        """Functions that may be passed for callable parameter ``param`` of ``f``."""
        key = ("pc", f.qname, param)
        if key in self._in_progress or _depth > 4:
            return []
        self._in_progress.add(key)
        try:
            out: list[FuncInfo] = []
            for caller, call in self._callers_by_name(f):
                arg = bind_args(call, f).get(param)
                if arg is None:
                    continue
                for g in self.callable_values(arg, caller, _depth + 1):
                    if g not in out:
                        out.append(g)
            return out
        finally:
            self._in_progress.discard(key)

    def _callers_by_name(self, f: FuncInfo) -> list[tuple[FuncInfo, ast.Call]]:
        """Call sites whose callee expression names ``f`` (cheap, avoids a full index during resolution)."""
        if not hasattr(self, "_name_index"):
            idx: dict[str, list[tuple[FuncInfo, ast.Call]]] = {}
            for g in self.funcs.values():
                for c in self.calls_in(g):
                    nm = c.func.id if isinstance(c.func, ast.Name) else (c.func.attr if isinstance(c.func, ast.Attribute) else None)
                    if nm:
                        idx.setdefault(nm, []).append((g, c))
            self._name_index = idx
        out = []
        for g, c in self._name_index.get(f.name, []):
            if any(cal.func == f for cal in self.resolve_call(c, g)):
                out.append((g, c))
        return out

    def _registry_targets(self, value: ast.AST, f: FuncInfo) -> list["Callee"]:
        """``x = self._executors.get(k)`` / ``self._executors[k]`` -> __call__ of every class
        instantiated in the dict literal assigned to that attribute."""
        recv = None
        if isinstance(value, ast.Call) and isinstance(value.func, ast.Attribute) and value.func.attr == "get":
            recv = value.func.value
        elif isinstance(value, ast.Subscript):
            recv = value.value
        if recv is None or not isinstance(recv, ast.Attribute):
            return []
        base_t = self.type_of(recv.value, f)
        out: list[Callee] = []
        if base_t is None:
            return out
        for ci in base_t.classes():
            for lit in self.registry_literals(ci, recv.attr):
                for v in lit.values:
                    if isinstance(v, ast.Call):
                        sym = self.resolve_expr_symbol(v.func, ci.module, None) or self.resolve_expr_symbol(v.func, f.module, f)
                        if sym and sym[0] == "class":
                            for m in self._method_targets(sym[1], "__call__", include_overrides=False):
                                c = Callee("func", func=m, via="registry")
                                if c not in out:
                                    out.append(c)
        return out

    def registry_literals(self, ci: ClassInfo, attr: str) -> list[ast.Dict]:
        out = []
        classes = [ci] + ci.all_subclasses()
        seen = set()
        for c in classes:
            for k in c.mro():
                if k.qname in seen:
                    continue
                seen.add(k.qname)
                for meth in k.methods.values():
                    for n in walk_local(meth.node):
                        val = None
                        if isinstance(n, ast.Assign) and any(is_self_attr(t, attr) for t in n.targets):
                            val = n.value
                        elif isinstance(n, ast.AnnAssign) and is_self_attr(n.target, attr):
                            val = n.value
                        if isinstance(val, ast.Dict):
                            out.append(val)
        return out

    # -- call graph helpers ----------------------------------------------------

    def calls_in(self, f: FuncInfo, include_nested: bool = False) -> list[ast.Call]:
        it = ast.walk(f.node) if include_nested else walk_local(f.node)
        return [n for n in it if isinstance(n, ast.Call)]

    def callees(self, f: FuncInfo, include_nested: bool = False) -> list[tuple[ast.Call, "Callee"]]:
        out = []
        for c in self.calls_in(f, include_nested):
            owner = self.enclosing_func(c) or f
            for cal in self.resolve_call(c, owner):
                out.append((c, cal))
        return out

    def closure(self, roots: Iterable[FuncInfo], *, follow_nested: bool = True, stop: Any = None, property_reads: bool = True) -> dict[FuncInfo, list[FuncInfo]]:
        """Transitive callee closure.  Returns {function: path of callers from a root}."""
        seen: dict[FuncInfo, list[FuncInfo]] = {}
        todo: list[tuple[FuncInfo, list[FuncInfo]]] = [(r, [r]) for r in roots]
        while todo:
            f, path = todo.pop()
            if f in seen:
                continue
            seen[f] = path
            if stop is not None and stop(f):
                continue
            nxt: list[FuncInfo] = []
            for call, cal in self.callees(f, include_nested=False):
                if cal.func is not None:
                    nxt.append(cal.func)
            if follow_nested:
                nxt += list(f.children.values())
            if property_reads:
                nxt += self.property_reads(f)
            for g in nxt:
                if g not in seen:
                    todo.append((g, path + [g]))
        return seen

    def property_reads(self, f: FuncInfo) -> list[FuncInfo]:
        """Properties (of package classes) read by attribute access in ``f``."""
        out: list[FuncInfo] = []
        for n in walk_local(f.node):
            if isinstance(n, ast.Attribute) and isinstance(n.ctx, ast.Load):
                t = self.type_of(n.value, f)
                if t is None:
                    continue
                for ci in t.classes():
                    for m in self._method_targets(ci, n.attr):
                        if m.is_property and m not in out:
                            out.append(m)
        return out

    def stats(self) -> dict[str, int]:
        total = resolved = 0
        for f in self.funcs.values():
            for c in self.calls_in(f):
                total += 1
                if self.resolve_call(c, f):
                    resolved += 1
        return {
            "modules": len(self.modules),
            "functions": len(self.funcs),
            "classes": len(self.classes),
            "call_sites": total,
            "call_sites_resolved": resolved,
        }


@dataclass(frozen=True)
class Callee:
    kind: str  # 'func' | 'class' | 'ext'
    func: FuncInfo | None = None
    cls: ClassInfo | None = None
    ext: str | None = None
    via: str = ""

    @property
    def name(self) -> str:
        if self.kind == "ext":
            return self.ext or "?"
        if self.kind == "class":
            return self.cls.qname if self.cls else "?"
        return self.func.qname if self.func else "?"

    @property
    def short(self) -> str:
        return self.name.split(".")[-1]


# ---------------------------------------------------------------------------
# AST helpers
# ---------------------------------------------------------------------------


def bind_args(call: ast.Call, f: FuncInfo, bound_method: bool | None = None) -> dict[str, ast.AST]:
    """Map parameter names of ``f`` to the argument expressions of ``call``."""
    pos = list(f.positional_params)
    if bound_method is None:
        bound_method = bool(f.is_method and not f.is_static and pos[:1] in (["self"], ["cls"]) and isinstance(call.func, ast.Attribute))
        # Class(...) -> __init__: self is implicit as well
        if f.name in ("__init__", "__call__") and pos[:1] == ["self"]:
            bound_method = True
    if bound_method and pos:
        pos = pos[1:]
    out: dict[str, ast.AST] = {}
    for i, a in enumerate(call.args):
        if isinstance(a, ast.Starred):
            break
        if i < len(pos):
            out[pos[i]] = a
    names = set(f.param_names)
    for kw in call.keywords:
        if kw.arg is not None and kw.arg in names:
            out[kw.arg] = kw.value
    return out



def dotted(e: ast.AST | None) -> str | None:
    if isinstance(e, ast.Name):
        return e.id
    if isinstance(e, ast.Attribute):
        b = dotted(e.value)
        return f"{b}.{e.attr}" if b else None
    return None


def is_self_attr(t: ast.AST, attr: str | None = None) -> bool:
    return isinstance(t, ast.Attribute) and isinstance(t.value, ast.Name) and t.value.id == "self" and (attr is None or t.attr == attr)


def import_bindings(st: ast.stmt, mi: ModuleInfo) -> Iterator[tuple[str, str]]:
    if isinstance(st, ast.Import):
        for a in st.names:
            if a.asname:
                yield a.asname, a.name
            else:
                top = a.name.split(".")[0]
                yield top, top
    elif isinstance(st, ast.ImportFrom):
        if st.level:
            base = mi.name.split(".")
            if not mi.is_pkg:
                base = base[:-1]
            if st.level > 1:
                base = base[: len(base) - (st.level - 1)]
            mod = ".".join(base + ([st.module] if st.module else []))
        else:
            mod = st.module or ""
        for a in st.names:
            if a.name == "*":
                continue
            yield (a.asname or a.name), f"{mod}.{a.name}"


def walk_local(fnode: ast.AST) -> Iterator[ast.AST]:
    """Walk a function (or any node) without descending into nested function/class
    definitions or lambdas (their decorators/defaults are visited)."""
    stack = list(reversed(list(ast.iter_child_nodes(fnode))))
    while stack:
        n = stack.pop()
        yield n
        if isinstance(n, (ast.FunctionDef, ast.AsyncFunctionDef)):
            for d in n.decorator_list:
                stack.append(d)
            continue
        if isinstance(n, (ast.ClassDef, ast.Lambda)):
            continue
        stack.extend(reversed(list(ast.iter_child_nodes(n))))


def parent(n: ast.AST) -> ast.AST | None:
    return getattr(n, "_parent", None)


def ancestors(n: ast.AST) -> Iterator[ast.AST]:
    p = parent(n)
    while p is not None:
        yield p
        p = parent(p)


def src(n: ast.AST) -> str:
    try:
        return ast.unparse(n)
    except Exception:  # pragma: no cover
        return "<?>"


def stmt_of(n: ast.AST) -> ast.stmt | None:
    cur: ast.AST | None = n
    while cur is not None and not isinstance(cur, ast.stmt):
        cur = parent(cur)
    return cur  # type: ignore[return-value]

"""E9: obligations, known findings, evidence, exit codes."""

from __future__ import annotations

import json
import os
import time
from dataclasses import asdict, dataclass, field
from typing import Any

from .db import AnalysisError

VERIF = os.path.dirname(os.path.dirname(os.path.abspath(__file__)))
KNOWN_FINDINGS = os.path.join(VERIF, "known_findings.json")


@dataclass
class Obligation:
    rule: str
    instance: str
    ok: bool
    loc: str
    msg: str
    witness: str = ""
    known: str | None = None  # id of the matching open known finding

    def key(self) -> str:
        return f"{self.rule}|{self.instance}"


class Report:
    def __init__(self, prop: str, tier: str, repo: str):
        self.prop = prop
        self.tier = tier
        self.repo = repo
        self.obligations: list[Obligation] = []
        self.assumptions: list[str] = []
        self.rules: dict[str, str] = {}
        self.extra: dict[str, Any] = {}
        self.t0 = time.time()
        self.floors: dict[str, int] = {}

    # -- recording -------------------------------------------------------------

    def rule(self, rid: str, text: str, floor: int = 1) -> None:
        """Declare a rule with the minimum number of instances it must match."""
        self.rules[rid] = text
        self.floors[rid] = floor

    def add(self, rule: str, instance: str, ok: bool, loc: str, msg: str, witness: str = "") -> Obligation:
        if rule not in self.rules:
            raise AnalysisError(f"undeclared rule {rule}")
        o = Obligation(rule, instance, bool(ok), loc, msg, witness)
        self.obligations.append(o)
        return o

    def ok(self, rule: str, instance: str, loc: str, msg: str) -> Obligation:
        return self.add(rule, instance, True, loc, msg)

    def bad(self, rule: str, instance: str, loc: str, msg: str, witness: str = "") -> Obligation:
        return self.add(rule, instance, False, loc, msg, witness)

    def assume(self, text: str) -> None:
        if text not in self.assumptions:
            self.assumptions.append(text)

    # -- finishing -----------------------------------------------------------------

    def check_floors(self) -> None:
        counts: dict[str, int] = {}
        for o in self.obligations:
            counts[o.rule] = counts.get(o.rule, 0) + 1
        for rid, floor in self.floors.items():
            if counts.get(rid, 0) < floor:
                raise AnalysisError(f"rule {rid} matched {counts.get(rid, 0)} instance(s), below the floor of {floor} confirmed by hand (anchor vanished or refactored beyond recognition)")

    def apply_known(self) -> list[dict]:
        try:
            with open(KNOWN_FINDINGS, encoding="utf-8") as fh:
                known = json.load(fh)
        except FileNotFoundError:
            known = []
        mine = [k for k in known if k.get("property") == self.prop and k.get("status") == "open"]
        for o in self.obligations:
            if o.ok:
                continue
            for k in mine:
                if k.get("rule") == o.rule and k.get("construct") == o.instance:
                    o.known = k.get("id")
        return mine

    def violations(self) -> list[Obligation]:
        return [o for o in self.obligations if not o.ok and o.known is None]

    def violated_rules(self) -> set[str]:
        return {o.rule for o in self.obligations if not o.ok}


def write_evidence(rep: Report, selftest: dict | None, seed: int, explanation: str, not_decided: str, db_stats: dict) -> str:
    obligations = rep.obligations
    distinct = {o.key() for o in obligations}
    viol = rep.violations()
    samples = []
    seen_rules: set[str] = set()
    for o in obligations:
        if o.rule not in seen_rules or not o.ok:
            seen_rules.add(o.rule)
            samples.append({"rule": o.rule, "instance": o.instance, "status": "discharged" if o.ok else ("known-finding" if o.known else "VIOLATED"), "where": o.loc, "detail": o.msg[:300]})
        if len(samples) >= 40:
            break
    per_rule: dict[str, dict[str, int]] = {}
    for o in obligations:
        d = per_rule.setdefault(o.rule, {"instances": 0, "discharged": 0})
        d["instances"] += 1
        d["discharged"] += 1 if o.ok else 0
    cov: dict[str, Any] = {
        "explanation": explanation,
        "not_decided": not_decided,
        "obligations": len(obligations),
        "discharged": sum(1 for o in obligations if o.ok),
        "evaluations": len(obligations),
        "distinct_nontrivial": len(distinct),
        "rule": "one obligation per (rule, instance): instance = a function, call site, handler, attribute or sibling pair of the analysed package that matches the rule's slot; "
        "distinct = distinct (rule, instance) keys; every obligation is non-trivial in that it was produced by matching a construct of today's source tree (rules with too few matches abort as ANALYSIS-ERROR)",
        "rules": {rid: {"text": txt, **per_rule.get(rid, {"instances": 0, "discharged": 0}), "floor": rep.floors.get(rid, 1)} for rid, txt in rep.rules.items()},
        "samples": samples,
        "exhaustive": True,
        "analysed": db_stats,
        "checker_cmd": f"/venv/bin/python check {rep.prop} --tier {rep.tier}",
        "trusted_base": [
            "CPython ast module (parsing)",
            "annotation-driven type/call resolution of /verif/sa/db.py (types are taken from the repository's own annotations, not from a type checker)",
            "third-party libraries (asyncio, networkx, pickle, hmac, diskcache) behave per their documented contract",
        ],
    }
    if selftest is not None:
        cov["selftest"] = selftest
    cov.update(rep.extra)
    ev = {
        "property_id": rep.prop,
        "tier": rep.tier,
        "seed": seed,
        "level": "other",
        "coverage": cov,
        "assumptions": rep.assumptions,
        "wall_s": round(time.time() - rep.t0, 3),
        "violations": len(viol),
    }
    os.makedirs(os.path.join(VERIF, "evidence"), exist_ok=True)
    path = os.path.join(VERIF, "evidence", f"{rep.prop}.json")
    tmp = path + ".tmp"
    with open(tmp, "w", encoding="utf-8") as fh:
        json.dump(ev, fh, indent=1, sort_keys=False)
        fh.write("\n")
    os.replace(tmp, path)
    return path


def write_replay(rep: Report) -> str:
    d = os.path.join(VERIF, "evidence", "replay")
    os.makedirs(d, exist_ok=True)
    path = os.path.join(d, f"{rep.prop}.json")
    with open(path, "w", encoding="utf-8") as fh:
        json.dump({"property": rep.prop, "repo": rep.repo, "violations": [asdict(o) for o in rep.violations()]}, fh, indent=1)
    return path

"""C02 Determinism: results independent of runner, schedule, concurrency, node order."""

from __future__ import annotations

import ast

from sa.cfg import dominators, reachable, reaches
from sa.db import AnalysisError, FuncInfo, ancestors, bind_args, dotted, src, walk_local
from sa.effects import Effects, fmt_effect
from sa.flow import defs_reaching, reaching_defs
from sa.model import contains, enclosing, execute_impl_funcs, is_user_func_call, superstep_funcs
from sa.variants import Variant, replace_once, sub_first, sub_once

from .common import call_names, enclosing_facts, runner_no_raise, template_methods

ID = "C02"
EXPLANATION = (
    "Decides the step-isolation and ordered-application clauses that make the outcome independent of completion order, for all paths: (R1) the "
    "pre-step snapshot is never written by a superstep or any callee and all inputs/versions are read from it; (R2) the written state is "
    "snapshot.copy() and GraphState.copy gives every dataclass field (and every dict inside a NodeExecution) a fresh container; (R3) inside the "
    "concurrently gathered coroutine the shared copy is written only at routing_decisions[<own node name>]; (R4) tasks are created and results "
    "applied in ready-list order via gather(return_exceptions=True), the first error in that order wins and every successful result is applied "
    "before it is raised; (R5) the sync and async siblings (supersteps, run, map, execute loops, executors of the same node class) perform the "
    "same set of package actions with the same keywords, the same validation order and the same guard for materialising a node's result; (R6) the "
    "scheduler writes nothing but stale-decision deletions, consults no clock/random source and never lets set iteration order reach the ready list. R5 also compares, for the two execute loops, under which guards (calls in the enclosing branch conditions, looked through single-assignment locals) each constructed exception is raised: the same program must not complete under one runner and report InfiniteLoopError under the other. R6 also requires that the list handed to a superstep is exactly the scheduler's result (not truncated to the concurrency limit, re-filtered or re-ordered)."
    " R6 also requires that activation is an existential over a node's controlling gates (the scan stops only on success) and that the table of bindings surfaced from nested graphs is merged independently of the node-list order (open finding F29). R5's interrupt-related one-sided extras rest on the checked premise that only the async runner registers an InterruptNode executor."
)
NOT_DECIDED = "Equality of outcomes across node-list permutations and anything about computed values; fairness/timing of the event loop."

# one-sided extras of the async siblings, each with a reason
ASYNC_EXTRAS = {
    "gather": "async concurrency primitive",
    "create_task": "async concurrency primitive",
    "Queue": "bounded map worker queue",
    "Event": "bounded map stop flag",
    "sleep": "async primitive",
    "get_concurrency_limiter": "max_concurrency (async only)",
    "set_concurrency_limiter": "max_concurrency (async only)",
    "reset_concurrency_limiter": "max_concurrency (async only)",
    "_get_concurrency_limiter": "max_concurrency (async only)",
    "_set_concurrency_limiter": "max_concurrency (async only)",
    "_reset_concurrency_limiter": "max_concurrency (async only)",
    "Semaphore": "max_concurrency (async only)",
    "_generate_run_id": "async map turns an item's up-front validation error into a FAILED result (call-level rejection; same for every item)",
    "_run_map_item": "async map item wrapper",
    "_worker": "bounded async map worker",
    "_execute": "async function executor splits limiter handling from execution",
    "_handle_nested_result": "PAUSED nested result conversion (interrupts are async only)",
    "PauseInfo": "interrupts are async only",
    "is_resuming_interrupt": "a caller-supplied interrupt response bypasses the node cache (fix e03df3f); interrupts are async only — the sync runner registers no executor for InterruptNode, checked below",
    "PauseExecution": "interrupts are async only",
    "execute_one": "per-node coroutine of the async superstep",
    "iscoroutine": "awaiting a returned awaitable (async runner supports callables returning awaitables)",
    "isasyncgen": "async generators (async runner only)",
    "isawaitable": "awaiting a returned awaitable",
    "get_nowait": "bounded map worker queue",
    "put_nowait": "bounded map worker queue",
    "is_set": "bounded map stop flag",
    "set": "bounded map stop flag",
    "ValueError": "unbounded async map size guard",
    "BaseException": "-",
}


LABEL_EXTRAS = {
    ("template.map", "RunResult"): "async map turns an item's up-front validation error into a FAILED result (validation depends only on the key set, which is the same for every item)",
}
ASYNC_EXTRA_KEYWORDS = {"pause", "max_concurrency"}  # interrupts / limiter are async only


def _norm(name: str) -> str:
    for suf in ("_async", "_sync"):
        if name.endswith(suf):
            name = name[: -len(suf)]
    name = name.replace("Async", "").replace("Sync", "")
    return name


def _actions(db, fs: list[FuncInfo]) -> dict[str, set[tuple]]:
    """normalised callee name -> set of keyword tuples, for calls into the package (and user calls)."""
    out: dict[str, set[tuple]] = {}
    mods = {f.module for f in fs}
    todo = list(fs)
    seen = set(fs)
    while todo:
        f = todo.pop()
        for c in db.calls_in(f):
            names = set()
            for cal in db.resolve_call(c, f):
                if cal.kind == "func" and cal.func is not None and cal.func.module in mods and cal.func.cls is None and cal.func.parent is None and cal.func.name.startswith("_"):
                    # a private helper of the sibling's own module: inline it (helper extraction is not a behaviour change)
                    if cal.func not in seen:
                        seen.add(cal.func)
                        todo.append(cal.func)
                    continue
                if cal.kind == "ext":
                    if cal.ext and cal.ext.split(".")[0] in ("asyncio", "inspect"):
                        names.add(cal.ext.split(".")[-1])
                    continue
                names.add(cal.short if cal.kind == "func" else cal.cls.name)
            if is_user_func_call(db, c, f):
                names.add("<node>.func")
            if not names and isinstance(c.func, ast.Attribute) and c.func.attr in ("get_nowait", "put_nowait", "is_set", "set"):
                names.add(c.func.attr)
            for nm in names:
                kws = tuple(sorted(k.arg for k in c.keywords if k.arg))
                out.setdefault(_norm(nm), set()).add(kws)
    return out


def _with_closures(f: FuncInfo) -> list[FuncInfo]:
    out = [f]
    for ch in f.children.values():
        out += _with_closures(ch)
    return out


def check_step_results_in_ready_order(ctx, rule: str) -> None:
    """The async step builds its tasks in ready-list order, gathers them with return_exceptions, applies the results by
    iterating the gather result, records the first exception in that order (its only source) and raises after the
    loop: what the step reports never depends on the order in which its nodes complete."""
    db, rep = ctx.db, ctx.rep
    sss = superstep_funcs(db)
    for ss in sss:
        if not ss.is_async:
            continue
        cfg = ctx.cfg(ss, runner_no_raise(db))
        rd = reaching_defs(cfg)
        gathers = [(n, c) for n in cfg.nodes for c in cfg.calls_at(n) if dotted(c.func) == "asyncio.gather"]
        if len(gathers) != 1:
            rep.bad(rule, f"{ss.qname}:gather", ss.loc(), f"expected exactly one gather in the superstep, found {len(gathers)}")
            continue
        gn, gc = gathers[0]
        kwv = {k.arg: k.value for k in gc.keywords}
        ok = isinstance(kwv.get("return_exceptions"), ast.Constant) and kwv["return_exceptions"].value is True
        rep.add(rule, f"{ss.qname}:gather-collects", ok, f"{ss.module.rel}:{gn.lineno}", "gather(return_exceptions=True)" if ok else "gather does not collect exceptions: the first failure to *complete* wins and successful siblings are lost")
        # tasks built by iterating the ready list in order
        star = [a.value for a in gc.args if isinstance(a, ast.Starred)]
        ok = False
        detail = "gather arguments are not a starred task list"
        if len(star) == 1 and isinstance(star[0], ast.Name):
            vals = [v for d, v in defs_reaching(cfg, rd, gn, star[0].id)]
            if len(vals) == 1 and isinstance(vals[0], ast.ListComp) and len(vals[0].generators) == 1:
                it = vals[0].generators[0].iter
                ok = isinstance(it, ast.Name) and it.id == "ready_nodes" and not vals[0].generators[0].ifs
                detail = "tasks = [.. for node in ready_nodes]" if ok else f"tasks are not built by iterating the ready list in order ({src(vals[0])[:60]})"
        rep.add(rule, f"{ss.qname}:tasks-in-ready-order", ok, f"{ss.module.rel}:{gn.lineno}", detail)
        # results iterated directly
        res_names = [t.id for t in gn.ast.targets if isinstance(t, ast.Name)] if isinstance(gn.ast, ast.Assign) else []
        loops = [n for n in cfg.nodes if n.kind == "for" and isinstance(n.ast.iter, ast.Name) and n.ast.iter.id in res_names]
        ok = len(loops) == 1 and len(db.local_defs(ss).get(res_names[0], [])) == 1 if res_names else False
        rep.add(rule, f"{ss.qname}:apply-in-gather-order", ok, f"{ss.module.rel}:{loops[0].lineno if loops else gn.lineno}", "results are applied by iterating the gather result in task order" if ok else "results are not applied by iterating the gather result directly (order may follow completion)")
        for bad in ("asyncio.as_completed", "asyncio.wait"):
            for n in cfg.nodes:
                for c in cfg.calls_at(n):
                    if dotted(c.func) == bad:
                        rep.bad(rule, f"{ss.qname}:{bad}", f"{ss.module.rel}:{n.lineno}", "completion-ordered collection of step results")
        if loops:
            loop = loops[0]
            # first error guarded by 'none recorded yet'
            assigns = [n for n in cfg.nodes if n.kind == "stmt" and isinstance(n.ast, ast.Assign) and contains(loop.ast, n.ast) and any(isinstance(t, ast.Name) and "error" in t.id for t in n.ast.targets)]
            ok = bool(assigns)
            for a in assigns:
                g = enclosing(a.ast, (ast.If,))
                nm = a.ast.targets[0].id
                if g is None or src(g.test) != f"{nm} is None":
                    ok = False
            # ... and that is its only source: outside the result loop the recorded error is only ever initialised to None
            # (an error taken from a list filled as nodes *complete* — or as observers let them — follows timing)
            err_names = {a.ast.targets[0].id for a in assigns}
            for d_ in [x for x in walk_local(ss.node) if isinstance(x, (ast.Assign, ast.AnnAssign)) and not contains(loop.ast, x)]:
                t_ = d_.targets[0] if isinstance(d_, ast.Assign) else d_.target
                if isinstance(t_, ast.Name) and t_.id in err_names and not (d_.value is None or isinstance(d_.value, ast.Constant) and d_.value.value is None):
                    ok = False
            rep.add(rule, f"{ss.qname}:first-error-wins", ok, f"{ss.module.rel}:{assigns[0].lineno if assigns else loop.lineno}", "recorded error = first exception in ready-list order" if ok else "the recorded error is not guarded by 'none recorded yet' (last or arbitrary failure wins)")
            # all raises after the loop
            dom = dominators(cfg.entry)
            raises = [n for n in cfg.nodes if n.kind == "stmt" and isinstance(n.ast, ast.Raise) and n in dom and not contains(loop.ast, n.ast) and n.lineno > loop.lineno]
            inside = [n for n in cfg.nodes if n.kind == "stmt" and isinstance(n.ast, (ast.Raise, ast.Break, ast.Return)) and contains(loop.ast, n.ast)]
            ok = bool(raises) and all(loop in dom[r] for r in raises) and not inside
            rep.add(rule, f"{ss.qname}:apply-before-raise", ok, f"{ss.module.rel}:{loop.lineno}", "every successful result is applied before the error is raised" if ok else "the error can be raised before all successful results were applied")

    # a failing map reports the first failing item in input order under both runners and every schedule


def run(ctx) -> None:
    db, rep = ctx.db, ctx.rep
    E = Effects(db)
    rep.rule("C02.R1", "the pre-step snapshot is read-only in the superstep and all callees; inputs and versions are read from it", floor=6)
    rep.rule("C02.R2", "writes go to snapshot.copy(); GraphState.copy gives every field a fresh container", floor=6)
    rep.rule("C02.R3", "the concurrently gathered coroutine writes the shared copy only at routing_decisions[<own node>]", floor=2)
    rep.rule("C02.R4", "tasks and result application follow ready-list order; first error in order; successes applied before raising", floor=5)
    rep.rule("C02.R5", "sync/async siblings agree on actions, keywords, validation order and result-materialisation guard", floor=8)
    rep.rule("C02.R6", "scheduling is a pure function of graph and state", floor=4)

    collect = db.func("runners._shared.helpers.collect_inputs_for_node")
    gstate = db.cls("runners._shared.types.GraphState")
    sss = superstep_funcs(db)

    # ---- R1 / R2 ---------------------------------------------------------------
    for ss in sss:
        snap = None
        for p in ss.param_names:
            t = db.ann_to_ty(ss.param_annotation(p), ss.module, ss)
            if t is not None and gstate in t.classes():
                snap = p
        if snap is None:
            raise AnalysisError(f"{ss.qname}: snapshot parameter (GraphState) not found")
        ws = E.writes(ss, snap, include_unknown=True)
        rep.add("C02.R1", f"{ss.qname}:snapshot-readonly", not ws, ss.loc(), f"snapshot '{snap}' has an empty write/mutation effect over the superstep and all resolved callees" if not ws else f"snapshot '{snap}' is written: {fmt_effect(ws[0])}")
        # reads from the snapshot
        for f in _with_closures(ss):
            env = E.env(f)
            for c in db.calls_in(f):
                cals = db.resolve_call(c, f)
                if any(cal.func == collect for cal in cals):
                    a = bind_args(c, collect).get("state")
                    ps = E.paths(a, env) if a is not None else set()
                    ok = bool(ps) and all(r in (snap, f"free:{snap}") and p == () for r, p in ps)
                    rep.add("C02.R1", f"{f.qname}:inputs-from-snapshot", ok, f"{f.module.rel}:{c.lineno}", "inputs are collected from the pre-step snapshot" if ok else f"inputs are collected from '{src(a) if a is not None else '?'}', not from the pre-step snapshot")
                if any(cal.func is not None and cal.func.name == "get_version" and cal.func.cls == gstate for cal in cals) and isinstance(c.func, ast.Attribute):
                    ps = E.paths(c.func.value, env)
                    ok = bool(ps) and all(r in (snap, f"free:{snap}") and p == () for r, p in ps)
                    tgt = _assigned_name(c)
                    rep.add("C02.R1", f"{f.qname}:{tgt}-from-snapshot", ok, f"{f.module.rel}:{c.lineno}", f"{tgt} recorded from the pre-step snapshot" if ok else f"{tgt} read from '{src(c.func.value)}', not from the pre-step snapshot")
        # R2: written state = snapshot.copy()
        copies = []
        for n in walk_local(ss.node):
            if isinstance(n, ast.Assign) and isinstance(n.value, ast.Call) and isinstance(n.value.func, ast.Attribute) and n.value.func.attr == "copy" and isinstance(n.value.func.value, ast.Name) and n.value.func.value.id == snap:
                copies += [t.id for t in n.targets if isinstance(t, ast.Name)]
        ok = len(copies) == 1 and len(db.local_defs(ss).get(copies[0], [])) == 1
        rep.add("C02.R2", f"{ss.qname}:write-target-is-copy", ok, ss.loc(), f"'{copies[0]}' = {snap}.copy(), bound once" if ok else "the state written by the superstep is not a single binding of snapshot.copy()")
        if ok:
            cp = copies[0]
            # every state write in the superstep goes to the copy
            for f in _with_closures(ss):
                env = E.env(f)
                for n in walk_local(f.node):
                    recv = None
                    if isinstance(n, ast.Call) and isinstance(n.func, ast.Attribute) and n.func.attr == "update_value":
                        recv = n.func.value
                    elif isinstance(n, ast.Assign):
                        for t in n.targets:
                            if isinstance(t, ast.Subscript) and isinstance(t.value, ast.Attribute) and t.value.attr in ("node_executions", "values", "versions", "routing_decisions"):
                                recv = t.value.value
                    if recv is None:
                        continue
                    ps = E.paths(recv, env)
                    good = bool(ps) and all(r in (f"local:{cp}", f"free:{cp}") for r, _ in ps)
                    rep.add("C02.R2", f"{f.qname}:write-to-copy:{src(n)[:30]}", good, f"{f.module.rel}:{n.lineno}", "write goes to the copy" if good else f"state write through '{src(recv)}' does not target the copy")
    # GraphState.copy freshness
    cp = gstate.methods.get("copy")
    if cp is None:
        raise AnalysisError("GraphState.copy vanished")
    fields = [k for k in gstate.class_attrs]
    ret = [n for n in walk_local(cp.node) if isinstance(n, ast.Return)]
    ctor = ret[0].value if ret and isinstance(ret[0].value, ast.Call) else None
    kw = {k.arg: k.value for k in ctor.keywords} if ctor is not None else {}
    for fld in fields:
        v = kw.get(fld)
        ok = v is not None and _fresh(v)
        detail = "fresh container" if ok else ("field not passed to the copy (shares or resets)" if v is None else f"copy aliases the original: {src(v)[:60]}")
        if ok and fld == "node_executions":
            # dict fields inside each NodeExecution must be fresh as well
            ne = db.cls("runners._shared.types.NodeExecution")
            dict_fields = [k for k, a in ne.class_attrs.items() if "dict" in src(a)]
            inner = [c for c in ast.walk(v) if isinstance(c, ast.Call) and (dotted(c.func) in ("replace", "dataclasses.replace", "NodeExecution"))]
            if not inner:
                ok, detail = False, "NodeExecution records are shared between snapshot and copy"
            else:
                ikw = {k.arg: k.value for k in inner[0].keywords}
                missing = [d for d in dict_fields if d not in ikw or not _fresh(ikw[d])]
                if missing:
                    ok, detail = False, f"dicts {missing} inside NodeExecution are shared between snapshot and copy"
        rep.add("C02.R2", f"GraphState.copy:{fld}", ok, f"{cp.module.rel}:{cp.lineno}", detail)

    # ---- R3 -------------------------------------------------------------------
    for ss in sss:
        if not ss.is_async:
            continue
        for ch in ss.children.values():
            if not any(cal.func == collect for _, cal in db.callees(ch)):
                continue
            summ = E.summary(ch)
            for root, effs in summ.items():
                if not root.startswith("free:"):
                    continue
                name = root[5:]
                t = db._type_of_name(name, ss, ss.module)
                # only GraphState-typed shared objects matter
                is_state = t is not None and gstate in t.classes()
                if not is_state:
                    continue
                bad = [e for e in effs if e.kind in ("write", "mutate", "unknown") and e.path[:1] != ("routing_decisions",)]
                rep.add("C02.R3", f"{ch.qname}:{name}", not bad, ch.loc(), f"concurrent region writes '{name}' only at routing_decisions" if not bad else f"concurrent region writes shared state: {fmt_effect(sorted(bad, key=lambda e: e.lineno)[0])}")
    # the key of every routing_decisions store is the executing node's own name
    for f in db.funcs_in("runners"):
        for n in walk_local(f.node):
            if isinstance(n, ast.Assign):
                for t in n.targets:
                    if isinstance(t, ast.Subscript) and isinstance(t.value, ast.Attribute) and t.value.attr == "routing_decisions":
                        k = t.slice
                        ok = isinstance(k, ast.Attribute) and k.attr == "name" and isinstance(k.value, ast.Name) and k.value.id in f.param_names
                        rep.add("C02.R3", f"{f.qname}:routing-key", ok, f"{f.module.rel}:{n.lineno}", "decision stored under the executing node's own name" if ok else f"routing decision stored under '{src(k)}', not the executing node's own name")

    # ---- R4 -------------------------------------------------------------------
    check_step_results_in_ready_order(ctx, "C02.R4")
    from .c10 import check_first_failure

    check_first_failure(ctx, "C02.R4")
    # ... and which result belongs to which item never depends on the completion order or the concurrency limit
    from .c10 import check_async_map_order

    check_async_map_order(ctx, "C02.R4")

    # ---- R5 -------------------------------------------------------------------
    # premise of the 'interrupts are async only' exemptions below: the sync runner registers no executor for
    # InterruptNode (its supported node types are the registry's keys), the async runner does
    def _registers_interrupt(cls_q: str) -> bool:
        ci_ = db.cls(cls_q)
        for lit in db.registry_literals(ci_, "_executors"):
            for k in lit.keys:
                if k is not None and src(k).split(".")[-1] == "InterruptNode":
                    return True
        return False

    s_int, a_int = _registers_interrupt("runners.sync.runner.SyncRunner"), _registers_interrupt("runners.async_.runner.AsyncRunner")
    rep.add("C02.R5", "interrupts-async-only", a_int and not s_int, db.cls("runners.sync.runner.SyncRunner").loc(), "InterruptNode has an executor in the async runner only (premise of the interrupt-related one-sided extras)" if a_int and not s_int else "the sync runner registers an InterruptNode executor (or the async one does not): the interrupt-related one-sided extras of the async siblings are no longer justified")
    pairs: list[tuple[str, list[FuncInfo], list[FuncInfo]]] = []
    sync_ss = [s for s in sss if not s.is_async]
    async_ss = [s for s in sss if s.is_async]
    pairs.append(("superstep", _with_closures(sync_ss[0]), _with_closures(async_ss[0])))
    for name in ("run", "map"):
        ms = template_methods(db, name)
        s_ = [m for m in ms if not m.is_async]
        a_ = [m for m in ms if m.is_async]
        pairs.append((f"template.{name}", _with_closures(s_[0]), _with_closures(a_[0])))
    impls = execute_impl_funcs(db)
    pairs.append(("execute-loop", [f for f in impls if not f.is_async], [f for f in impls if f.is_async]))
    # executors registered for the same node class in the two registries
    regs = {}
    for impl in impls:
        for lit in db.registry_literals(impl.cls, "_executors"):
            for k, v in zip(lit.keys, lit.values):
                if isinstance(v, ast.Call):
                    sym = db.resolve_expr_symbol(v.func, impl.module, None)
                    if sym and sym[0] == "class":
                        regs.setdefault(src(k), {})[impl.is_async] = sym[1]
    for key, d in sorted(regs.items()):
        if False in d and True in d:
            fs = [m for m in d[False].methods.values() if m.name != "__init__"]
            fa = [m for m in d[True].methods.values() if m.name != "__init__"]
            # module-level helpers of the executor module belong to it
            fa += [f for f in db.all_funcs() if f.module == d[True].module and f.cls is None and f.parent is None]
            fs += [f for f in db.all_funcs() if f.module == d[False].module and f.cls is None and f.parent is None]
            pairs.append((f"executor[{key}]", fs, fa))
    for label, fs, fa in pairs:
        A, B = _actions(db, fs), _actions(db, fa)
        only_s = {k for k in A if k not in B}
        only_a = {k for k in B if k not in A and k not in ASYNC_EXTRAS and (label, k) not in LABEL_EXTRAS}
        kw_diff = {}
        for k in A:
            if k not in B:
                continue
            a_, b_ = _kwnorm(A[k]), _kwnorm(B[k])
            extra_b = {ks for ks in b_ - a_ if not (set(ks) & ASYNC_EXTRA_KEYWORDS)}
            if (a_ - b_) or extra_b:
                kw_diff[k] = (A[k], B[k])
        ok = not only_s and not only_a and not kw_diff
        msg = f"same action set ({len(A)} actions)"
        if not ok:
            parts = []
            if only_s:
                parts.append(f"only the sync sibling calls {sorted(only_s)}")
            if only_a:
                parts.append(f"only the async sibling calls {sorted(only_a)}")
            if kw_diff:
                k0 = sorted(kw_diff)[0]
                parts.append(f"keyword sets differ for {k0}: sync {sorted(kw_diff[k0][0])} vs async {sorted(kw_diff[k0][1])}")
            msg = "; ".join(parts)
        rep.add("C02.R5", f"{label}:actions", ok, f"{fs[0].module.rel}:{fs[0].lineno}", msg)
    # a failing (or pausing) run ends the same way under both runners: each sibling's handler filters the partial values
    # with the quiet default policy, so neither can replace the node's error by a policy error of its own
    from .c11 import check_handlers_filter_quietly

    check_handlers_filter_quietly(ctx, "C02.R5")
    # both graph-node executors hand the nested map the same inputs: the filter that leaves the inner graph's own bound
    # objects out is decided by identity in both (a key test in one of them drops the caller's overriding value there)
    from .c18 import check_nested_map_inputs

    check_nested_map_inputs(ctx, "C02.R5")
    # constructed raises of the execute loops happen under the same guards in both siblings
    def raise_sigs(fs: list[FuncInfo]) -> dict[tuple, int]:
        out: dict[tuple, int] = {}
        for f in fs:
            ldefs = db.local_defs(f)
            for r in walk_local(f.node):
                if not (isinstance(r, ast.Raise) and isinstance(r.exc, ast.Call)):
                    continue
                names = tuple(_norm((dotted(x.func) or "?").split(".")[-1]) for x in ast.walk(r.exc) if isinstance(x, ast.Call))
                guards = []
                for a, pol in enclosing_facts(r):
                    if isinstance(a, ast.Name) and len(ldefs.get(a.id, [])) == 1 and getattr(ldefs[a.id][0], "value", None) is not None:
                        a = ldefs[a.id][0].value
                    calls = sorted(_norm((dotted(x.func) or "?").split(".")[-1]) for x in ast.walk(a) if isinstance(x, ast.Call))
                    guards.append((",".join(calls) if calls else _norm(src(a)), pol))
                in_else = any(isinstance(p_, (ast.For, ast.AsyncFor)) and any(contains(s_, r) for s_ in p_.orelse) for p_ in ancestors(r))
                k = (names, tuple(sorted(guards)), in_else)
                out[k] = out.get(k, 0) + 1
        return out

    ra, rb = raise_sigs([f for f in impls if not f.is_async]), raise_sigs([f for f in impls if f.is_async])
    ok = ra == rb and bool(ra)
    diff = [f"{'/'.join(k[0])} under {[g for g in k[1]] or 'no guard'}{' (loop exhausted)' if k[2] else ''}: sync x{ra.get(k, 0)}, async x{rb.get(k, 0)}" for k in sorted(set(ra) | set(rb), key=str) if ra.get(k, 0) != rb.get(k, 0)]
    rep.add("C02.R5", "execute-loop:raise-guards", ok, impls[0].loc(), f"the execute loops raise the same errors under the same conditions ({sum(ra.values())} constructed raises)" if ok else f"the execute loops raise under different conditions — {'; '.join(diff)}: the same program completes under one runner and fails under the other")
    # validation order in run/map
    vnames = {"normalize_inputs", "validate_runner_compatibility", "validate_node_types", "resolve_runtime_selected", "validate_inputs", "_validate_on_missing", "_validate_error_handling", "validate_map_compatible", "generate_map_inputs"}
    for name in ("run", "map"):
        seqs = {}
        for m in template_methods(db, name):
            calls = sorted([c for c in db.calls_in(m) if call_names(db, c, m) & vnames], key=lambda c: (c.lineno, c.col_offset))
            seqs[m.is_async] = [sorted(call_names(db, c, m) & vnames)[0] for c in calls]
        ok = seqs.get(False) == seqs.get(True) and bool(seqs.get(False))
        rep.add("C02.R5", f"template.{name}:validation-order", ok, "src/hypergraph/runners/_shared/template_sync.py:1", f"same validation order: {seqs.get(False)}" if ok else f"validation order differs: sync {seqs.get(False)} vs async {seqs.get(True)} (a rejected call reports a different error)")
    # precedence pairs in both supersteps
    prec = [("collect_inputs_for_node", "check_cache"), ("check_cache", "execute_node"), ("execute_node", "store_in_cache"), ("restore_routing_decision", "update_value")]
    for ss in sss:
        fs = _with_closures(ss)
        for a, b in prec:
            okp = True
            where = ss.loc()
            found = False
            for f in fs:
                cfg = ctx.cfg(f, runner_no_raise(db))
                A = [n for n in cfg.nodes if any(a in call_names(db, c, f) or (isinstance(c.func, ast.Name) and c.func.id == a) for c in cfg.calls_at(n))]
                B = [n for n in cfg.nodes if any(b in call_names(db, c, f) or (isinstance(c.func, ast.Name) and c.func.id == b) for c in cfg.calls_at(n))]
                if A and B:
                    found = True
                    # within one node's region (loop headers cut the back edges) b must never be able to run before a
                    loops_ = [n for n in cfg.nodes if n.kind == "for"]
                    dom = dominators(cfg.entry)
                    for bn in B:
                        if bn in dom and not (dom[bn] & set(A)) and any(reaches(bn, an, avoid=loops_) for an in A):
                            okp = False
                            where = f"{f.module.rel}:{bn.lineno}"
            if not found:
                # a and b live in different functions of the sibling (async: execute_one vs superstep body): order is by construction
                rep.add("C02.R5", f"{ss.qname}:order:{a}<{b}", True, where, "steps live in caller/callee, ordered by construction")
            else:
                rep.add("C02.R5", f"{ss.qname}:order:{a}<{b}", okp, where, f"{a} precedes {b}" if okp else f"{b} can run before {a}")
    # result materialisation guard (F11)
    guards = {}
    for key, d in regs.items():
        for is_async, ci in d.items():
            for m in ci.methods.values():
                for n in walk_local(m.node):
                    if isinstance(n, ast.Assign) and any(isinstance(c, ast.Call) and dotted(c.func) == "list" for c in ast.walk(n.value)) and any(isinstance(t, ast.Name) and any(isinstance(x, ast.Name) and x.id == t.id for x in ast.walk(n.value)) for t in n.targets):
                        g = enclosing(n, (ast.If,))
                        gtxt = src(g.test) if g is not None else "<unconditional>"
                        from .common import wrapper_param

                        wp = wrapper_param(m)
                        if wp != "node":  # a private method may call its node parameter anything
                            import re as _re

                            gtxt = _re.sub(rf"\b{_re.escape(wp)}\b", "node", gtxt)
                        guards.setdefault(key, {})[is_async] = (gtxt, f"{m.module.rel}:{n.lineno}")
    for key, d in guards.items():
        ok = False in d and True in d and d[False][0] == d[True][0]
        rep.add("C02.R5", f"executor[{key}]:materialise-guard", ok, (d.get(True) or d.get(False))[1], f"both runners materialise a generator result under '{d[False][0]}'" if ok else f"runners decide differently when to materialise a result: sync '{d.get(False, ('-',))[0]}' vs async '{d.get(True, ('-',))[0]}'")

    # ---- R6 -------------------------------------------------------------------
    # node-list order: the gates controlling a node are listed in node order; activation is an existential over
    # them ("some gate routed here"), so the scan may stop only on success — stopping at the first gate with a
    # live decision makes the outcome depend on which of two disagreeing gates comes first in the node list
    from .c03 import check_any_gate_activates

    check_any_gate_activates(ctx, "C02.R6")
    # the table of bindings surfaced from nested graphs (read by plain sibling nodes) is merged in node-list order:
    # when two nested graphs bind the same input name, the merge must not let the list order pick the winner
    # (reject the conflict, iterate in a canonical order, or do not surface a contested name)
    cbv = db.func("graph.input_spec._collect_bound_values")
    order_dep = None
    for lp in [n for n in walk_local(cbv.node) if isinstance(n, ast.For)]:
        it = lp.iter
        if isinstance(it, ast.Call) and isinstance(it.func, ast.Attribute) and it.func.attr == "values" and not (isinstance(it.func.value, ast.Call)):
            stores = [x for x in ast.walk(lp) if isinstance(x, ast.Assign) and isinstance(x.targets[0], ast.Subscript)]
            rejects = [x for x in ast.walk(lp) if isinstance(x, ast.Raise)]
            if stores and not rejects:
                order_dep = lp
    rep.add("C02.R6", f"{cbv.qname}:merge-order-independent", order_dep is None, f"{cbv.module.rel}:{order_dep.lineno if order_dep else cbv.lineno}", "the merge of nested bindings cannot depend on the node-list order" if order_dep is None else "bindings of nested graphs are merged in node-list order and the first (or last) graph binding a name wins: with g1.bind(cfg='A'), g2.bind(cfg='B') and a plain sibling plain(cfg), Graph([g1, g2, plain]) gives plain 'A' and Graph([g2, g1, plain]) gives it 'B' although every output name is unique")
    from .c03 import check_ready_list_provenance

    check_ready_list_provenance(ctx, "C02.R6")
    grn = db.func("runners._shared.helpers.get_ready_nodes")
    clo = db.closure([grn], property_reads=False)
    helpers_funcs = [f for f in clo if f.module.name.endswith("runners._shared.helpers")]
    statep = "state"
    ws = [e for e in E.writes(grn, statep, include_unknown=True)]
    bad = [e for e in ws if not (e.kind == "mutate" and e.path[:1] == ("routing_decisions",) and "del " in e.detail)]
    rep.add("C02.R6", f"{grn.qname}:state-effects", not bad, grn.loc(), f"scheduler only deletes stale routing decisions ({len(ws)} effect site(s))" if not bad else f"scheduler writes the state: {fmt_effect(bad[0])}")
    impure = []
    for f in clo:
        for c in db.calls_in(f):
            d = dotted(c.func) or ""
            if d.split(".")[0] in ("time", "random", "uuid", "secrets", "os") or d in ("id", "hash"):
                impure.append((f, c, d))
    rep.add("C02.R6", f"{grn.qname}:no-clock-random", not impure, grn.loc(), f"no clock/random/uuid/id()/hash() call in the scheduler closure ({len(clo)} functions)" if not impure else f"{impure[0][0].qname} calls {impure[0][2]}")
    # set iteration must not feed list order
    set_iter_bad = []
    n_set_iters = 0
    for f in helpers_funcs:
        for n in walk_local(f.node):
            it = None
            if isinstance(n, (ast.For, ast.AsyncFor)):
                it, body = n.iter, n.body
            elif isinstance(n, ast.ListComp):
                it, body = n.generators[0].iter, None
            if it is None:
                continue
            t = db.type_of(it, f)
            if t is None or t.kind != "set":
                continue
            n_set_iters += 1
            if body is None:
                p = getattr(n, "_parent", None)
                if not (isinstance(p, ast.Call) and dotted(p.func) in ("sorted", "set", "frozenset", "any", "all", "len", "sum", "max", "min")):
                    set_iter_bad.append((f, n))
                continue
            for x in [y for s in body for y in [s] + list(walk_local(s))]:
                if isinstance(x, ast.Call) and isinstance(x.func, ast.Attribute) and x.func.attr in ("append", "extend", "insert"):
                    set_iter_bad.append((f, x))
                if isinstance(x, (ast.Yield, ast.Return)):
                    set_iter_bad.append((f, x))
    # the producer-first deferral must not depend on the position of a node in the ready list:
    # the outputs of *all* co-ready nodes are collected before the first deferral decision
    dfn = db.func("runners._shared.helpers._defer_wait_for_nodes")
    dcfg = ctx.cfg(dfn)
    ddom = dominators(dcfg.entry)
    coll = [n for n in dcfg.nodes if any(isinstance(c.func, ast.Attribute) and c.func.attr in ("update", "add") and c.args and "outputs" in src(c.args[0]) for c in dcfg.calls_at(n))]
    okd = bool(coll)
    whyd = "collection of co-ready outputs not found"
    if okd:
        cl = [enclosing(n.ast, (ast.For,)) for n in coll]
        setname = [c.func.value.id for n in coll for c in dcfg.calls_at(n) if isinstance(c.func, ast.Attribute) and c.func.attr in ("update", "add") and isinstance(c.func.value, ast.Name)][0]
        tests = [n for n in dcfg.nodes if n.ast is not None and n.kind in ("test", "stmt") and any(isinstance(c, ast.Compare) and isinstance(c.ops[0], (ast.In, ast.NotIn)) and isinstance(c.comparators[0], ast.Name) and c.comparators[0].id == setname for e in dcfg.header_exprs(n) for c in ast.walk(e))]
        okd = bool(tests) and all(l is not None for l in cl)
        if okd:
            for t in tests:
                for l in cl:
                    if contains(l, t.ast):
                        okd, whyd = False, "wait_for names are compared with the outputs collected *so far* in the same pass: whether a waiter is deferred depends on whether its producer precedes it in the node list"
                    else:
                        ln = dcfg.nodes_for(l)
                        if not ln or not any(x in ddom.get(t, set()) for x in ln):
                            okd, whyd = False, "a deferral decision can be taken before the co-ready outputs were collected"
        if okd:
            whyd = "outputs of all co-ready nodes are collected before any deferral decision (independent of node-list order)"
    rep.add("C02.R6", f"{dfn.qname}:order-independent", okd, dfn.loc(), whyd)
    rep.add("C02.R6", "helpers:set-iteration", not set_iter_bad, grn.loc(), f"{n_set_iters} set iteration(s) in the scheduler, none feeds a list/return order" if not set_iter_bad else f"{set_iter_bad[0][0].qname}:{set_iter_bad[0][1].lineno} builds an ordered result while iterating a set")



def check_versions_from_snapshot(ctx, rule: str) -> None:
    """Consumed input / wait_for versions are read from the pre-step snapshot in both supersteps."""
    db, rep = ctx.db, ctx.rep
    E = Effects(db)
    gstate = db.cls("runners._shared.types.GraphState")
    for ss in superstep_funcs(db):
        snap = None
        for p_ in ss.param_names:
            t = db.ann_to_ty(ss.param_annotation(p_), ss.module, ss)
            if t is not None and gstate in t.classes():
                snap = p_
        if snap is None:
            raise AnalysisError(f"{ss.qname}: snapshot parameter (GraphState) not found")
        found = 0
        for f in _with_closures(ss):
            env = E.env(f)
            for c in db.calls_in(f):
                cals = db.resolve_call(c, f)
                if any(cal.func is not None and cal.func.name == "get_version" and cal.func.cls == gstate for cal in cals) and isinstance(c.func, ast.Attribute):
                    found += 1
                    ps = E.paths(c.func.value, env)
                    ok = bool(ps) and all(r in (snap, f"free:{snap}") and p2 == () for r, p2 in ps)
                    tgt = _assigned_name(c)
                    rep.add(rule, f"{f.qname}:{tgt}-from-snapshot", ok, f"{f.module.rel}:{c.lineno}", f"{tgt} recorded from the pre-step snapshot" if ok else f"{tgt} read from '{src(c.func.value)}', not from the pre-step snapshot: a node records a fresher version than the value it actually consumed and is never re-run with the upstream value")
        if found < 2:
            rep.bad(rule, f"{ss.qname}:versions-recorded", ss.loc(), "consumed versions are no longer recorded from GraphState.get_version")


def _kwnorm(kwsets: set[tuple]) -> set[tuple]:
    drop = {"max_concurrency"}
    return {tuple(k for k in ks if k not in drop) for ks in kwsets}


def _fresh(v: ast.AST) -> bool:
    if isinstance(v, (ast.Dict, ast.List, ast.Set, ast.DictComp, ast.ListComp, ast.SetComp)):
        return True
    if isinstance(v, ast.Call) and dotted(v.func) in ("dict", "list", "set", "copy.copy", "copy.deepcopy", "deepcopy"):
        return True
    if isinstance(v, ast.Call) and isinstance(v.func, ast.Attribute) and v.func.attr == "copy":
        return True
    return False


def _assigned_name(c: ast.AST) -> str:
    from sa.db import ancestors

    for a in ancestors(c):
        if isinstance(a, ast.Assign) and isinstance(a.targets[0], ast.Name):
            return a.targets[0].id
        if isinstance(a, ast.stmt):
            break
    return "versions"


SS = "src/hypergraph/runners/sync/superstep.py"
AS = "src/hypergraph/runners/async_/superstep.py"
TY = "src/hypergraph/runners/_shared/types.py"
HP = "src/hypergraph/runners/_shared/helpers.py"
TA = "src/hypergraph/runners/_shared/template_async.py"
VARIANTS = [
    Variant("sync-inputs-from-copy", SS, replace_once("inputs = collect_inputs_for_node(node, graph, state, provided_values)", "inputs = collect_inputs_for_node(node, graph, new_state, provided_values)"), {"C02.R1"}),
    Variant("async-versions-from-copy", AS, replace_once("input_versions = {param: state.get_version(param) for param in node.inputs}", "input_versions = {param: new_state.get_version(param) for param in node.inputs}"), {"C02.R1"}),
    Variant("sync-waitfor-from-copy", SS, replace_once("wait_for_versions = {name: state.get_version(name) for name in node.wait_for}", "wait_for_versions = {name: new_state.get_version(name) for name in node.wait_for}"), {"C02.R1"}),
    Variant("sync-write-snapshot", SS, replace_once("            new_state.update_value(name, value)", "            state.update_value(name, value)"), {"C02.R1", "C02.R2"}),
    Variant("copy-shares-values", TY, replace_once("            values=dict(self.values),", "            values=self.values,"), {"C02.R2"}),
    Variant("copy-shares-node-exec-dicts", TY, replace_once("                    outputs=dict(v.outputs),\n", ""), {"C02.R2"}),
    Variant("copy-drops-routing", TY, sub_first(r"\n            routing_decisions=dict\(self\.routing_decisions\),", ""), {"C02.R2"}),
    Variant("async-update-inside-execute-one", AS, replace_once("            return node, outputs, input_versions, wait_for_versions\n        except Exception:", "            for _n, _v in outputs.items():\n                new_state.update_value(_n, _v)\n            return node, outputs, input_versions, wait_for_versions\n        except Exception:"), {"C02.R3"}),
    Variant("async-as-completed", AS, replace_once("    results = await asyncio.gather(*tasks, return_exceptions=True)", "    results = []\n    for fut in asyncio.as_completed(tasks):\n        try:\n            results.append(await fut)\n        except BaseException as exc:\n            results.append(exc)"), {"C02.R4"}),
    Variant("async-last-error-wins", AS, replace_once("            if first_error is None:\n                first_error = result\n            continue", "            first_error = result\n            continue"), {"C02.R4"}),
    Variant("async-raise-inside-apply-loop", AS, replace_once("            if first_error is None:\n                first_error = result\n            continue", "            if first_error is None:\n                first_error = result\n            break"), {"C02.R4"}),
    Variant("async-tasks-sorted-by-name", AS, replace_once("tasks = [execute_one(node) for node in ready_nodes]", "tasks = [execute_one(node) for node in sorted(ready_nodes, key=lambda n: n.name)]"), {"C02.R4"}),
    Variant("async-run-validates-other-order", TA, sub_first(r"(        validate_runner_compatibility\(graph, self\.capabilities\)\n        validate_node_types\(graph, self\.supported_node_types\)\n)(        effective_selected = resolve_runtime_selected\(select, graph\)\n        validate_inputs\(\n            graph,\n            normalized_values,\n            entrypoint=entrypoint,\n            selected=effective_selected,\n            on_internal_override=on_internal_override,\n        \)\n)", r"\2\1"), {"C02.R5"}),
    Variant("async-executor-materialise-by-type", "src/hypergraph/runners/async_/executors/function_node.py", replace_once("        if node.is_generator:\n            result = [item async for item in result] if inspect.isasyncgen(result) else list(result)", "        if inspect.isasyncgen(result):\n            result = [item async for item in result]\n        elif inspect.isgenerator(result):\n            result = list(result)"), {"C02.R5"}),
    Variant("async-superstep-skips-store", AS, replace_once("            if cache is not None and cache_key:\n                store_in_cache(node, outputs, new_state, cache, cache_key)\n\n            if active:\n                route_evt = build_route_decision_event(run_id, run_span_id, node, graph, new_state)\n                if route_evt is not None:\n                    await dispatcher.emit_async(route_evt)\n                await dispatcher.emit_async(build_node_end_event(run_id, node_span_id, run_span_id, node, graph, duration_ms))", "            if active:\n                route_evt = build_route_decision_event(run_id, run_span_id, node, graph, new_state)\n                if route_evt is not None:\n                    await dispatcher.emit_async(route_evt)\n                await dispatcher.emit_async(build_node_end_event(run_id, node_span_id, run_span_id, node, graph, duration_ms))"), {"C02.R5"}),
    Variant("deferral-single-pass", HP, replace_once("    for node in ready:\n        ready_outputs.update(node.outputs)\n\n    # Defer nodes whose wait_for includes an output from a co-ready node\n    deferred: set[str] = set()\n    for node in ready:\n        if not node.wait_for:\n            continue\n", "    deferred: set[str] = set()\n    for node in ready:\n        ready_outputs.update(node.outputs)\n        if not node.wait_for:\n            continue\n"), {"C02.R6"}),
    Variant("scheduler-ready-from-set", HP, replace_once("            ready = [n for n in ready if n.name not in blocked_targets]", "            ready = [graph._nodes[nm] for nm in {n.name for n in ready} - blocked_targets]"), {"C02.R6"}),
    Variant("scheduler-writes-values", HP, replace_once("    activated = set()\n\n    # Use cached map", "    activated = set()\n    state.values.pop(\"__scratch__\", None)\n\n    # Use cached map"), {"C02.R6", "C02.R1"}),
    Variant("twin-extract-apply-helper", AS, replace_once("        node, outputs, input_versions, wait_for_versions = result\n        for name, value in outputs.items():\n            new_state.update_value(name, value)\n", "        node, outputs, input_versions, wait_for_versions = result\n        _apply_outputs(new_state, outputs)\n") and (lambda s: s.replace("        node, outputs, input_versions, wait_for_versions = result\n        for name, value in outputs.items():\n            new_state.update_value(name, value)\n", "        node, outputs, input_versions, wait_for_versions = result\n        _apply_outputs(new_state, outputs)\n").replace("async def run_superstep_async(", "def _apply_outputs(target: GraphState, outputs: dict[str, Any]) -> None:\n    for name, value in outputs.items():\n        target.update_value(name, value)\n\n\nasync def run_superstep_async(")), set()),
    Variant("twin-rename-snapshot-local", SS, lambda s: s.replace("new_state", "next_state"), set()),
]

"""C19 Structural mistakes are rejected at graph construction, wherever they occur."""

from __future__ import annotations

import ast

from sa.cfg import all_paths_pass, both, dominators, reachable, reaches, specialize, test_atoms
from sa.db import AnalysisError, FuncInfo, ancestors, bind_args, dotted, src, walk_local
from sa.model import contains, enclosing
from sa.variants import Variant, chain, replace_once, sub_first, sub_once

from .c07 import check_cache_invalidation
from .common import must_reach_in_iteration  # noqa: E402
from .common import call_names, enclosing_facts, is_none_fact, vars_from_call

ID = "C19"
EXPLANATION = (
    "Decides wiring and error discipline of construction-time validation, which is independent of where in a graph the flaw sits: (R1) every "
    "_validate_* function of graph/validation.py is called from validate_graph (_validate_types iff strict_types), and Graph.__init__ reaches "
    "_build_nodes_dict, _normalize_edges (when edges are given), validate_output_conflicts (both build branches) and _validate on every normal "
    "exit; (R2) every raise in the graph-construction modules reachable from the constructor raises GraphConfigError; (R3) code that runs before "
    "_validate_gate_targets dereferences a gate target in a graph query only under a membership guard, so an unknown target is reported by the "
    "validator and not as a raw library error; (R4) _nodes/_nx_graph are bound only in __init__ (no other path builds an unvalidated graph); "
    "(R5) the per-node metadata the validators read (defaults, annotations) cannot be stale: cached views are invalidated by renames, through "
    "the MRO; (R6) strict type validation visits every value of every data edge, rejects a missing annotation on either side and asks "
    "is_type_compatible(output type, input type) in that argument order; (R7) the shared-output check compares every unordered pair of producers "
    "(the 'ordered' relation is not transitive). (R8) gate-kind exhaustiveness: wherever a concrete gate class is tested with isinstance, the classes tested for that variable cover every concrete gate kind or the variable is then used through an attribute only the tested class declares — a validator narrowed from GateNode to one kind silently skips the others. (R9) the Union rule of strict type checking calls get_args on a type only on paths where that type is known to be a Union (a parameterised generic is never split into its type arguments), and the generic rule answers 'compatible' after taking both sides' type arguments only for an unparameterised side or by the pairwise comparison. (R10) no validator narrows a check to data outputs (emit names are outputs too)."
    " R6 also requires that no (edge, value) pair is skipped (each iteration of the loop chain edges > values > producers reaches the next loop, the innermost one the compatibility question or a rejection, evaluated for a value-carrying data edge), that only data edges are typed (no rejection reachable for an ordering or control edge, or such edges name no value), and that the producer side ranges over every node producing the value name whenever data edges are drawn from the first producer of a shared name only."
    " R1 also requires that nested-graph node names reach a check of their own on the branch that skips the identifier test, and that both endpoints of every recorded explicit edge are looked up in the node table whatever their spelling; R7 also requires that a producer listed twice for one name is rejected (a node is neither exclusive with nor ordered after itself)."
    " R7 also requires that the up-front duplicate rejection covers a sole producer listing a name twice and that nothing the pair tests use is carried from one shared name to the next."
    " R7 also requires that 'exclusive to a branch' means reachable from exactly one target of the gate (count == 1 over all targets' reachable sets, or the difference with the union of the others), and that on the inferred-edges path branch membership is computed on a graph built from the complete edge map (the structure graph has data edges from the first producer of a shared name only)."
)
NOT_DECIDED = "The type-compatibility relation itself (a function over type objects) and the correctness of each individual validator's predicate; position independence is argued from the wiring, not tested."

GRAPH_MODULES = ("hypergraph.graph.core", "hypergraph.graph.validation", "hypergraph.graph._conflict", "hypergraph.graph._helpers", "hypergraph.graph.input_spec")
NX_QUERIES = {"descendants", "ancestors", "has_path", "successors", "predecessors", "shortest_path", "neighbors", "out_edges", "in_edges", "subgraph"}
ALLOWED_RAISES = {
    "hypergraph.graph.core.Graph.bind": "bind() is a derivation API, not construction (ValueError by contract)",
    "hypergraph.graph.core.Graph.select": "select() is a derivation API (ValueError by contract)",
    "hypergraph.graph.core.Graph.add_nodes": "replaying bind after add_nodes (ValueError by contract)",
}


def run(ctx) -> None:
    db, rep = ctx.db, ctx.rep
    rep.rule("C19.R1", "every validator is wired into the constructor on every path", floor=14)
    rep.rule("C19.R2", "construction raises GraphConfigError only", floor=10)
    rep.rule("C19.R3", "no unguarded dereference of gate targets before their validation", floor=3)
    rep.rule("C19.R4", "_nodes/_nx_graph are bound only by the validated constructor", floor=2)
    rep.rule("C19.R5", "node metadata read by validators cannot be stale after renames", floor=1)
    rep.rule("C19.R6", "strict type validation covers every value of every data edge", floor=3)
    rep.rule("C19.R7", "the shared-output check examines every unordered pair of producers", floor=2)
    rep.rule("C19.R11", "whether a parameter has a default / binding is decided by the has_* predicates or membership, never by comparing the value with None (None is a legitimate default)", floor=20)
    rep.rule("C19.R10", "validators quantify over all outputs of a node (emit names included): none narrows to data outputs", floor=12)
    rep.rule("C19.R9", "the Union rule of strict type checking decomposes a type into members only when that type is known to be a Union", floor=3)
    rep.rule("C19.R8", "gate-kind exhaustiveness: a test for one concrete gate class is either completed by its siblings or goes on to use something only that class has", floor=6)

    vg = db.func("graph.validation.validate_graph")
    vmod = vg.module
    g = db.cls("graph.core.Graph")
    init = g.methods["__init__"]

    # ---- R1 ---------------------------------------------------------------------
    called = {}
    for c in db.calls_in(vg):
        for cal in db.resolve_call(c, vg):
            if cal.func is not None:
                called[cal.func.qname] = c
    validators = [f for f in db.all_funcs() if f.module == vmod and f.parent is None and f.cls is None and f.name.startswith("_validate_")]
    if len(validators) < 10:
        raise AnalysisError(f"only {len(validators)} validators found")
    vcfg = ctx.cfg(vg)
    for f in validators:
        c = called.get(f.qname)
        ok = c is not None
        why = "called from validate_graph"
        if ok:
            gi = enclosing(c, (ast.If,))
            if f.name == "_validate_types":
                ok = gi is not None and src(gi.test) == "strict_types"
                why = "called iff strict_types" if ok else "type validation is not guarded by exactly 'strict_types'"
            else:
                ok = gi is None and enclosing(c, (ast.Try, ast.For, ast.While)) is None
                why = "called unconditionally from validate_graph" if ok else "validator call is conditional"
            # reached on every normal path: no early return before it
            ns = vcfg.node_containing(c)
            if ok and f.name != "_validate_types" and ns and not all_paths_pass(vcfg.entry, vcfg.exit_return, ns):
                ok, why = False, "validate_graph can return before this validator ran"
        else:
            why = "validator is orphaned: never called from validate_graph (the flaw it detects is accepted)"
        rep.add("C19.R1", f"validate_graph->{f.name}", ok, f.loc(), why)
    icfg = ctx.cfg(init)
    need = {"_build_nodes_dict": None, "_build_graph": None, "_validate": None}
    for n in icfg.nodes:
        for c in icfg.calls_at(n):
            for k in need:
                if k in call_names(db, c, init):
                    need[k] = n
    for k, n in need.items():
        ok = n is not None and all_paths_pass(icfg.entry, icfg.exit_return, [n])
        rep.add("C19.R1", f"Graph.__init__->{k}", ok, init.loc(), f"every normal exit of the constructor passes {k}()" if ok else f"the constructor can complete without {k}()")
    # _normalize_edges when edges given
    ne = [n for n in walk_local(init.node) if isinstance(n, ast.Assign) and isinstance(n.value, ast.IfExp) and "_normalize_edges" in src(n.value.body) and src(n.value.test) == "edges is not None"]
    # ... and inside it every endpoint, however it is spelled (a name or a node object), is looked up in the graph's
    # node table on every path that records the edge: a probe of self._nodes evaluated unconditionally (not only in the
    # 'it is a string' arm of a conditional expression) for the source and for the target
    nef = db.cls("graph.core.Graph").methods.get("_normalize_edges")
    if nef is None:
        raise AnalysisError("Graph._normalize_edges vanished")
    ncfg_ = ctx.cfg(nef)
    appends = [n for n in ncfg_.nodes if any(isinstance(c.func, ast.Attribute) and c.func.attr == "append" for c in ncfg_.calls_at(n))]
    loops_ = [n for n in ncfg_.nodes if n.kind == "for"]

    def _unconditional(x: ast.AST, root: ast.AST) -> bool:
        from sa.db import ancestors as _anc

        for a_ in _anc(x):
            if a_ is root:
                break
            if isinstance(a_, ast.IfExp) and not contains(a_.test, x):
                return False
            if isinstance(a_, ast.BoolOp) and a_.values and not contains(a_.values[0], x):
                return False
        return True

    probes = []
    for n in ncfg_.nodes:
        if n.ast is None or n.kind not in ("stmt", "test"):
            continue
        hit = None
        for x in ast.walk(n.ast):
            is_tbl = lambda e: isinstance(e, ast.Attribute) and e.attr == "_nodes"
            if isinstance(x, ast.Compare) and len(x.ops) == 1 and isinstance(x.ops[0], (ast.In, ast.NotIn)) and is_tbl(x.comparators[0]):
                hit = x
            elif isinstance(x, ast.Call) and isinstance(x.func, ast.Attribute) and x.func.attr == "get" and is_tbl(x.func.value):
                hit = x
            elif isinstance(x, ast.Subscript) and is_tbl(x.value) and isinstance(x.ctx, ast.Load):
                hit = x
            if hit is not None and _unconditional(hit, n.ast):
                probes.append(n)
                break
            hit = None
    ok_ep = bool(appends) and bool(loops_) and len(probes) >= 2
    if ok_ep:
        start_ = [t for t, l, _ in loops_[0].succ if l == "T"][0]
        on_all = [p_ for p_ in probes if all(all_paths_pass(start_, ap, [p_], lambda a, b, l, i: l != "exc") for ap in appends)]
        ok_ep = len(on_all) >= 2
    rep.add("C19.R1", "Graph._normalize_edges:endpoints-looked-up", ok_ep, nef.loc(), "both endpoints of every recorded edge are looked up in the node table, whatever their spelling" if ok_ep else "an edge can be recorded without both endpoints having been looked up in the graph's node table on that path (e.g. a node *object* that is not in the graph is taken at its word): the edge names an unknown node, networkx creates a phantom node and the real consumer silently loses its edge")
    rep.add("C19.R1", "Graph.__init__->_normalize_edges", len(ne) == 1, init.loc(), "explicit edges are normalised (and validated) whenever they are given" if ne else "explicit edges are not passed through _normalize_edges whenever given")
    # _validate -> validate_graph with the graph's own data
    v = g.methods["_validate"]
    ok = any("validate_graph" in call_names(db, c, v) and [src(a) for a in c.args] == ["self._nodes", "self._nx_graph", "self.name", "self._strict_types"] for c in db.calls_in(v))
    rep.add("C19.R1", "Graph._validate->validate_graph", ok, v.loc(), "validate_graph receives the graph's own nodes, nx graph, name and strict flag" if ok else "_validate does not hand the graph's own data to validate_graph")
    bg = g.methods["_build_graph"]
    bcfg = ctx.cfg(bg)
    voc = [n for n in bcfg.nodes if any("validate_output_conflicts" in call_names(db, c, bg) for c in bcfg.calls_at(n))]
    ok = bool(voc) and all_paths_pass(bcfg.entry, bcfg.exit_return, voc)
    rep.add("C19.R1", "Graph._build_graph->validate_output_conflicts", ok, bg.loc(), "both build branches validate output conflicts" if ok else "a build branch skips validate_output_conflicts")
    # explicit flag passed in the explicit branch
    for n in voc:
        c = [c for c in bcfg.calls_at(n) if "validate_output_conflicts" in call_names(db, c, bg)][0]
        # the branch (either polarity) in which `<x>._explicit_edges` is known not to be None
        in_explicit = False
        for atom, pol in enclosing_facts(c):
            e = is_none_fact(atom, not pol)
            if e is not None and src(e).endswith("_explicit_edges"):
                in_explicit = True
        kw = {k.arg: k.value for k in c.keywords}
        flag = isinstance(kw.get("explicit_edges"), ast.Constant) and kw["explicit_edges"].value is True
        ok = in_explicit == flag
        rep.add("C19.R1", f"Graph._build_graph:explicit-flag@{'explicit' if in_explicit else 'inferred'}", ok, f"{bg.module.rel}:{c.lineno}", "conflict validation is told which edge mode it checks" if ok else "conflict validation is called with the wrong edge mode")

    # every node kind has its name validated: the identifier check leaves nested-graph nodes out (their names may
    # contain hyphens), so on that branch the name must reach a check of its own — with_name() re-checks nothing, and
    # a '/' or '.' in a graph-node name breaks the path-qualified addressing (results['sub.output'], 'outer/inner')
    vvi = db.func("graph.validation._validate_valid_identifiers")
    vcfg_ = ctx.cfg(vvi)
    vloops = [n for n in vcfg_.nodes if n.kind == "for"]
    ok_gn, why_gn = False, "the name loop was not recognised"
    if vloops and isinstance(vloops[0].ast.target, ast.Name):
        lv = vloops[0].ast.target.id
        gn_atoms = {src(a): True for t in vcfg_.nodes if t.kind == "test" and t.ast is not None for a in test_atoms(t.ast) if isinstance(a, ast.Call) and dotted(a.func) == "isinstance" and "GraphNode" in src(a)}
        start_ = [t for t, l, _ in vloops[0].succ if l == "T"]
        live_ = reachable(start_[0], both(specialize(gn_atoms, vcfg_), lambda a, b, l, i: a is not vloops[0])) if start_ and gn_atoms else set()
        checked = False
        for n in live_:
            if n.kind == "test" and n.ast is not None and f"{lv}.name" in src(n.ast):
                checked = True
            for c in vcfg_.calls_at(n):
                if any(src(a) == f"{lv}.name" for a in c.args):
                    for cal in db.resolve_call(c, vvi):
                        if cal.func is not None and any(isinstance(x, ast.Raise) for x in walk_local(cal.func.node)):
                            checked = True
        ok_gn = checked or not gn_atoms
        why_gn = "a nested-graph node's name is checked on its own branch (or takes the common identifier check)" if ok_gn else "nested-graph nodes are skipped by the name validation without any check of their own: inner.as_node().with_name('a/b') enters a graph although the GraphNode constructor rejects that name"
    rep.add("C19.R1", f"{vvi.qname}:graph-node-names-checked", ok_gn, vvi.loc(), why_gn)
    # ... and its output names (renamable with with_outputs) reach the same per-output check as every other node's
    out_loops = [n for n in vcfg_.nodes if n.kind == "for" and isinstance(n.ast.iter, ast.Attribute) and n.ast.iter.attr == "outputs"]
    ok_go = bool(vloops) and bool(out_loops) and bool(gn_atoms) and must_reach_in_iteration(vcfg_, vloops[0], out_loops, gn_atoms)
    rep.add("C19.R1", f"{vvi.qname}:graph-node-outputs-checked", ok_go or not gn_atoms, vvi.loc(), "a nested-graph node's output names pass the per-output identifier check" if ok_go or not gn_atoms else "nested-graph nodes leave the name validation before their output names are checked: inner.as_node().with_outputs(y='not-valid') is accepted although the same rename on a function node is rejected")

    # ---- R2 ---------------------------------------------------------------------
    clo = db.closure([init], property_reads=True, stop=lambda f: f.module.name not in GRAPH_MODULES)
    gce = db.cls("graph.validation.GraphConfigError")
    n_r = 0
    for f in sorted(clo, key=lambda f: f.qname):
        if f.module.name not in GRAPH_MODULES or f.qname in ALLOWED_RAISES:
            continue
        for n in walk_local(f.node):
            if not isinstance(n, ast.Raise):
                continue
            n_r += 1
            if n.exc is None:
                rep.ok("C19.R2", f"{f.qname}:raise#{n_r}", f"{f.module.rel}:{n.lineno}", "re-raise")
                continue
            t = n.exc.func if isinstance(n.exc, ast.Call) else n.exc
            sym = db.resolve_expr_symbol(t, f.module, f)
            ok = sym is not None and sym[0] == "class" and sym[1].is_subclass_of(gce)
            rep.add("C19.R2", f"{f.qname}:raise {src(t)}#{_ri(f, n)}", ok, f"{f.module.rel}:{n.lineno}", "raises GraphConfigError" if ok else f"a structural mistake is reported as {src(t)}, not as a configuration error")
    if n_r < 10:
        raise AnalysisError(f"only {n_r} raise statements found in the constructor's closure")

    # ---- R3 ---------------------------------------------------------------------
    pre = db.closure([bg], property_reads=False, stop=lambda f: f.module.name not in GRAPH_MODULES)
    pre = [f for f in pre if f.module.name in GRAPH_MODULES]
    tainted_params: dict[str, set[str]] = {}
    n_sites = 0

    def guard_for(f: FuncInfo, node: ast.AST, name: str) -> bool:
        """Is ``node`` under a membership guard on ``name``?"""
        prev = node
        for a in ancestors(node):
            tests = []
            if isinstance(a, (ast.If, ast.IfExp)):
                in_true = contains(a.body, prev) if isinstance(a, ast.IfExp) else any(contains(s, prev) for s in a.body)
                if in_true:
                    tests.append(a.test)
            if isinstance(a, (ast.ListComp, ast.SetComp, ast.GeneratorExp, ast.DictComp)):
                for gen in a.generators:
                    tests += gen.ifs
            for t in tests:
                for c in ast.walk(t):
                    if isinstance(c, ast.Compare) and isinstance(c.ops[0], ast.In) and isinstance(c.left, ast.Name) and c.left.id == name:
                        return True
            # `if target not in G: continue` earlier in the same loop body
            if isinstance(a, (ast.For,)):
                for s in a.body:
                    if isinstance(s, ast.If) and s.lineno < getattr(node, "lineno", 0) and any(isinstance(c, ast.Compare) and isinstance(c.ops[0], ast.NotIn) and isinstance(c.left, ast.Name) and c.left.id == name for c in ast.walk(s.test)) and any(isinstance(x, (ast.Continue, ast.Return, ast.Raise)) for x in s.body):
                        return True
            if isinstance(a, (ast.FunctionDef, ast.AsyncFunctionDef)):
                break
            prev = a
        return False

    for rnd in range(2):
        for f in pre:
            tainted: dict[str, ast.AST] = {}
            for p in tainted_params.get(f.qname, set()):
                tainted[p] = f.node
            for n in walk_local(f.node):
                if isinstance(n, (ast.For, ast.comprehension)) and isinstance(n.iter, ast.Attribute) and n.iter.attr == "targets" and isinstance(n.target, ast.Name):
                    tainted[n.target.id] = n
                if isinstance(n, (ast.For, ast.comprehension)) and isinstance(n.iter, ast.Name) and n.iter.id in tainted and isinstance(n.target, ast.Name):
                    # iterating a tainted collection
                    tainted[n.target.id] = n
                if isinstance(n, ast.Assign) and isinstance(n.value, ast.ListComp) and isinstance(n.value.generators[0].iter, ast.Attribute) and n.value.generators[0].iter.attr == "targets":
                    gen = n.value.generators[0]
                    sanit = any(isinstance(c, ast.Compare) and isinstance(c.ops[0], ast.In) and isinstance(c.left, ast.Name) and isinstance(gen.target, ast.Name) and c.left.id == gen.target.id and (src(c.comparators[0]) in ("nodes", "self._nodes", "node_names") or src(c.comparators[0]).split(".")[0] in _nx_vars(f) and src(c.comparators[0]).count(".") <= 1) for t in gen.ifs for c in ast.walk(t))
                    if not sanit:
                        for t in n.targets:
                            if isinstance(t, ast.Name):
                                tainted[t.id] = n
                    elif rnd == 1:
                        rep.ok("C19.R3", f"{f.qname}:targets-filtered", f"{f.module.rel}:{n.lineno}", "gate targets are restricted to existing nodes before they are used in graph queries")
            for c in db.calls_in(f):
                d = dotted(c.func) or ""
                short = d.split(".")[-1]
                if short in NX_QUERIES and (d.startswith("nx.") or d.split(".")[0] in _nx_vars(f)):
                    for a in c.args:
                        if isinstance(a, ast.Name) and a.id in tainted:
                            if rnd == 1:
                                n_sites += 1
                                ok = guard_for(f, c, a.id)
                                rep.add("C19.R3", f"{f.qname}:{d}({a.id})", ok, f"{f.module.rel}:{c.lineno}", "gate target is dereferenced only under a membership guard" if ok else f"{d}() is called with a gate target that has not been checked to be a node: an unknown target raises a raw networkx error instead of GraphConfigError")
                # pass tainted on to package callees
                for cal in db.resolve_call(c, f):
                    if cal.func is None or cal.func not in pre:
                        continue
                    for pname, a in bind_args(c, cal.func).items():
                        if isinstance(a, ast.Name) and a.id in tainted and not guard_for(f, c, a.id):
                            tainted_params.setdefault(cal.func.qname, set()).add(pname)
            # subscript G[t] / G.nodes[t]
            if rnd == 1:
                for n in walk_local(f.node):
                    if isinstance(n, ast.Subscript) and isinstance(n.slice, ast.Name) and n.slice.id in tainted and src(n.value).split(".")[0] in _nx_vars(f) and (src(n.value).count(".") == 0 or src(n.value).split(".")[-1] in ("nodes", "adj", "succ", "pred")):
                        n_sites += 1
                        ok = guard_for(f, n, n.slice.id)
                        rep.add("C19.R3", f"{f.qname}:{src(n.value)}[{n.slice.id}]", ok, f"{f.module.rel}:{n.lineno}", "guarded subscript" if ok else "graph subscript with an unchecked gate target")
                # G.has_edge(node.name, target) / add_edge with target: allowed only under guard as well
                for c in db.calls_in(f):
                    d = dotted(c.func) or ""
                    if d.split(".")[-1] == "add_edge" and d.split(".")[0] in _nx_vars(f) and any(isinstance(a, ast.Name) and a.id in tainted for a in c.args):
                        a = [a for a in c.args if isinstance(a, ast.Name) and a.id in tainted][0]
                        n_sites += 1
                        ok = guard_for(f, c, a.id)
                        rep.add("C19.R3", f"{f.qname}:G.add_edge({a.id})", ok, f"{f.module.rel}:{c.lineno}", "control edge added only for targets that are nodes" if ok else "a control edge is added to an unknown target (networkx silently creates a phantom node)")
    rep.extra["pre_validation_functions"] = sorted(f.qname for f in pre)
    # controlled_by (lazy, may run any time): same discipline
    ccb = g.methods.get("_compute_controlled_by")
    if ccb is not None:
        from sa.pattern import solve

        ok = bool(solve(["for _T in _G.targets: ...", "_T in self._nodes"], ccb.node))
        rep.add("C19.R3", f"{ccb.qname}:guard", ok, ccb.loc(), "controlled_by only records targets that are nodes" if ok else "controlled_by records targets that are not nodes")

    # ---- R8 ---------------------------------------------------------------------
    check_gate_kind_exhaustive(ctx, "C19.R8")

    # ---- R11 --------------------------------------------------------------------
    VALUE_GETTERS = {"get_signature_default_for", "get_default_for"}
    n11 = 0
    for f in db.all_funcs():
        if f.module.name not in ("hypergraph.graph.validation", "hypergraph.graph._conflict", "hypergraph.graph.input_spec", "hypergraph.nodes.graph_node", "hypergraph.nodes.base", "hypergraph.nodes._callable") or f.parent is not None:
            continue
        n11 += 1
        vvars = set(vars_from_call(db, f, VALUE_GETTERS))
        for nm, ds in db.local_defs(f).items():
            for d in ds:
                v = getattr(d, "value", None)
                if v is not None and any(isinstance(x, ast.Call) and isinstance(x.func, ast.Attribute) and (x.func.attr in VALUE_GETTERS or x.func.attr == "get" and src(x.func.value).endswith(("bound", "defaults"))) for x in ast.walk(v)) and not isinstance(v, ast.Compare):
                    vvars.add(nm)
        bad = []
        for x in walk_local(f.node):
            if isinstance(x, ast.Compare) and len(x.ops) == 1 and isinstance(x.ops[0], (ast.Is, ast.IsNot)) and isinstance(x.comparators[0], ast.Constant) and x.comparators[0].value is None:
                l = x.left
                if isinstance(l, ast.Name) and l.id in vvars:
                    bad.append(x)
                elif isinstance(l, ast.Call) and isinstance(l.func, ast.Attribute) and (l.func.attr in VALUE_GETTERS or l.func.attr == "get" and src(l.func.value).endswith(("bound", "defaults"))):
                    bad.append(x)
        rep.add("C19.R11", f"{f.qname}:presence-not-by-value", not bad, f"{f.module.rel}:{bad[0].lineno if bad else f.lineno}", "no default/bound value is compared with None to decide whether it exists" if not bad else f"'{src(bad[0])}' decides whether a default/binding exists by comparing its value with None: a parameter declared '= None' (or bound to None) counts as having none, so e.g. 'default None vs no default' for a shared parameter is no longer rejected")
    if n11 < 20:
        raise AnalysisError(f"only {n11} functions scanned for value-vs-presence tests")

    # ---- R10 --------------------------------------------------------------------
    n10 = 0
    for f in db.all_funcs():
        if f.module.name not in ("hypergraph.graph.validation", "hypergraph.graph._conflict") or f.parent is not None:
            continue
        n10 += 1
        narrow = [x for x in walk_local(f.node) if isinstance(x, ast.Attribute) and x.attr == "data_outputs"]
        rep.add("C19.R10", f"{f.qname}:all-outputs", not narrow, f"{f.module.rel}:{narrow[0].lineno if narrow else f.lineno}", "no narrowing to data outputs" if not narrow else f"'{src(narrow[0])}' restricts a construction-time check to data outputs: the same mistake in an emit= name (illegal identifier, collision, conflict) is accepted")
    if n10 < 12:
        raise AnalysisError(f"only {n10} validator functions found")

    # ---- R9 ---------------------------------------------------------------------
    hu = db.func("_typing._handle_union_types")
    hcfg = ctx.cfg(hu)
    tparams = [p for p in hu.positional_params if p != "self"][:2]  # (incoming, required): by position, whatever the private helper calls them
    flags: dict[str, str] = {}
    for nm, ds in db.local_defs(hu).items():
        for d in ds:
            v = getattr(d, "value", None)
            if v is None:
                continue
            t = src(v)
            for tp in tparams:
                if f"get_origin({tp}) is Union" in t or f"isinstance({tp}, UnionType)" in t:
                    flags[tp] = nm
    if len(flags) < 2:
        raise AnalysisError("_handle_union_types: union flags not recognised")
    n9 = 0
    for n in hcfg.nodes:
        for c in hcfg.calls_at(n):
            if dotted(c.func) == "get_args" and c.args and isinstance(c.args[0], ast.Name) and c.args[0].id in flags:
                tp = c.args[0].id
                n9 += 1
                live = reachable(hcfg.entry, specialize({flags[tp]: False}, hcfg))
                ok = n not in live
                rep.add("C19.R9", f"{hu.qname}:get_args({tp})#{n9}", ok, f"{hu.module.rel}:{n.lineno}", f"members of {tp} are taken only when it is a Union" if ok else f"get_args({tp}) is evaluated although {tp} need not be a Union: a parameterised generic (list[X], dict[K, V]) is split into its type arguments and the Union's members are compared with those instead of with the generic — 'str | None -> list[str | None]' is accepted by a strict graph")
    if n9 < 3:
        raise AnalysisError(f"only {n9} union decompositions found")
    # generic rule: once both sides' type arguments are taken, 'compatible' is answered either because one side
    # is unparameterised or by comparing the arguments pairwise — never on the strength of the origins alone
    hg = db.func("_typing._handle_generic_types")
    gcfg = ctx.cfg(hg)
    gdom = dominators(gcfg.entry)
    tps = [p_ for p_ in hg.positional_params if p_ != "self"][:2]
    arg_defs = {}
    for n in gcfg.nodes:
        if n.kind == "stmt" and isinstance(n.ast, ast.Assign) and isinstance(n.ast.targets[0], ast.Name) and isinstance(n.ast.value, ast.Call) and dotted(n.ast.value.func) == "get_args" and n.ast.value.args and src(n.ast.value.args[0]) in tps:
            arg_defs[n.ast.targets[0].id] = n
    if len(arg_defs) < 2:
        raise AnalysisError("_handle_generic_types: type-argument bindings not recognised")
    from sa.model import enclosing as _encl

    bad_true = []
    n_ret = 0
    for r in gcfg.nodes:
        if not (r.kind == "stmt" and isinstance(r.ast, ast.Return)) or not all(d in gdom.get(r, set()) for d in arg_defs.values()):
            continue
        n_ret += 1
        v = r.ast.value
        if isinstance(v, ast.Constant) and v.value is True:
            g_ = _encl(r.ast, (ast.If,))
            names = {x.id for x in ast.walk(g_.test) if isinstance(x, ast.Name)} if g_ is not None else set()
            if g_ is None or not names or not names <= set(arg_defs):
                bad_true.append(r)
        elif isinstance(v, ast.Constant) and v.value in (False, None):
            continue
        elif isinstance(v, ast.Call) and dotted(v.func) == "all" and all(a_ in src(v) for a_ in arg_defs) and "is_type_compatible" in src(v):
            continue
        elif isinstance(v, ast.Call) and dotted(v.func) == "all" and all(a_ in src(v) for a_ in arg_defs) and _encl(r.ast, (ast.If,)) is not None and "Literal" in src(_encl(r.ast, (ast.If,)).test) and any(isinstance(x, ast.Compare) and isinstance(x.ops[0], ast.In) for x in ast.walk(v)):
            continue  # Literal[...]: the arguments are values, compared by membership of every incoming value
        else:
            bad_true.append(r)
    ok = n_ret >= 3 and not bad_true
    rep.add("C19.R9", f"{hg.qname}:args-compared", ok, f"{hg.module.rel}:{bad_true[0].lineno if bad_true else hg.lineno}", "after the type arguments are taken, 'compatible' comes from an unparameterised side or from the pairwise comparison of the arguments" if ok else f"'{src(bad_true[0].ast)}' answers for parameterised generics without comparing their type arguments (guard: '{src(_encl(bad_true[0].ast, (ast.If,)).test) if _encl(bad_true[0].ast, (ast.If,)) is not None else 'none'}'): list[int] -> Sequence[str] is accepted by a strict graph")
    # Literal[...] arguments are values, not types: they never reach the type comparison (which resolves a string as a
    # forward reference and raises NameError out of the constructor) — a Literal test precedes the pairwise comparison
    pair = [r for r in walk_local(hg.node) if isinstance(r, ast.Return) and isinstance(r.value, ast.Call) and dotted(r.value.func) == "all" and "is_type_compatible" in src(r.value) and "zip(" in src(r.value)]
    lit_tests = [t for t in walk_local(hg.node) if isinstance(t, ast.If) and "Literal" in src(t.test) and any(isinstance(x, ast.Return) for x in t.body)]
    okl = bool(pair) and all(any(t.lineno < r.lineno and not contains(t, r) for t in lit_tests) for r in pair)
    rep.add("C19.R9", f"{hg.qname}:literal-args-are-values", okl, f"{hg.module.rel}:{(pair[0] if pair else hg.node).lineno}", "Literal arguments are compared as values before the pairwise type comparison" if okl else "the arguments of Literal[...] are compared pairwise as types: a string value is resolved as a forward reference, so a strict graph with a Literal['x'] producer and a Literal['y'] (or equal) consumer makes the constructor raise NameError instead of deciding the edge")

    # the defaults-consistency and strict-type validators read a node's defaults/annotations under its *current* input
    # names: the original -> current map they are built from is never an unfiltered inversion of the reverse map
    from .c06 import check_inversions_over_current_names

    # "a wait on a name nobody produces" is decided against the outputs nodes declare: a nested-graph node declares no
    # inner ordering signal (its executor can never produce one), on any path of its constructor
    from .c17 import check_wrapper_offers_no_inner_signals

    check_wrapper_offers_no_inner_signals(ctx, "C19.R10")
    check_inversions_over_current_names(ctx, "C19.R5")
    from .c06 import check_renames_reject_duplicates

    check_renames_reject_duplicates(ctx, "C19.R5")
    # ---- R7 ---------------------------------------------------------------------
    voc_f = db.func("graph._conflict.validate_output_conflicts")
    n_pairs = 0
    for lp in [n for n in walk_local(voc_f.node) if isinstance(n, ast.For)]:
        if not (isinstance(lp.target, ast.Tuple) and len(lp.target.elts) == 2):
            continue
        if not any(isinstance(x, ast.Raise) for x in ast.walk(lp)):
            continue
        a_, b_ = lp.target.elts
        if not (isinstance(a_, ast.Name) and isinstance(b_, ast.Name) and any(isinstance(c, ast.Call) and "_is_pair_mutex" in call_names(db, c, voc_f) and [getattr(x, "id", None) for x in c.args[:2]] == [a_.id, b_.id] for c in ast.walk(lp))):
            continue
        n_pairs += 1
        it = lp.iter
        ok = isinstance(it, ast.Call) and (dotted(it.func) or "").split(".")[-1] == "combinations" and len(it.args) == 2 and isinstance(it.args[1], ast.Constant) and it.args[1].value == 2
        rep.add("C19.R7", f"{voc_f.qname}:pairs#{n_pairs}", ok, f"{voc_f.module.rel}:{lp.lineno}", "every unordered pair of producers is examined (combinations(sources, 2))" if ok else f"producers are examined through '{src(it)[:50]}': 'ordered' (a path in either direction) is not transitive, so two unordered producers that are not adjacent in the node list are never compared and the graph is accepted")
        # a producer that lists the name twice pairs with itself: it is neither exclusive with nor ordered after itself
        # (a path from a node to itself trivially exists) — under 'a == b' every path through the iteration must reject,
        # unless duplicates within one node are rejected where the producer lists are built
        vcfg7 = ctx.cfg(voc_f)
        ln7 = next((n for n in vcfg7.nodes if n.kind == "for" and n.ast is lp), None)
        same = {f"{a_.id} == {b_.id}": True, f"{b_.id} == {a_.id}": True, f"{a_.id} != {b_.id}": False, f"{b_.id} != {a_.id}": False, f"{a_.id} is {b_.id}": True}
        raises7 = [n for n in vcfg7.nodes if n.kind == "stmt" and isinstance(n.ast, ast.Raise)]
        self_ok = ln7 is not None and must_reach_in_iteration(vcfg7, ln7, raises7, same)
        dedup_elsewhere = any(isinstance(x, ast.Raise) for g_ in db.funcs_in("graph.core") if g_.name == "_collect_output_sources" for x in walk_local(g_.node))
        # ... or before the pair loops: a rejection guarded by a duplicate test on the producer list (count > 1 /
        # len(set(..)) != len(..)) that dominates the loop
        dom7 = dominators(vcfg7.entry)
        dup_tests = [t for t in vcfg7.nodes if t.kind == "test" and t.ast is not None and (".count(" in src(t.ast) or ("len(set(" in src(t.ast) and "len(" in src(t.ast).replace("len(set(", "")))]
        dup_guard_before = ln7 is not None and any(any(x.kind == "stmt" and isinstance(x.ast, ast.Raise) for x, l, _ in t.succ if l in ("T", "F")) and lp.lineno > t.lineno and not contains(lp, t.ast) for t in dup_tests)
        if dup_guard_before and not self_ok:
            # the up-front rejection must range over every name with a repeated producer — also a name whose only
            # producer lists it twice: evaluate the filter that defines the iterated collection for sources == [n, n]
            for t in dup_tests:
                lp_ = next((a for a in ancestors(t.ast) if isinstance(a, ast.For)), None)
                outer_ = next((a for a in ancestors(lp_) if isinstance(a, ast.For)), None) if lp_ is not None else None
                for l_ in [x for x in (outer_, lp_) if x is not None]:
                    base = l_.iter.func.value if isinstance(l_.iter, ast.Call) and isinstance(l_.iter.func, ast.Attribute) and l_.iter.func.attr in ("items", "values", "keys") else l_.iter
                    if isinstance(base, ast.Name):
                        for d in db.local_defs(voc_f).get(base.id, []):
                            v = getattr(d, "value", None)
                            if isinstance(v, (ast.DictComp, ast.ListComp, ast.SetComp)) and v.generators and v.generators[0].ifs:
                                g_ = v.generators[0]
                                val_name = g_.target.elts[1].id if isinstance(g_.target, ast.Tuple) and len(g_.target.elts) == 2 and isinstance(g_.target.elts[1], ast.Name) else None
                                if val_name and not all(_eval_on_duplicate(i_, val_name) for i_ in g_.ifs):
                                    dup_guard_before = False
        ok7 = self_ok or dedup_elsewhere or dup_guard_before
        rep.add("C19.R7", f"{voc_f.qname}:self-pair-rejected#{n_pairs}", ok7, f"{voc_f.module.rel}:{lp.lineno}", "a node listed twice for one name is rejected" if ok7 else "a node that declares the same output name twice pairs with itself and passes as 'ordered' (has_path(n, n) holds trivially): node(output_name=('a', 'a')) is accepted, the graph reports outputs ('a',) and the first returned value is silently lost")
    # each shared name is judged on its own evidence: nothing the ordered-test receives is carried from the iteration
    # for one name to the next (e.g. an ordering graph built once, stripped for the first name's contested values — the
    # data edges carrying a later name's own contested value then survive and pass for an ordering path)
    for lpi, lp in enumerate([n for n in walk_local(voc_f.node) if isinstance(n, ast.For) and isinstance(n.iter, ast.Call) and isinstance(n.iter.func, ast.Attribute) and n.iter.func.attr == "items" and any(isinstance(x, ast.For) and isinstance(x.target, ast.Tuple) for x in ast.walk(n) if x is not n)]):
        inside = {t.id for x in ast.walk(lp) if isinstance(x, (ast.Assign, ast.AnnAssign, ast.AugAssign)) for t in (x.targets if isinstance(x, ast.Assign) else [x.target]) if isinstance(t, ast.Name)}
        before = {t.id for x in walk_local(voc_f.node) if isinstance(x, (ast.Assign, ast.AnnAssign)) and not contains(lp, x) and x.lineno < lp.lineno for t in (x.targets if isinstance(x, ast.Assign) else [x.target]) if isinstance(t, ast.Name)}
        carried = sorted(inside & before)
        used = {a_.id for c in ast.walk(lp) if isinstance(c, ast.Call) and call_names(db, c, voc_f) & {"_is_pair_ordered", "_is_pair_mutex"} for a_ in c.args if isinstance(a_, ast.Name)}
        bad_c = [v_ for v_ in carried if v_ in used]
        rep.add("C19.R7", f"{voc_f.qname}:no-state-carried-between-names#{lpi}", not bad_c, f"{voc_f.module.rel}:{lp.lineno}", "the pair tests use per-name values and loop-invariant inputs only" if not bad_c else f"{bad_c} is set before the per-name loop and re-bound inside it, and feeds the pair test: what was computed for one shared name is reused for the next — an unordered pair of producers is accepted when an ordered pair of another name precedes it")
    # 'exclusive' is decided on the edges of every producer: the structure graph carries data edges from the first
    # producer of a shared name only, so on the inferred-edges path branch membership must be computed on a graph built
    # from the complete edge map (else a consumer fed by a second producer counts as outside that producer's branch)
    gparam = next((p_ for p_ in voc_f.param_names if "DiGraph" in src(voc_f.param_annotation(p_) or ast.Constant(""))), voc_f.param_names[0])
    expl = next((p_ for p_ in voc_f.param_names if "explicit" in p_), None)
    full_maps = {t.id for n in walk_local(voc_f.node) if isinstance(n, ast.Assign) and isinstance(n.value, ast.Call) and "_build_full_edge_map" in call_names(db, n.value, voc_f) for tg in n.targets for t in (tg.elts if isinstance(tg, ast.Tuple) else [tg]) if isinstance(t, ast.Name)}
    full_graphs = set()
    for n in walk_local(voc_f.node):
        if isinstance(n, ast.Call) and isinstance(n.func, ast.Attribute) and n.func.attr in ("add_edges_from", "add_edge") and isinstance(n.func.value, ast.Name) and any(isinstance(x, ast.Name) and x.id in full_maps for a_ in n.args for x in ast.walk(a_)):
            full_graphs.add(n.func.value.id)
        if isinstance(n, ast.Assign) and isinstance(n.value, ast.Call) and (dotted(n.value.func) or "").endswith("DiGraph") and any(isinstance(x, ast.Name) and x.id in full_maps for a_ in n.value.args for x in ast.walk(a_)):
            full_graphs |= {t.id for t in n.targets if isinstance(t, ast.Name)}
    n_auto = 0
    for lp in [n for n in walk_local(voc_f.node) if isinstance(n, ast.For) and any(isinstance(c, ast.Call) and "_is_pair_ordered" in call_names(db, c, voc_f) for c in ast.walk(n))]:
        for c in [c for c in ast.walk(lp) if isinstance(c, ast.Call) and "_is_pair_mutex" in call_names(db, c, voc_f) and len(c.args) >= 3 and isinstance(c.args[2], ast.Name)]:
            if n_auto:
                break
            n_auto += 1
            gv = c.args[2].id
            defs = [d for d in db.local_defs(voc_f).get(gv, []) if isinstance(d, ast.Assign) and d.lineno < lp.lineno and not any(isinstance(a, ast.If) and expl and expl in src(a.test) and not src(a.test).startswith("not ") and any(contains(b_, d) for b_ in a.body) for a in ancestors(d))]
            if not defs:
                raise AnalysisError("definition of the exclusive-branch groups for the inferred-edges path not found")
            d = max(defs, key=lambda x: x.lineno)
            garg = d.value.args[0] if isinstance(d.value, ast.Call) and d.value.args else None
            okm = isinstance(garg, ast.Name) and garg.id != gparam and garg.id in full_graphs
            rep.add("C19.R7", f"{voc_f.qname}:branch-membership-over-all-producers", okm, f"{voc_f.module.rel}:{d.lineno}", "exclusive branches are computed on a graph holding the edges of every producer" if okm else f"exclusive branches are computed on '{src(garg) if garg is not None else '?'}', which holds data edges from the first producer of a shared name only: a consumer fed by a later producer is judged exclusive to the first producer's branch, so with ifelse(t1 | t2), t1 -> a, t2 -> (a, u2), shared(a) -> r, other(u2) -> r the graph is accepted (for one node order) although 'shared' and 'other' both run and both write r when t2 is chosen")
            break
    if n_auto < 1:
        raise AnalysisError("inferred-edges pair loop of validate_output_conflicts not found")
    # 'exclusive to a branch' = reachable from exactly one target of the gate
    emg = db.func("graph._conflict._expand_mutex_groups")
    cer = next((cal.func for _, cal in db.callees(emg) if cal.func is not None and cal.func.module is emg.module and any(isinstance(x, ast.Call) and (dotted(x.func) or "").endswith("descendants") for x in ast.walk(cal.func.node))), None)
    if cer is None:
        raise AnalysisError("per-target reachability helper of _expand_mutex_groups not found")
    okx, whyx = _exactly_one_target(db, cer)
    rep.add("C19.R7", f"{cer.qname}:exclusive-means-exactly-one-target", okx, cer.loc(), whyx)
    if n_pairs < 2:
        raise AnalysisError("pair loops of validate_output_conflicts not found")

    # ---- R4 ---------------------------------------------------------------------
    for attr in ("_nodes", "_nx_graph"):
        sites = []
        for f in db.all_funcs():
            for n in walk_local(f.node):
                tg = []
                if isinstance(n, ast.Assign):
                    tg = n.targets
                elif isinstance(n, (ast.AnnAssign, ast.AugAssign)):
                    tg = [n.target]
                for t in tg:
                    if isinstance(t, ast.Attribute) and t.attr == attr and not f.module.name.startswith("hypergraph.viz"):
                        sites.append((f, n))
                if isinstance(n, ast.Call) and dotted(n.func) == "setattr" and len(n.args) >= 2 and isinstance(n.args[1], ast.Constant) and n.args[1].value == attr:
                    sites.append((f, n))
        bad = [(f, n) for f, n in sites if not (f is init)]
        rep.add("C19.R4", f"Graph.{attr}", not bad and bool(sites), init.loc(), f"{attr} is bound only in Graph.__init__ (every graph object passed validation)" if not bad and sites else f"{attr} is rebound outside the validated constructor at {bad[0][0].qname.split('hypergraph.')[-1]}:{bad[0][1].lineno}" if bad else f"{attr} binding not found")

    # ---- R5 ---------------------------------------------------------------------
    check_cache_invalidation(ctx, "C19.R5", families=("Node",))

    # ---- R6 ---------------------------------------------------------------------
    vt = db.func("graph.validation._validate_types")
    loops = [n for n in walk_local(vt.node) if isinstance(n, ast.For)]
    P_NODES, P_NX = (vt.positional_params + ["nodes", "nx_graph"])[:2]  # own parameter names of the private validator
    ok = len(loops) >= 2 and f"{P_NX}.edges(data=True)" in src(loops[0].iter) and "value_names" in src(loops[1].iter)
    rep.add("C19.R6", f"{vt.qname}:all-edges-all-values", ok, vt.loc(), "iterates every edge and every value name on it" if ok else "type validation does not iterate every value of every data edge")
    # ... and no (edge, value) pair is skipped: every iteration of the per-value loop reaches the compatibility
    # question (or a rejection), every iteration of the per-edge loop that carries values reaches the per-value loop
    vcfg6 = ctx.cfg(vt)
    fors = sorted((n for n in vcfg6.nodes if n.kind == "for"), key=lambda n: n.lineno)
    askers = [n for n in vcfg6.nodes if any((dotted(c.func) or "").split(".")[-1] == "is_type_compatible" for c in vcfg6.calls_at(n))]
    chain = [l for l in fors if any(contains(l.ast, a_.ast) for a_ in askers if a_.ast is not None)]
    if len(fors) >= 2:
        # chain: edges > values > (further loops, e.g. the producers of a shared name) > the compatibility question
        inner_ok = bool(askers) and bool(chain) and must_reach_in_iteration(vcfg6, chain[-1], askers + [n for n in vcfg6.nodes if n.kind == "stmt" and isinstance(n.ast, ast.Raise)], {})
        vn = src(fors[1].ast.iter)
        val6 = {vn: True, f"not {vn}": False, **_edge_kind_valuation(vcfg6, fors[0], "data")}
        outer_ok = all(must_reach_in_iteration(vcfg6, chain[i], [chain[i + 1]], val6) for i in range(len(chain) - 1))
        rep.add("C19.R6", f"{vt.qname}:no-pair-skipped", inner_ok and outer_ok, vt.loc(), "every value of every value-carrying edge reaches the compatibility question" if inner_ok and outer_ok else ("an iteration of the innermost checking loop can end without asking is_type_compatible or rejecting: some (producer, consumer, value) pairs are accepted unchecked (e.g. only the first consumer of a fanned-out value is checked)" if not inner_ok else "an iteration of an enclosing loop (a value-carrying data edge, or one of its values) can end before the compatibility question is reached: that edge/value is accepted unchecked"))
    # ... for every producer of the value: producers sharing an output name (exclusive gate branches, ordered
    # producers) get ONE data edge, drawn from the first of them (Graph._build_graph reduces the producer lists
    # to their first element) — so the type check must range over all producers of the name, not the edge's source
    bg = db.cls("graph.core.Graph").methods["_build_graph"]
    first_only = any(isinstance(x, ast.DictComp) and isinstance(x.value, ast.Subscript) and isinstance(x.value.slice, ast.Constant) and x.value.slice.value == 0 for x in walk_local(bg.node))
    recv = [c.func.value for c in db.calls_in(vt) if isinstance(c.func, ast.Attribute) and c.func.attr == "get_output_type"]
    all_prod = False
    for r6 in recv:
        if not isinstance(r6, ast.Name):
            continue
        for l in chain:
            if isinstance(l.ast.target, ast.Name) and l.ast.target.id == r6.id:
                exprs6 = [l.ast.iter] + [getattr(d, "value", None) for nm in {x.id for x in ast.walk(l.ast.iter) if isinstance(x, ast.Name)} for d in db.local_defs(vt).get(nm, [])]
                txt = " ".join(src(e) for e in exprs6 if e is not None)
                scans_nodes = any(isinstance(x, ast.Call) and src(x.func) == f"{(vt.positional_params + ['nodes'])[0]}.values" for e in exprs6 if e is not None for x in ast.walk(e))
                by_output = any(isinstance(x, ast.Compare) and len(x.ops) == 1 and isinstance(x.ops[0], ast.In) and src(x.comparators[0]).endswith(".outputs") for e in exprs6 if e is not None for x in ast.walk(e))
                if scans_nodes and by_output:
                    all_prod = True
    okp = all_prod or not first_only
    rep.add("C19.R6", f"{vt.qname}:every-producer-of-the-name", okp, vt.loc(), "the producer side ranges over every node producing the value name" if okp else "data edges are drawn from the first producer of a shared output name only, and the strict type check looks at the edge's source only: the type of a second exclusive/ordered producer is never compared with its consumers (ifelse -> a: result:int / b: result:str -> consumer(result:int) is accepted)")
    # ... and only data edges are typed: an ordering (emit/wait_for) or control edge carries no typed value, so a valid
    # graph that uses them must not be rejected for a "missing annotation" of a signal — either the type check skips
    # non-data edges, or no such edge names a value
    from sa.cfg import eval_test as _evt

    named_non_data = []
    for f in db.funcs_in("graph.core"):
        for c in db.calls_in(f):
            if isinstance(c.func, ast.Attribute) and c.func.attr == "add_edge":
                kw = {k.arg: k.value for k in c.keywords}
                et = kw.get("edge_type")
                if isinstance(et, ast.Constant) and et.value in ("ordering", "control") and "value_names" in kw and not (isinstance(kw["value_names"], ast.List) and not kw["value_names"].elts):
                    named_non_data.append((f, c, et.value))
    if len(fors) >= 2:
        skips = {}
        for kind in ("ordering", "control"):
            val = _edge_kind_valuation(vcfg6, fors[0], kind)
            starts6 = [t for t, l, _ in fors[0].succ if l == "T"]
            live6 = reachable(starts6[0], both(specialize(val, vcfg6), lambda a_, b_, l_, i_: a_ is not fors[0])) if starts6 and val else None
            skips[kind] = live6 is not None and not any(n.kind == "stmt" and isinstance(n.ast, ast.Raise) for n in live6)
        okd = all(skips.values()) or not named_non_data
        rep.add("C19.R6", f"{vt.qname}:data-edges-only", okd, vt.loc(), "non-data edges are never type-checked" if okd else f"an {named_non_data[0][2]} edge names its signal ({named_non_data[0][0].name}:{named_non_data[0][1].lineno}) and the strict type check walks it like a data edge: a valid graph using emit/wait_for is rejected in strict mode for a missing annotation of the signal")
    from sa.pattern import find_all, solve

    envs = solve(["_OT = _S.get_output_type(_V)", "_IT = _T.get_input_type(_V)", "is_type_compatible(_OT, _IT)"], vt.node)
    miss_ok = compat_ok = False
    for env in envs:
        ot, it_ = src(env["_OT"]), src(env["_IT"])
        sides = set()
        for n in walk_local(vt.node):
            if isinstance(n, ast.If) and any(isinstance(x, ast.Raise) for x in ast.walk(n)) and isinstance(n.test, ast.Compare) and isinstance(n.test.ops[0], ast.Is) and isinstance(n.test.comparators[0], ast.Constant) and n.test.comparators[0].value is None:
                sides.add(src(n.test.left))
        if {ot, it_} <= sides:
            miss_ok = True
        for c, _ in find_all("is_type_compatible(_OT, _IT)", vt.node, env):
            gi = enclosing(c, (ast.If,))
            if gi is not None and isinstance(gi.test, ast.UnaryOp) and isinstance(gi.test.op, ast.Not) and any(isinstance(x, ast.Raise) for x in ast.walk(gi)):
                compat_ok = True
        # producer side is the edge's source node, consumer side its target node
        srcs = solve([f"for _A, _B, _D in {P_NX}.edges(data=True): ...", f"_S = {P_NODES}[_A]", f"_T = {P_NODES}[_B]"], vt.node)
        def _is_source(sname: str, e2) -> bool:
            if src(e2["_S"]) == sname:
                return True
            # a loop variable ranging over an iterable that contains the edge's source node
            for l in chain:
                if isinstance(l.ast.target, ast.Name) and l.ast.target.id == sname:
                    its = [l.ast.iter] + [getattr(d, "value", None) for nm in {x.id for x in ast.walk(l.ast.iter) if isinstance(x, ast.Name)} for d in db.local_defs(vt).get(nm, [])]
                    if any(isinstance(x, ast.Name) and x.id == src(e2["_S"]) for e in its if e is not None for x in ast.walk(e)):
                        return True
            return False

        if not any(_is_source(src(env["_S"]), e2) and src(e2["_T"]) == src(env["_T"]) for e2 in srcs):
            compat_ok = False
    rep.add("C19.R6", f"{vt.qname}:missing-annotation", miss_ok, vt.loc(), "a missing annotation on either side is rejected" if miss_ok else "a missing annotation on the producer or consumer side is not rejected")
    rep.add("C19.R6", f"{vt.qname}:compatibility-call", compat_ok, vt.loc(), "incompatibility (producer output type vs consumer input type, in that order) raises" if compat_ok else "is_type_compatible is not asked (output type of the edge's source, input type of its target) for the edge's value, or its negative result does not raise")

def _exactly_one_target(db, f: FuncInfo) -> tuple[bool, str]:
    """The per-target sets keep a node only when no other target reaches it. Recognised forms:
    count over all targets' reachable sets compared with 1, or the difference with the union of the other targets' sets."""
    from rules.common import _ev, NotComparable

    defs = db.local_defs(f)

    def val(name: str):
        d = defs.get(name, [])
        return d[0].value if len(d) == 1 and isinstance(d[0], (ast.Assign, ast.AnnAssign)) else None

    def expand_(e: ast.AST, depth: int = 0) -> str:
        out = src(e)
        if depth < 4:
            for x in ast.walk(e):
                if isinstance(x, ast.Name) and val(x.id) is not None:
                    out += " <- " + expand_(val(x.id), depth + 1)
        return out

    rets = [r for r in walk_local(f.node) if isinstance(r, ast.Return) and r.value is not None]
    if not rets:
        return False, "no result returned"
    for r in rets:
        text = expand_(r.value)
        # count form
        cmps = [c for c in ast.walk(r.value) if isinstance(c, ast.Compare) and len(c.ops) == 1]
        cnt = [(c, o) for c in cmps for o in (c.left, c.comparators[0]) if isinstance(o, ast.Subscript) and "Counter(" in expand_(o.value)]
        if cnt:
            c, o = cnt[0]
            if ".values()" not in expand_(o.value):
                return False, f"the count in '{src(c)}' is not taken over the reachable sets of all targets"
            try:
                tab = [bool(_ev(c, {src(o): k})) for k in (1, 2, 3)]
            except NotComparable as e:
                return False, f"'{src(c)}' is not a plain comparison of the count ({e})"
            if tab != [True, False, False]:
                return False, f"'{src(c)}' keeps a node reachable from {[k for k, t in zip((1, 2, 3), tab) if t]} target(s): a node downstream of several (but not exactly one) targets lands in more than one 'exclusive' branch set, so two producers that share a branch are judged mutually exclusive"
            continue
        if any(isinstance(x, ast.Call) and (dotted(x.func) or "").endswith("intersection") for x in ast.walk(r.value)) or "intersection(" in text or " & " in text:
            return False, "only nodes reachable from every target are removed (intersection over all targets): with three or more targets a node downstream of two of them stays in both 'exclusive' branch sets, so a producer sharing a branch with it is judged mutually exclusive — route(fast | slow | skip), quick(fast-only) -> answer, merged(fast, slow) -> answer is accepted"
        diff = [b for b in ast.walk(r.value) if isinstance(b, ast.BinOp) and isinstance(b.op, ast.Sub)] + [c_ for c_ in ast.walk(r.value) if isinstance(c_, ast.Call) and isinstance(c_.func, ast.Attribute) and c_.func.attr == "difference"]
        if diff and ("union(" in text or " | " in text) and ("!=" in text or "is not" in text):
            continue
        return False, f"'{src(r.value)[:80]}' does not establish that a kept node is reachable from exactly one target"
    return True, "a node stays in a target's set only when exactly one target reaches it"


def _edge_kind_valuation(cfg, loop, kind: str) -> dict[str, bool]:
    """Truth of the tests on the edge's ``edge_type`` inside ``loop`` for an edge of ``kind``."""
    val: dict[str, bool] = {}
    atoms = [a for n in cfg.nodes if n.kind == "test" and n.ast is not None and contains(loop.ast, n.ast) for a in test_atoms(n.ast) if "edge_type" in src(a)]
    for a in atoms:
        v = None
        if isinstance(a, ast.Compare) and len(a.ops) == 1 and isinstance(a.comparators[0], ast.Constant):
            cst = a.comparators[0].value
            v = (kind == cst) if isinstance(a.ops[0], ast.Eq) else (kind != cst) if isinstance(a.ops[0], ast.NotEq) else None
        elif isinstance(a, ast.Compare) and len(a.ops) == 1 and isinstance(a.comparators[0], (ast.Tuple, ast.Set, ast.List)) and all(isinstance(e, ast.Constant) for e in a.comparators[0].elts):
            members = {e.value for e in a.comparators[0].elts}
            v = (kind in members) if isinstance(a.ops[0], ast.In) else (kind not in members) if isinstance(a.ops[0], ast.NotIn) else None
        if v is not None:
            val[src(a)] = v
    return val


def _eval_on_duplicate(e: ast.AST, name: str):
    """Value of a filter expression for ``name == [n, n]`` (one producer listed twice): len(name) = 2, len(set(name)) = 1."""
    if isinstance(e, ast.Constant):
        return e.value
    if isinstance(e, ast.Call) and dotted(e.func) == "len" and len(e.args) == 1:
        a = e.args[0]
        if isinstance(a, ast.Name) and a.id == name:
            return 2
        if isinstance(a, ast.Call) and dotted(a.func) in ("set", "frozenset") and len(a.args) == 1 and isinstance(a.args[0], ast.Name) and a.args[0].id == name:
            return 1
        return None
    if isinstance(e, ast.Compare) and len(e.ops) == 1:
        l, r = _eval_on_duplicate(e.left, name), _eval_on_duplicate(e.comparators[0], name)
        if l is None or r is None:
            return True  # unknown: do not object
        op = e.ops[0]
        return {ast.Gt: l > r, ast.GtE: l >= r, ast.Lt: l < r, ast.LtE: l <= r, ast.Eq: l == r, ast.NotEq: l != r}.get(type(op), True)
    if isinstance(e, ast.BoolOp):
        vals = [_eval_on_duplicate(v, name) for v in e.values]
        return all(vals) if isinstance(e.op, ast.And) else any(vals)
    if isinstance(e, ast.UnaryOp) and isinstance(e.op, ast.Not):
        return not _eval_on_duplicate(e.operand, name)
    return True


def _nx_vars(f: FuncInfo) -> set[str]:
    """Names that hold a networkx graph in ``f``: parameters annotated DiGraph/Graph of nx, locals bound from
    nx.DiGraph(...), .subgraph(...), .copy(), plus the conventional names."""
    out = {"G", "sub", "nx_graph"}
    a = f.node.args
    for arg in a.posonlyargs + a.args + a.kwonlyargs:
        if arg.annotation is not None and "DiGraph" in src(arg.annotation):
            out.add(arg.arg)
    for n in walk_local(f.node):
        if isinstance(n, ast.Assign) and isinstance(n.targets[0], ast.Name) and isinstance(n.value, ast.Call):
            d = dotted(n.value.func) or ""
            if d.endswith("DiGraph") or d.split(".")[-1] in ("subgraph", "copy", "reverse") and d.split(".")[0] in out:
                out.add(n.targets[0].id)
    return out


def _ri(f: FuncInfo, r: ast.AST) -> int:
    rs = [n for n in walk_local(f.node) if isinstance(n, ast.Raise)]
    return rs.index(r)


VA = "src/hypergraph/graph/validation.py"
CO = "src/hypergraph/graph/_conflict.py"
CORE = "src/hypergraph/graph/core.py"
BASE = "src/hypergraph/nodes/base.py"
def _declares(ci, attr: str) -> bool:
    if attr in ci.methods:
        return True
    for n in ci.node.body:
        if isinstance(n, ast.AnnAssign) and isinstance(n.target, ast.Name) and n.target.id == attr:
            return True
        if isinstance(n, ast.Assign) and any(isinstance(t, ast.Name) and t.id == attr for t in n.targets):
            return True
    for m in ci.methods.values():
        for x in ast.walk(m.node):
            if isinstance(x, ast.Attribute) and isinstance(x.ctx, ast.Store) and isinstance(x.value, ast.Name) and x.value.id == "self" and x.attr == attr:
                return True
    return False


def check_gate_kind_exhaustive(ctx, rule: str, modules: tuple[str, ...] = ("hypergraph.graph", "hypergraph.runners", "hypergraph.nodes")) -> None:
    """Every ``isinstance(x, <concrete gate class>)`` outside the gate module itself: the classes tested
    for ``x`` in that function cover all concrete gate kinds, or ``x`` is then used through an attribute
    that only the tested classes declare (the test is about that kind's own feature).  A validator or
    runner step that silently narrows from GateNode to one kind skips the other kinds."""
    db, rep = ctx.db, ctx.rep
    gate = db.cls("nodes.gate.GateNode")
    kinds = [c for c in gate.all_subclasses() if c is not gate]
    concrete = {c.qname for c in kinds if not c.all_subclasses() or True}
    n = 0
    for f in db.all_funcs():
        if not f.module.name.startswith(modules) or f.module.name == gate.module.name:
            continue
        per_var: dict[str, list[tuple[ast.Call, list]]] = {}
        for c in walk_local(f.node):
            if isinstance(c, ast.Call) and dotted(c.func) == "isinstance" and len(c.args) == 2 and isinstance(c.args[0], ast.Name):
                cl = []
                for e in c.args[1].elts if isinstance(c.args[1], ast.Tuple) else [c.args[1]]:
                    r = db.resolve_expr_symbol(e, f.module, f)
                    if r and r[0] == "class":
                        cl.append(r[1])
                if any(k.qname in concrete for k in cl):
                    per_var.setdefault(c.args[0].id, []).append((c, cl))
        for v, tests in per_var.items():
            n += 1
            tested = {k.qname for _, cl in tests for k in cl if k.qname in concrete}
            # sub-kinds count for their ancestors
            covered = set(tested)
            for k in kinds:
                if any(a.qname in tested for a in k.mro()):
                    covered.add(k.qname)
            ok = covered >= concrete
            why = f"tests cover every gate kind ({', '.join(sorted(q.split('.')[-1] for q in tested))})"
            if not ok:
                tested_cls = [k for k in kinds if k.qname in tested]
                own = set()
                for x in walk_local(f.node):
                    if isinstance(x, ast.Attribute) and isinstance(x.value, ast.Name) and x.value.id == v:
                        if any(_declares(k, x.attr) for k in tested_cls) and not any(_declares(a, x.attr) for a in gate.mro()):
                            own.add(x.attr)
                ok = bool(own)
                why = f"kind-specific: uses {sorted(own)} which only {', '.join(k.name for k in tested_cls)} declares" if ok else f"only {', '.join(sorted(q.split('.')[-1] for q in tested))} is handled although nothing specific to it is used: {', '.join(sorted(q.split('.')[-1] for q in concrete - covered))} gates are skipped"
            rep.add(rule, f"{f.qname}:{v}", ok, f"{f.module.rel}:{tests[0][0].lineno}", why)
    if n < 4:
        raise AnalysisError(f"only {n} gate-kind tests found")


VARIANTS = [
    Variant("literal-args-compared-as-types", "src/hypergraph/_typing.py", sub_once(r"        # Literal arguments are values, not types: every incoming value must be allowed\n        if incoming_origin is Literal:\n            return all\(value in required_args for value in incoming_args\)\n\n", ""), {"C19.R9"}),
    Variant("mutex-expansion-on-structure-graph", "src/hypergraph/graph/_conflict.py", replace_once("    expanded_groups = _expand_mutex_groups(full, nodes)\n", "    expanded_groups = _expand_mutex_groups(G, nodes)\n"), {"C19.R7"}),
    Variant("subclass-generic-args-unchecked", "src/hypergraph/_typing.py", replace_once("        # Require same arity for generic args\n", "        if incoming_origin is not required_origin:\n            return True\n\n        # Require same arity for generic args\n"), {"C19.R9"}),
    Variant("identifier-check-data-outputs-only", VA, replace_once("        for output in node.outputs:\n            if not output.isidentifier():", "        for output in node.data_outputs:\n            if not output.isidentifier():"), {"C19.R10"}),
    Variant("union-rule-splits-generic", "src/hypergraph/_typing.py", replace_once("        return all(is_type_compatible(t, required_type, memo) for t in get_args(incoming_type))", "        required_args = get_args(required_type) or (required_type,)\n        return _all_types_compatible(get_args(incoming_type), required_args, memo)"), {"C19.R9"}),
    Variant("gate-targets-route-only", VA, chain(replace_once("    from hypergraph.nodes.gate import END, GateNode\n\n    for node in nodes.values():\n        if not isinstance(node, GateNode):\n            continue\n\n        for target in node.targets:", "    from hypergraph.nodes.gate import END, RouteNode\n\n    for node in nodes.values():\n        if not isinstance(node, RouteNode):\n            continue\n\n        for target in node.targets:")), {"C19.R8"}),
    Variant("twin-gate-targets-both-kinds", VA, chain(replace_once("    from hypergraph.nodes.gate import END, GateNode\n\n    for node in nodes.values():\n        if not isinstance(node, GateNode):\n            continue\n\n        for target in node.targets:", "    from hypergraph.nodes.gate import END, IfElseNode, RouteNode\n\n    for node in nodes.values():\n        if not isinstance(node, (RouteNode, IfElseNode)):\n            continue\n\n        for target in node.targets:")), set()),
    Variant("validator-orphaned", VA, replace_once("    _validate_wait_for_references(nodes)\n    if strict_types:", "    if strict_types:"), {"C19.R1"}),
    Variant("validator-early-return", VA, replace_once("    _validate_consistent_defaults(nodes)\n    _validate_gate_targets(nodes)", "    _validate_consistent_defaults(nodes)\n    if not any(hasattr(n, \"targets\") for n in nodes.values()):\n        return\n    _validate_gate_targets(nodes)"), {"C19.R1"}),
    Variant("types-always-off", VA, replace_once("    if strict_types:\n        _validate_types(nodes, nx_graph)", "    if strict_types and graph_name:\n        _validate_types(nodes, nx_graph)"), {"C19.R1"}),
    Variant("explicit-branch-skips-conflicts", CORE, sub_once(r"            self\._add_ordering_edges\(G, nodes, output_to_source\)\n            validate_output_conflicts\(\n                G,\n                nodes,\n                output_to_sources,\n                explicit_edges=True,\n            \)\n", "            self._add_ordering_edges(G, nodes, output_to_source)\n"), {"C19.R1"}),
    Variant("gate-target-valueerror", VA, replace_once("            if target not in nodes:\n                raise GraphConfigError(\n                    f\"Gate '{node.name}' targets unknown node '{target}'", "            if target not in nodes:\n                raise ValueError(\n                    f\"Gate '{node.name}' targets unknown node '{target}'"), {"C19.R2"}),
    Variant("mutex-expansion-unguarded", CO, replace_once("        targets = [t for t in node.targets if t is not END and isinstance(t, str) and t in G]", "        targets = [t for t in node.targets if t is not END and isinstance(t, str)]"), {"C19.R3"}),
    Variant("control-edges-unguarded", CORE, replace_once("                if target in G.nodes and not G.has_edge(node.name, target):", "                if not G.has_edge(node.name, target):"), {"C19.R3"}),
    Variant("graph-nodes-rebound-in-copy", CORE, replace_once("        new_graph._bound = dict(self._bound)\n        # Clear cached_property", "        new_graph._bound = dict(self._bound)\n        new_graph._nodes = dict(self._nodes)\n        # Clear cached_property"), {"C19.R4"}),
    Variant("invalidate-own-class-only", BASE, replace_once("isinstance(getattr(cls, key, None), functools.cached_property)", "isinstance(vars(cls).get(key), functools.cached_property)"), {"C19.R5"}),
    Variant("types-skip-missing-input-annotation", VA, sub_once(r"                if input_type is None:\n                    raise GraphConfigError\(\n.*?\n                    \)\n\n                # Check type compatibility", "                if input_type is None:\n                    continue\n\n                # Check type compatibility"), {"C19.R6"}),
    Variant("types-args-swapped", VA, replace_once("            if not is_type_compatible(output_type, input_type):", "            if not is_type_compatible(input_type, output_type):"), {"C19.R6"}),
    Variant("conflicts-adjacent-pairs-only", CO, lambda s_: s_.replace("for a, b in combinations(sources, 2):", "for a, b in zip(sources, sources[1:]):"), {"C19.R7"}),
    Variant("twin-validators-reordered", VA, replace_once("    _validate_gate_targets(nodes)\n    _validate_no_gate_self_loop(nodes)\n", "    _validate_no_gate_self_loop(nodes)\n    _validate_gate_targets(nodes)\n"), set()),
    Variant("types-first-consumer-only", VA, chain(replace_once("    for source_name, target_name, edge_data in nx_graph.edges(data=True):\n        if edge_data.get(\"edge_type\") != \"data\":", "    seen: set[str] = set()\n    for source_name, target_name, edge_data in nx_graph.edges(data=True):\n        if edge_data.get(\"edge_type\") != \"data\":"), replace_once("            producers = [source_node] +", "            if value_name in seen:\n                continue\n            seen.add(value_name)\n            producers = [source_node] +")), {"C19.R6"}),
    Variant("types-ordering-edges-checked", VA, replace_once("        if edge_data.get(\"edge_type\") != \"data\":\n            continue  # control and ordering (emit/wait_for) edges carry no typed value\n", ""), {"C19.R6"}),
    Variant("types-edge-source-only", VA, replace_once("            producers = [source_node] + [n for n in nodes.values() if n is not source_node and value_name in n.outputs]\n", "            producers = [source_node]\n"), {"C19.R6"}),
    Variant("twin-types-skip-by-kind-set", VA, replace_once("        if edge_data.get(\"edge_type\") != \"data\":", "        if edge_data.get(\"edge_type\") in (\"control\", \"ordering\"):"), set()),
    Variant("twin-edge-endpoints-via-get", CORE, chain(replace_once("            if src not in self._nodes:\n                raise GraphConfigError(f\"Edge references unknown source node '{src}'\")\n", "            if self._nodes.get(src) is None:\n                raise GraphConfigError(f\"Edge references unknown source node '{src}'\")\n"), replace_once("            if dst not in self._nodes:\n                raise GraphConfigError(f\"Edge references unknown target node '{dst}'\")\n", "            if self._nodes.get(dst) is None:\n                raise GraphConfigError(f\"Edge references unknown target node '{dst}'\")\n")), set()),
    Variant("edge-target-not-looked-up", CORE, replace_once("            if dst not in self._nodes:\n                raise GraphConfigError(f\"Edge references unknown target node '{dst}'\")\n", ""), {"C19.R1"}),
    Variant("self-pair-not-rejected", CO, sub_once(r"    # A node that lists one output name twice.*?distinct names\"\n                \)\n\n", ""), {"C19.R7"}),
    Variant("graph-node-names-unchecked", VA, replace_once("            _validate_graph_name(node.name)\n        elif not node.name.isidentifier():", "            pass\n        elif not node.name.isidentifier():"), {"C19.R1"}),
]

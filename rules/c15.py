"""C15 max_concurrency bounds all node executions globally and never deadlocks."""

from __future__ import annotations

import ast

from sa.cfg import all_paths_pass, dominators, find_path, fmt_path, reachable, reaches, specialize, test_atoms
from sa.db import AnalysisError, FuncInfo, dotted, src, walk_local
from sa.flow import defs_reaching, reaching_defs
from sa.model import contains, enclosing, execute_impl_funcs, is_user_func_call, superstep_funcs
from sa.variants import Variant, replace_once, sub_first, sub_once

from .common import call_names, enclosing_facts, is_none_fact, runner_no_raise, template_methods

ID = "C15"
EXPLANATION = (
    "Decides the structural necessary conditions of a global bound without deadlock: (R1) while the limiter permit is held (async with <limiter>) "
    "the transitive callee closure contains no run/map/superstep and no second acquisition — the permit is never held across a nested run, for "
    "every nesting/mapping shape; (R2) every user callable whose result may be awaited by the async executors is invoked under the permit whenever a "
    "limiter is installed (gate routing functions are exempt: construction rejects async/generator routing functions, checked); (R3) every "
    "Semaphore construction is guarded by 'no limiter installed in this context', so one limiter governs the whole call tree; (R4) every installed "
    "limiter token is reset on all exits (finally); (R5) the limiter is installed before map item tasks are created, so they inherit it. (R6) the bounded map restores input order exactly like the unbounded one (index and result appended as an atomic pair after the item finished, results sorted by index) — 'same result as the unlimited run'. (R7) the limit never decides which ready nodes belong to a superstep: the list handed to the superstep is exactly the scheduler's result."
    " R3 also requires that no code path is selected by a particular value of the limit (it is tested for presence and sizes the limiter only)."
    " R6 also requires that in raise mode every 'raise <item>.error' of the async map scans the input-ordered result list, so the bounded map raises the same (lowest-index) failure as the unbounded one whatever the completion order."
)
NOT_DECIDED = "Equality with the unlimited run and fairness/starvation of the asyncio scheduler; that sync routing functions (which take no permit) are counted by an observer as executing bodies."

LIMITER_GETTERS = {"get_concurrency_limiter", "_get_concurrency_limiter"}
LIMITER_SETTERS = {"set_concurrency_limiter", "_set_concurrency_limiter"}
LIMITER_RESET = {"reset_concurrency_limiter", "_reset_concurrency_limiter"}


def _limiter_locals(db, f: FuncInfo) -> set[str]:
    out = set()
    for name, defs in db.local_defs(f).items():
        for d in defs:
            if isinstance(d, ast.Assign) and isinstance(d.value, ast.Call) and call_names(db, d.value, f) & LIMITER_GETTERS:
                out.add(name)
    return out


def _permit_regions(db, f: FuncInfo) -> list[ast.AsyncWith]:
    lim = _limiter_locals(db, f)
    out = []
    for n in walk_local(f.node):
        if isinstance(n, (ast.AsyncWith, ast.With)):
            for it in n.items:
                e = it.context_expr
                if isinstance(e, ast.Name) and e.id in lim:
                    out.append(n)
                elif isinstance(e, ast.Call) and call_names(db, e, f) & LIMITER_GETTERS:
                    out.append(n)
    return out


def run(ctx) -> None:
    db, rep = ctx.db, ctx.rep
    rep.rule("C15.R1", "no nested run/map/superstep and no second acquisition while a permit is held", floor=2)
    rep.rule("C15.R2", "every awaited user callable of the async executors runs under the permit when a limiter is installed", floor=3)
    rep.rule("C15.R3", "every Semaphore construction is guarded by 'no limiter installed'", floor=2)
    rep.rule("C15.R4", "every installed limiter token is reset on all exits", floor=2)
    rep.rule("C15.R5", "the limiter is installed before map item tasks are created", floor=1)
    rep.rule("C15.R7", "the limit only bounds open node bodies: it never decides which ready nodes belong to a superstep", floor=2)
    rep.rule("C15.R6", "the bounded map returns the same list as the unbounded one: results restored to input order", floor=3)

    run_like = set(template_methods(db, "run") + template_methods(db, "map") + superstep_funcs(db) + execute_impl_funcs(db))

    # ---- R1 ---------------------------------------------------------------------
    all_regions = []
    for f in db.funcs_in("runners"):
        for reg in _permit_regions(db, f):
            all_regions.append((f, reg))
            roots = []
            direct_bad = None
            for st in reg.body:
                for c in [x for x in [st] + list(walk_local(st)) if isinstance(x, ast.Call)]:
                    for cal in db.resolve_call(c, f):
                        if cal.func is not None:
                            roots.append(cal.func)
                for w in [x for x in [st] + list(walk_local(st)) if isinstance(x, (ast.AsyncWith, ast.With))]:
                    if w in _permit_regions(db, f):
                        direct_bad = f"second acquisition at line {w.lineno} while the permit is held"
                for c in [x for x in [st] + list(walk_local(st)) if isinstance(x, ast.Call)]:
                    if isinstance(c.func, ast.Attribute) and c.func.attr == "acquire":
                        direct_bad = f"explicit acquire at line {c.lineno} while the permit is held"
            clo = db.closure(roots, property_reads=False)
            bad_path = None
            for g, path in clo.items():
                if g in run_like:
                    bad_path = path
                    break
                if _permit_regions(db, g) and g is not f:
                    bad_path = path
                    break
                if g is f:
                    bad_path = path  # recursion into the acquiring function
                    break
            ok = bad_path is None and direct_bad is None
            msg = f"permit body closure ({len(clo)} functions) reaches no run/map/superstep and no second acquisition"
            if bad_path is not None:
                msg = "the permit is held across " + " -> ".join(p.qname.split("hypergraph.")[-1] for p in bad_path) + " (nested run/acquisition under a held permit: deadlock once k permits are held by parents)"
            elif direct_bad:
                msg = direct_bad
            rep.add("C15.R1", f"{f.qname}:async-with-limiter", ok, f"{f.module.rel}:{reg.lineno}", msg)
    # acquire() without with
    for f in db.funcs_in("runners"):
        lim = _limiter_locals(db, f)
        for c in db.calls_in(f):
            if isinstance(c.func, ast.Attribute) and c.func.attr in ("acquire", "release") and isinstance(c.func.value, ast.Name) and c.func.value.id in lim:
                rep.bad("C15.R1", f"{f.qname}:{c.func.attr}", f"{f.module.rel}:{c.lineno}", "manual acquire/release of the limiter (pairing on all paths is not established by 'async with')")

    # ---- R2 ---------------------------------------------------------------------
    sites = []
    for f in db.all_funcs():
        if not (f.module.name.startswith("hypergraph.runners.async_") or f.module.name.endswith("gate_execution")):
            continue
        for c in db.calls_in(f):
            if is_user_func_call(db, c, f):
                sites.append((f, c))
    if len(sites) < 3:
        raise AnalysisError(f"only {len(sites)} user-callable invocation sites found in the async executors")
    # gate exemption: routing functions are rejected at construction if async
    vr = db.maybe_func("nodes.gate._validate_routing_func")
    gate_sync = False
    if vr is not None:
        txt = src(vr.node)
        gate_sync = "iscoroutinefunction" in txt and "isasyncgenfunction" in txt and any(isinstance(n, ast.Raise) for n in walk_local(vr.node))
        gate_cls = db.cls("nodes.gate.GateNode")
        callers = [g for g, _ in db.callers_of(vr)]
        gate_sync = gate_sync and len([g for g in callers if g.name == "__init__"]) >= 2

    def covered(f: FuncInfo, call: ast.Call, depth: int = 0) -> tuple[bool, str]:
        """Is this call executed under a permit whenever a limiter is installed?"""
        regs = _permit_regions(db, f)
        if any(contains(r, call) for r in regs):
            return True, "inside 'async with <limiter>'"
        lim = _limiter_locals(db, f)
        if lim:
            cfg = ctx.cfg(f)
            val = {}
            for nm in lim:
                val[nm] = True
                val[f"{nm} is None"] = False
            live = reachable(cfg.entry, specialize(val))
            ns = [n for n in cfg.node_containing(call) if n in live]
            if not ns:
                return True, "only reachable when no limiter is installed"
            return False, f"reachable at line {call.lineno} with a limiter installed but outside the permit"
        if depth > 3:
            return False, "call chain too deep"
        callers = db.callers_of(f)
        if not callers:
            return False, "no permit region and no known caller"
        for g, c in callers:
            ok, why = covered(g, c, depth + 1)
            if not ok:
                return False, f"called from {g.qname.split('hypergraph.')[-1]}:{c.lineno} which is {why}"
        return True, f"every caller ({len(callers)}) holds the permit or runs only without a limiter"

    for f, c in sites:
        inst = f"{f.qname}:{src(c.func)}"
        loc = f"{f.module.rel}:{c.lineno}"
        if f.module.name.endswith("gate_execution"):
            rep.add("C15.R2", inst, gate_sync, loc, "gate routing function: sync by construction (async/generator routing functions are rejected in both gate constructors), never awaited" if gate_sync else "gate routing functions are no longer guaranteed to be synchronous, yet they run outside the permit")
            continue
        ok, why = covered(f, c)
        rep.add("C15.R2", inst, ok, loc, why if ok else f"user callable may be awaited outside the limiter: {why}")

    # draining a generator returned by a node function runs the function's body: same obligation
    n_drain = 0
    for f in db.all_funcs():
        if not f.module.name.startswith("hypergraph.runners.async_.executors"):
            continue
        for n in walk_local(f.node):
            site = None
            if isinstance(n, (ast.ListComp, ast.SetComp, ast.GeneratorExp, ast.DictComp)) and any(g.is_async for g in n.generators):
                site = n
            elif isinstance(n, ast.AsyncFor):
                site = n
            elif isinstance(n, ast.Call) and dotted(n.func) in ("list", "tuple") and len(n.args) == 1 and isinstance(n.args[0], ast.Name):
                # list(result) where result was produced by the node function in this executor
                nm = n.args[0].id
                produced = nm in f.param_names and False
                for g in [f] + [x for x in db.all_funcs() if x.module == f.module]:
                    for d in db.local_defs(g).get(nm, []):
                        v = getattr(d, "value", None)
                        v = v.value if isinstance(v, ast.Await) else v
                        if isinstance(v, ast.Call) and (is_user_func_call(db, v, g) or any(is_user_func_call(db, c2, cal.func) for cal in db.resolve_call(v, g) if cal.func is not None for c2 in db.calls_in(cal.func))):
                            produced = True
                if produced:
                    site = n
            if site is None:
                continue
            n_drain += 1
            # a synthetic call-like site: reuse the coverage test on the enclosing statement
            fake = site
            while not isinstance(fake, ast.stmt):
                fake = getattr(fake, "_parent", None)
            holder = ast.Call(func=ast.Name(id="drain", ctx=ast.Load()), args=[], keywords=[])
            holder._parent = fake  # type: ignore[attr-defined]
            holder.lineno = getattr(site, "lineno", 0)  # type: ignore[attr-defined]
            regs = _permit_regions(db, f)
            if any(contains(r, site) for r in regs):
                ok, why = True, "inside 'async with <limiter>'"
            else:
                lim = _limiter_locals(db, f)
                if lim:
                    cfg = ctx.cfg(f)
                    val = {}
                    for nm2 in lim:
                        val[nm2] = True
                        val[f"{nm2} is None"] = False
                    live = reachable(cfg.entry, specialize(val))
                    ns = [x for x in cfg.node_containing(site) if x in live]
                    ok, why = (not ns), ("only reachable when no limiter is installed" if not ns else f"the generator is drained at line {site.lineno} with a limiter installed but after the permit was released")
                else:
                    callers = db.callers_of(f)
                    ok = bool(callers)
                    why = "no permit region and no known caller"
                    for g, c in callers:
                        o2, w2 = covered(g, c, 1)
                        if not o2:
                            ok, why = False, f"drained in {f.name}, which is called from {g.qname.split('hypergraph.')[-1]}:{c.lineno} {w2}"
                    if ok:
                        why = f"every caller ({len(callers)}) holds the permit or runs only without a limiter"
            rep.add("C15.R2", f"{f.qname}:drain-generator@{_ordinal(f, site)}", ok, f"{f.module.rel}:{site.lineno}", why if ok else f"a node's generator body runs outside the limiter: {why}")

    # ---- R3 ---------------------------------------------------------------------
    def guarded_by_no_limiter(f: FuncInfo, node: ast.AST) -> tuple[bool, str]:
        lim = _limiter_locals(db, f)
        # an enclosing branch (either polarity) in which `<lim> is None` is known to hold
        for atom, pol in enclosing_facts(node):
            e = is_none_fact(atom, pol)
            if e is None:
                continue
            if isinstance(e, ast.Name) and e.id in lim:
                return True, f"guarded by '{src(e)} is None'"
            if isinstance(e, ast.Call) and call_names(db, e, f) & LIMITER_GETTERS:
                return True, f"guarded by '{src(e)} is None'"
        return False, "not under a 'no limiter installed' guard"

    n_sem = 0
    for f in db.funcs_in("runners"):
        for c in db.calls_in(f):
            if dotted(c.func) in ("asyncio.Semaphore", "asyncio.BoundedSemaphore", "Semaphore"):
                n_sem += 1
                ok, why = guarded_by_no_limiter(f, c)
                if not ok:
                    # wrapper: all call sites of the enclosing function must be guarded
                    callers = db.callers_of(f)
                    if callers:
                        ok = True
                        for g, cc in callers:
                            o2, w2 = guarded_by_no_limiter(g, cc)
                            if not o2:
                                ok, why = False, f"wrapper {f.name}() called at {g.qname.split('hypergraph.')[-1]}:{cc.lineno} {w2}"
                        if ok:
                            why = f"wrapper: all {len(callers)} call site(s) are guarded by 'no limiter installed'"
                rep.add("C15.R3", f"{f.qname}:Semaphore", ok, f"{f.module.rel}:{c.lineno}", why if ok else f"a second limiter can be created inside an existing call tree ({why}): the bound becomes per-run instead of global")
    if n_sem < 2:
        raise AnalysisError(f"only {n_sem} Semaphore constructions found")

    # ---- R7 ---------------------------------------------------------------------
    from .c03 import check_ready_list_provenance

    check_ready_list_provenance(ctx, "C15.R7")

    # whenever a limit is given and no limiter is installed yet, one is installed — unconditionally (whether a
    # node body suspends is decided at run time, not by how the functions were declared)
    from sa.cfg import test_atoms as _ta

    n_inst = 0
    for f in db.funcs_in("runners"):
        sets_ = [c for c in db.calls_in(f) if call_names(db, c, f) & LIMITER_SETTERS]
        # the limit is the parameter the semaphore is built from (a private method may call it anything)
        limit_names = {a.id for c in db.calls_in(f) if (dotted(c.func) or "").split(".")[-1] == "Semaphore" for a in c.args if isinstance(a, ast.Name)} | {"max_concurrency"}
        limit_params = [p_ for p_ in f.param_names if p_ in limit_names]
        if not sets_ or f.name in LIMITER_SETTERS or not limit_params:
            continue
        fcfg = ctx.cfg(f, runner_no_raise(db))
        lim = _limiter_locals(db, f)
        val = {f"{p_} is None": False for p_ in limit_params}
        val.update({f"{p_} is not None": True for p_ in limit_params})
        for t in fcfg.nodes:
            if t.kind == "test" and t.ast is not None:
                for a in _ta(t.ast):
                    if isinstance(a, ast.Compare) and len(a.ops) == 1 and isinstance(a.ops[0], ast.Is) and isinstance(a.comparators[0], ast.Constant) and a.comparators[0].value is None:
                        if isinstance(a.left, ast.Name) and a.left.id in lim or isinstance(a.left, ast.Call) and call_names(db, a.left, f) & LIMITER_GETTERS:
                            val[src(a)] = True
        set_nodes = [n for n in fcfg.nodes if any(c in sets_ for c in fcfg.calls_at(n))]
        ss_names = {g_.name for g_ in superstep_funcs(db)}
        work = [n for n in fcfg.nodes if n not in set_nodes and any(isinstance(x, ast.Await) and isinstance(x.value, ast.Call) and ((dotted(x.value.func) or "").split(".")[-1] in {"gather", "run", "_run_map_item"} | ss_names or call_names(db, x.value, f) & ss_names) for e in fcfg.header_exprs(n) for x in ast.walk(e))]
        n_inst += 1
        ok = bool(set_nodes) and bool(work) and all(all_paths_pass(fcfg.entry, w, set_nodes, specialize(val, fcfg)) for w in work if reaches(fcfg.entry, w, specialize(val, fcfg)))
        rep.add("C15.R3", f"{f.qname}:limiter-installed-when-limit-given", ok, f.loc(), "with a limit given and no limiter installed, every awaited piece of work is preceded by installing one" if ok else "with max_concurrency given and no limiter installed yet, work can start without a limiter being installed (extra condition on the installation): node bodies that suspend at run time then run unbounded")
    if n_inst < 2:
        raise AnalysisError(f"only {n_inst} limiter installation sites found")
    # the same result for every k: a particular value of the limit never selects a code path — the limit is tested for
    # presence (is None / is not None) and otherwise only sizes things (Semaphore(k), min(k, n) workers)
    n_lim = 0
    for f in db.funcs_in("runners"):
        lims = {p_ for p_ in f.param_names if p_ == "max_concurrency"} | {a.id for c in db.calls_in(f) if (dotted(c.func) or "").split(".")[-1] == "Semaphore" for a in c.args if isinstance(a, ast.Name)}
        if not lims:
            continue
        n_lim += 1
        bad = [x for x in walk_local(f.node) if isinstance(x, ast.Compare) and any(isinstance(z, ast.Name) and z.id in lims for y in [x.left] + list(x.comparators) for z in ast.walk(y)) and not all(isinstance(o, (ast.Is, ast.IsNot)) for o in x.ops)]
        # ... and the limit the caller gave is never replaced (a re-bound parameter silently changes k for everything below)
        bad += [x for x in walk_local(f.node) if isinstance(x, (ast.Assign, ast.AugAssign, ast.AnnAssign)) for t in (x.targets if isinstance(x, ast.Assign) else [x.target]) if isinstance(t, ast.Name) and t.id in lims and t.id in f.param_names]
        bad += [t for n_ in walk_local(f.node) if isinstance(n_, (ast.If, ast.While, ast.IfExp)) for t in [n_.test] if isinstance(t, ast.Name) and t.id in lims]
        rep.add("C15.R3", f"{f.qname}:no-path-by-limit-value", not bad, f"{f.module.rel}:{bad[0].lineno if bad else f.lineno}", "the limit is only tested for presence and used to size the limiter" if not bad else f"'{src(bad[0])[:50]}' selects a code path by the value of the limit: the run for that k is not the unlimited run with fewer permits (e.g. a sequential k=1 path where the first failure skips the step's other nodes and their outputs)")
    if n_lim < 3:
        raise AnalysisError(f"only {n_lim} functions taking the limit found")
    # the shared limiter is a lock and nothing else: it is tested for presence and entered/acquired — no attribute of
    # it is ever read (its free-permit counter is a momentary value, not the configured limit k)
    n_use = 0
    bad_use = None
    for f in db.funcs_in("runners"):
        lim_ = _limiter_locals(db, f)
        getters = [c for c in db.calls_in(f) if call_names(db, c, f) & LIMITER_GETTERS]
        if not lim_ and not getters:
            continue
        n_use += 1
        for x in walk_local(f.node):
            if isinstance(x, ast.Attribute) and x.attr not in ("acquire", "release", "__aenter__", "__aexit__", "locked") and (isinstance(x.value, ast.Name) and x.value.id in lim_ or isinstance(x.value, ast.Call) and call_names(db, x.value, f) & LIMITER_GETTERS):
                bad_use = (f, x)
    rep.add("C15.R3", "runners:limiter-used-only-as-lock", bad_use is None and n_use >= 3, f"{bad_use[0].module.rel}:{bad_use[1].lineno}" if bad_use else "src/hypergraph/runners", f"{n_use} function(s) obtain the shared limiter: it is only tested for presence and acquired" if bad_use is None else f"'{src(bad_use[1])}' in {bad_use[0].name} reads the limiter's internal state: the number of permits free at that instant is not the limit k — with every permit held it is 0, so a nested map sized by it starts no worker and returns an empty result where the unlimited run returns every item")

    # ---- R6 ---------------------------------------------------------------------
    from .c10 import check_async_map_order

    check_async_map_order(ctx, "C15.R6")

    # ---- R4 / R5 -----------------------------------------------------------------
    for f in db.funcs_in("runners"):
        sets = [c for c in db.calls_in(f) if call_names(db, c, f) & LIMITER_SETTERS]
        if not sets or f.name in LIMITER_SETTERS:
            continue
        cfg = ctx.cfg(f, runner_no_raise(db))
        resets = [n for n in cfg.nodes if any(call_names(db, c, f) & LIMITER_RESET for c in cfg.calls_at(n))]
        for c in sets:
            sn = cfg.node_containing(c)
            ok = bool(sn) and bool(resets)
            why = "token is reset on every exit after the limiter was installed"
            if ok:
                # the token variable
                tok = None
                p = getattr(c, "_parent", None)
                while p is not None and not isinstance(p, ast.stmt):
                    p = getattr(p, "_parent", None)
                if isinstance(p, ast.Assign) and isinstance(p.targets[0], ast.Name):
                    tok = p.targets[0].id
                for s in sn:
                    # after the set completed normally (token is not None from here on, until rebound),
                    # every path to an exit passes a reset
                    from sa.flow import assigned_names

                    starts = [(t, True) for t, l, _ in s.succ if l != "exc"]
                    seen = set()
                    todo = list(starts)
                    prev = {}
                    while todo and ok:
                        n, fact = todo.pop()
                        if (n.id, fact) in seen:
                            continue
                        seen.add((n.id, fact))
                        if n in resets:
                            continue
                        if n in (cfg.exit_return, cfg.exit_raise):
                            ok = False
                            why = f"an exit is reachable after installing the limiter without resetting it (line {s.lineno} -> {n.kind})"
                            break
                        nfact = fact and not (tok in assigned_names(cfg, n) and n is not s)
                        for t, l, i in n.succ:
                            if n.kind == "test" and fact and tok is not None and l in ("T", "F"):
                                from sa.cfg import eval_test

                                r = eval_test(n.ast, {f"{tok} is None": False, tok: True})
                                if r is True and l == "F":
                                    continue
                                if r is False and l == "T":
                                    continue
                            todo.append((t, nfact if l != "exc" else fact))
                if tok is None or not all(any(isinstance(a, ast.Name) and a.id == tok for cc in cfg.calls_at(r) for a in cc.args) for r in resets):
                    ok, why = False, "the reset does not use the token returned by this set"
            else:
                why = "limiter is set but never reset in this function"
            rep.add("C15.R4", f"{f.qname}:set-reset", ok, f"{f.module.rel}:{c.lineno}", why)
        # R5 (map): install before creating/gathering item tasks
        if f.name == "map":
            val5 = {"max_concurrency is None": False, "max_concurrency is not None": True}
            for lv in _limiter_locals(db, f):
                val5[f"{lv} is None"] = True
            # the same test written on the getter's result directly (no local in between)
            for t in cfg.nodes:
                if t.kind == "test" and t.ast is not None:
                    for a in test_atoms(t.ast):
                        if isinstance(a, ast.Compare) and len(a.ops) == 1 and isinstance(a.ops[0], (ast.Is, ast.IsNot)) and isinstance(a.left, ast.Call) and call_names(db, a.left, f) & LIMITER_GETTERS and isinstance(a.comparators[0], ast.Constant) and a.comparators[0].value is None:
                            val5[src(a)] = isinstance(a.ops[0], ast.Is)
            dom = dominators(cfg.entry, specialize(val5))
            setn = {n for c in sets for n in cfg.node_containing(c)}
            spawn = [n for n in cfg.nodes if any(dotted(c.func) in ("asyncio.gather", "asyncio.create_task", "asyncio.ensure_future") for c in cfg.calls_at(n))]
            bad = [n for n in spawn if n in dom and not (dom[n] & setn)]
            rep.add("C15.R5", f"{f.qname}:install-before-spawn", not bad and bool(spawn), f"{f.module.rel}:{bad[0].lineno if bad else f.lineno}", "limiter installation dominates task creation when max_concurrency is given" if not bad else f"item tasks can be created at line {bad[0].lineno} before the limiter is installed (they would not inherit it)")


def _ordinal(f: FuncInfo, site: ast.AST) -> int:
    k = 0
    for n in walk_local(f.node):
        if n is site:
            return k
        if type(n) is type(site):
            k += 1
    return k


AF = "src/hypergraph/runners/async_/executors/function_node.py"
AI = "src/hypergraph/runners/async_/executors/interrupt_node.py"
AG = "src/hypergraph/runners/async_/executors/graph_node.py"
AR = "src/hypergraph/runners/async_/runner.py"
TA = "src/hypergraph/runners/_shared/template_async.py"
VARIANTS = [
    Variant("map-drops-limit-when-it-cannot-bind", TA, replace_once("        try:\n            # Install the shared limiter inside the try", "        if max_concurrency is not None and len(input_variations) == 1:\n            max_concurrency = None\n        try:\n            # Install the shared limiter inside the try"), {"C15.R3"}),
    Variant("bounded-map-raises-last-appended-failure", TA, replace_once("                results = [r for _, r in sorted(zip(order, results_list, strict=False))]\n                if error_handling == \"raise\":\n                    for result in results:\n                        if result.status == RunStatus.FAILED:\n                            raise result.error  # type: ignore[misc]\n", "                results = [r for _, r in sorted(zip(order, results_list, strict=False))]\n                if error_handling == \"raise\":\n                    for result in results_list:\n                        if result.status == RunStatus.FAILED:\n                            raise result.error  # type: ignore[misc]\n"), {"C15.R6"}),
    Variant(
        "graphnode-under-permit",
        AG,
        lambda s: s.replace("from hypergraph.runners._shared.types import PauseExecution, PauseInfo, RunResult, RunStatus\n", "from hypergraph.runners._shared.types import PauseExecution, PauseInfo, RunResult, RunStatus\nfrom hypergraph.runners.async_.superstep import get_concurrency_limiter\n").replace(
            "        result = await self.runner.run(\n            node.graph,\n            inner_inputs,\n            event_processors=event_processors,\n            _parent_span_id=parent_span_id,\n        )\n        return self._handle_nested_result(node, result)",
            "        semaphore = get_concurrency_limiter()\n        if semaphore:\n            async with semaphore:\n                result = await self.runner.run(\n                    node.graph,\n                    inner_inputs,\n                    event_processors=event_processors,\n                    _parent_span_id=parent_span_id,\n                )\n        else:\n            result = await self.runner.run(\n                node.graph,\n                inner_inputs,\n                event_processors=event_processors,\n                _parent_span_id=parent_span_id,\n            )\n        return self._handle_nested_result(node, result)",
        ),
        {"C15.R1"},
    ),
    Variant("function-executor-no-permit", AF, replace_once("        if semaphore:\n            async with semaphore:\n                return await self._execute(node, inputs)\n        return await self._execute(node, inputs)", "        return await self._execute(node, inputs)"), {"C15.R2"}),
    Variant("generator-drained-after-permit", AF, lambda s_: s_.replace("        if semaphore:\n            async with semaphore:\n                return await self._execute(node, inputs)\n        return await self._execute(node, inputs)", "        if semaphore:\n            async with semaphore:\n                result = await self._execute(node, inputs)\n        else:\n            result = await self._execute(node, inputs)\n        if node.is_generator:\n            result = [item async for item in result] if inspect.isasyncgen(result) else list(result)\n        return wrap_outputs(node, result)").replace("        if node.is_generator:\n            result = [item async for item in result] if inspect.isasyncgen(result) else list(result)\n\n        return wrap_outputs(node, result)", "        return result"), {"C15.R2"}),
    Variant("interrupt-handler-outside-permit", AI, replace_once("        if semaphore:\n            async with semaphore:\n                response = await _call_handler(node, input_values)\n        else:\n            response = await _call_handler(node, input_values)", "        response = await _call_handler(node, input_values)"), {"C15.R2"}),
    Variant("function-executor-wrong-branch", AF, replace_once("        if semaphore:\n            async with semaphore:\n                return await self._execute(node, inputs)\n        return await self._execute(node, inputs)", "        if semaphore is None:\n            async with semaphore:\n                return await self._execute(node, inputs)\n        return await self._execute(node, inputs)"), {"C15.R2"}),
    Variant("runner-limiter-unguarded", AR, replace_once("        if existing_limiter is None and max_concurrency is not None:\n            semaphore = asyncio.Semaphore(max_concurrency)", "        if max_concurrency is not None:\n            semaphore = asyncio.Semaphore(max_concurrency)"), {"C15.R3"}),
    Variant("map-limiter-unguarded", TA, replace_once("            if existing_limiter is None and max_concurrency is not None:\n                token = self._set_concurrency_limiter(max_concurrency)", "            if max_concurrency is not None:\n                token = self._set_concurrency_limiter(max_concurrency)"), {"C15.R3"}),
    Variant("runner-reset-not-in-finally", AR, sub_once(r"        finally:\n            # Reset concurrency limiter only if we set it\n            if token is not None:\n                reset_concurrency_limiter\(token\)\n\n        return state", "        if token is not None:\n            reset_concurrency_limiter(token)\n\n        return state"), {"C15.R4"}),
    Variant("map-install-after-spawn", TA, replace_once("            if existing_limiter is None and max_concurrency is not None:\n                token = self._set_concurrency_limiter(max_concurrency)\n\n            if max_concurrency is None:", "            if max_concurrency is None:").__call__ and (lambda s: s.replace("            if existing_limiter is None and max_concurrency is not None:\n                token = self._set_concurrency_limiter(max_concurrency)\n\n            if max_concurrency is None:", "            if max_concurrency is None:").replace("                num_workers = min(max_concurrency, len(input_variations))\n                workers = [asyncio.create_task(_worker()) for _ in range(num_workers)]\n", "                num_workers = min(max_concurrency, len(input_variations))\n                workers = [asyncio.create_task(_worker()) for _ in range(num_workers)]\n                if existing_limiter is None and max_concurrency is not None:\n                    token = self._set_concurrency_limiter(max_concurrency)\n")), {"C15.R5"}),
    Variant("twin-rename-semaphore-local", AF, lambda s: s.replace("semaphore", "limiter"), set()),
    Variant("twin-guard-order-swapped", AR, replace_once("if existing_limiter is None and max_concurrency is not None:", "if max_concurrency is not None and existing_limiter is None:"), set()),
]

"""C16 Scoping: entry points limit what runs; results hold only requested outputs."""

from __future__ import annotations

import ast

from sa.cfg import all_paths_pass, dominators, find_path, fmt_path, reachable, reaches, specialize
from sa.db import AnalysisError, bind_args, dotted, src, walk_local
from sa.flow import defs_reaching, reaching_defs
from sa.model import contains, enclosing, execute_impl_funcs
from sa.variants import Variant, replace_once, sub_first, sub_once

from .c07 import check_cache_invalidation
from .common import call_names, eval_bool, template_methods, vars_from_call

ID = "C16"
EXPLANATION = (
    "Decides the provenance of what runs and what is returned: (R1) every scheduler call of both runners passes the active set computed by "
    "compute_active_node_set for the same graph, that set is computed from the graph's current entry points (no cached view that a derivation could "
    "leave stale), and the scheduler skips inactive nodes before any readiness test; (R2) every RunResult under runners/ takes its values from "
    "filter_outputs(...) or an empty dict; (R3) both collectors exclude the emit sentinel by identity and draw names only from graph.outputs or the "
    "selection, and a run-time selection is validated against graph.outputs before execution; (R4) the internal routing key is added only to the "
    "stored copy and removed on restore; (R5) on_missing is validated before execution and its handling is exhaustive over the three declared "
    "values (ignore returns silently, warn warns, error raises); (R6) what a nested graph exposes and the nested run's default selection implement "
    "one policy. R3 also requires (CFG) that every explicit run-time selection other than '**' reaches the membership check against graph.outputs, because the collectors use any such object as the list of names to return. R5 also requires that every explicit selection (string shorthand or collection) is collected under the caller's on_missing policy; the collectors are found by their role in filter_outputs, not by name."
    " R5 also requires that every requested name absent from the state reaches the on_missing policy; R3 that the sentinel is only compared by identity."
)
NOT_DECIDED = "That the forward-reachability computation itself is right (a graph algorithm over data); results of failed/paused runs beyond using the same filter."


def check_sentinel_by_identity(ctx, rule: str) -> None:
    """Result filtering tells an ordering signal from a value by identity with the one module-level sentinel only: in
    filter_outputs and everything it hands the sentinel to, the sentinel is used in ``is`` / ``is not`` comparisons or
    passed on — never through type(), isinstance(), == or hashing (a value that merely resembles it — any plain
    object() — would be dropped from the results)."""
    db, rep = ctx.db, ctx.rep
    fo = db.func("runners._shared.helpers.filter_outputs")
    todo: list[tuple[FuncInfo, str]] = []
    for c in db.calls_in(fo):
        for cal in db.resolve_call(c, fo):
            if cal.func is not None and cal.kind == "func":
                for pn, a in (bind_args(c, cal.func) or {}).items():
                    if isinstance(a, ast.Name) and a.id == "_EMIT_SENTINEL":
                        todo.append((cal.func, pn))
    seen = set()
    n = 0
    while todo:
        f, sp = todo.pop()
        if (f.qname, sp) in seen:
            continue
        seen.add((f.qname, sp))
        n += 1
        bad = []
        for x in walk_local(f.node):
            if not (isinstance(x, ast.Name) and x.id == sp and isinstance(x.ctx, ast.Load)):
                continue
            par = getattr(x, "_parent", None)
            if isinstance(par, ast.Compare) and len(par.ops) == 1 and isinstance(par.ops[0], (ast.Is, ast.IsNot)):
                continue
            if isinstance(par, ast.Call) and x in par.args or isinstance(par, ast.keyword):
                call_ = par if isinstance(par, ast.Call) else getattr(par, "_parent", None)
                cals = [cal.func for cal in db.resolve_call(call_, f) if cal.func is not None and cal.kind == "func"] if isinstance(call_, ast.Call) else []
                if cals:
                    for g in cals:
                        for pn, a in (bind_args(call_, g) or {}).items():
                            if a is x:
                                todo.append((g, pn))
                    continue
            bad.append(par if par is not None else x)
        rep.add(rule, f"{f.qname}:sentinel-by-identity", not bad, f"{f.module.rel}:{bad[0].lineno if bad else f.lineno}", "the sentinel is only compared by identity (or handed on)" if not bad else f"'{src(bad[0])[:60]}' uses the sentinel other than in an identity comparison: a declared output whose value merely resembles it (a plain object() token, an equal value) is dropped from the returned values")
    if n < 2:
        raise AnalysisError(f"only {n} functions receiving the emit sentinel from filter_outputs found")


from .common import exposes_selection_else_all as _exposes_selection_else_all  # noqa: E402


def run(ctx) -> None:
    db, rep = ctx.db, ctx.rep
    rep.rule("C16.R1", "scheduling is restricted to the active set computed from the graph's current entry points", floor=6)
    rep.rule("C16.R2", "every RunResult's values come from filter_outputs or are empty", floor=6)
    rep.rule("C16.R3", "collectors exclude the sentinel and draw names from graph.outputs / the validated selection", floor=4)
    rep.rule("C16.R4", "internal routing key is confined to the stored copy", floor=2)
    rep.rule("C16.R5", "on_missing validated up front; handling exhaustive", floor=4)
    rep.rule("C16.R6", "nested exposure and default selection agree", floor=2)

    grn = db.func("runners._shared.helpers.get_ready_nodes")
    cans = db.func("runners._shared.helpers.compute_active_node_set")
    # ---- R1 ---------------------------------------------------------------------
    for impl in execute_impl_funcs(db):
        cfg = ctx.cfg(impl)
        rd = reaching_defs(cfg)
        n_calls = 0
        for n in cfg.nodes:
            for c in cfg.calls_at(n):
                if not any(cal.func == grn for cal in db.resolve_call(c, impl)):
                    continue
                n_calls += 1
                b = bind_args(c, grn)
                a = b.get("active_nodes")
                g_arg = b.get("graph")
                ok = isinstance(a, ast.Name) and g_arg is not None
                why = "scheduler call without the active set: nodes upstream of the entry points would run"
                if ok:
                    ds = defs_reaching(cfg, rd, n, a.id)
                    ok = bool(ds) and all(isinstance(v, ast.Call) and any(cal.func == cans for cal in db.resolve_call(v, impl)) and v.args and src(v.args[0]) == src(g_arg) for d, v in ds)
                    why = "active set = compute_active_node_set(<same graph>)" if ok else "the active set handed to the scheduler is not compute_active_node_set of the graph being run"
                rep.add("C16.R1", f"{impl.qname}:get_ready_nodes#{n_calls}", ok, f"{impl.module.rel}:{n.lineno}", why)
        # the scheduler reached through a helper of the runner: the active set must still be this activation's own
        # local — an attribute of the runner is shared with every nested run the same runner executes re-entrantly
        for n in cfg.nodes:
            for c in cfg.calls_at(n):
                for cal in db.resolve_call(c, impl):
                    m = cal.func
                    if m is None or m is impl or m.cls is None or impl.cls is None or not (impl.cls.is_subclass_of(m.cls) or m.cls.is_subclass_of(impl.cls) or m.cls is impl.cls):
                        continue
                    for c2 in db.calls_in(m):
                        if not any(k.func == grn for k in db.resolve_call(c2, m)):
                            continue
                        n_calls += 1
                        a2 = bind_args(c2, grn).get("active_nodes")
                        if isinstance(a2, ast.Name) and a2.id in m.param_names:
                            arg = bind_args(c, m).get(a2.id)
                            ds = defs_reaching(cfg, rd, n, arg.id) if isinstance(arg, ast.Name) else []
                            ok2 = bool(ds) and all(isinstance(v, ast.Call) and any(k.func == cans for k in db.resolve_call(v, impl)) for d, v in ds)
                            why2 = "active set = compute_active_node_set(<same graph>), handed through a helper" if ok2 else "the active set handed to the scheduler helper is not compute_active_node_set of the graph being run"
                        else:
                            ok2 = False
                            why2 = f"the scheduler helper {m.name} takes the active set from '{src(a2) if a2 is not None else 'nothing'}', not from this activation's own computation: the same runner object executes nested graphs re-entrantly, so a nested run overwrites the scope and the outer run continues unrestricted — nodes upstream of the entry point execute and overwrite the caller's values"
                        rep.add("C16.R1", f"{impl.qname}:get_ready_nodes#{n_calls}", ok2, f"{impl.module.rel}:{n.lineno}", why2)
        if n_calls < 1:
            raise AnalysisError(f"{impl.qname}: scheduler calls not found")
    # computed from the current entry points, no cached view
    rets = [n for n in walk_local(cans.node) if isinstance(n, ast.Return) and n.value is not None and not (isinstance(n.value, ast.Constant) and n.value.value is None)]
    ok = bool(rets) and all(isinstance(r.value, ast.Call) and "_active_from_entrypoints" in call_names(db, r.value, cans) and "entrypoints_config" in src(r.value.args[0]) for r in rets)
    none_guard = any(isinstance(n, ast.If) and "entrypoints_config is None" in src(n.test) for n in walk_local(cans.node))
    rep.add("C16.R1", f"{cans.qname}:from-current-entrypoints", ok and none_guard, cans.loc(), "active set is recomputed from graph.entrypoints_config on every run (None = all nodes)" if ok and none_guard else "the active set is not exactly the forward closure of the graph's current entry points (a cached view would survive with_entrypoint/bind/select on a derived graph; anything added to the closure - a controlling gate, a producer - is a node upstream of the entry points that may execute)")
    g = db.cls("graph.core.Graph")
    ep = g.methods.get("entrypoints_config")
    ok = ep is not None and ep.is_property and not any(d.endswith("cached_property") for d in ep.decorators) and any(isinstance(n, ast.Return) and src(n.value) == "self._entrypoints" for n in walk_local(ep.node))
    rep.add("C16.R1", f"{g.qname}.entrypoints_config", ok, ep.loc() if ep else g.loc(), "entrypoints_config returns the live _entrypoints attribute" if ok else "entrypoints_config is not a plain view of _entrypoints")
    check_cache_invalidation(ctx, "C16.R1", families=("Graph",))
    # scheduler skips inactive nodes first
    gcfg = ctx.cfg(grn)
    # under 'an active set is given and the node is not in it' neither the readiness test nor the ready list is reachable
    an = "active_nodes"
    member_atoms = set()
    for x in walk_local(grn.node):
        if isinstance(x, ast.Compare) and len(x.ops) == 1 and isinstance(x.ops[0], (ast.In, ast.NotIn)) and src(x.comparators[0]) == an:
            member_atoms.add(src(ast.Compare(x.left, [ast.In()], x.comparators)))
    val_cfg = {f"{an} is None": False}
    val_bool = {f"{an} is None": False}
    for a in member_atoms:
        val_cfg[a] = False
        val_cfg[a.replace(" in ", " not in ", 1)] = True
        val_bool[a] = False
    ready_tests = [n for n in gcfg.nodes if any("_is_node_ready" in call_names(db, c, grn) for c in gcfg.calls_at(n))]
    ok = bool(member_atoms) and bool(ready_tests)
    if ok:
        live = reachable(gcfg.entry, specialize(val_cfg, gcfg))
        for r in ready_tests:
            comps = [x for e in gcfg.header_exprs(r) for x in ast.walk(e) if isinstance(x, (ast.ListComp, ast.SetComp, ast.GeneratorExp)) and any(isinstance(c, ast.Call) and "_is_node_ready" in call_names(db, c, grn) for c in ast.walk(x))]
            if comps:
                # comprehension form: the filter is false under the valuation
                for cp in comps:
                    conj = ast.BoolOp(op=ast.And(), values=list(cp.generators[0].ifs)) if len(cp.generators[0].ifs) > 1 else (cp.generators[0].ifs[0] if cp.generators[0].ifs else ast.Constant(True))
                    if eval_bool(conj, val_bool) is not False:
                        ok = False
            elif r in live:
                ok = False
    rep.add("C16.R1", f"{grn.qname}:skip-inactive", ok, grn.loc(), "nodes outside the active set are skipped before any readiness test" if ok else "a node outside the active set can reach the readiness test / ready list")

    # ---- R2 ---------------------------------------------------------------------
    rr = db.cls("runners._shared.types.RunResult")
    n_rr = 0
    for f in db.funcs_in("runners"):
        cfg = None
        for c in db.calls_in(f):
            if not any(cal.cls == rr for cal in db.resolve_call(c, f)):
                continue
            n_rr += 1
            kw = {k.arg: k.value for k in c.keywords}
            v = kw.get("values")
            ok = False
            why = "RunResult without values="
            if v is not None:
                if isinstance(v, ast.Dict) and not v.keys:
                    ok, why = True, "empty values (no state available)"
                else:
                    cfg = cfg or ctx.cfg(f)
                    rd = reaching_defs(cfg)
                    exprs = [v]
                    if isinstance(v, ast.Name):
                        ns = cfg.node_containing(c)
                        exprs = [val for d, val in defs_reaching(cfg, rd, ns[0], v.id) if val is not None] if ns else []
                    ok = bool(exprs)
                    for e in exprs:
                        parts = [e.body, e.orelse] if isinstance(e, ast.IfExp) else [e]
                        for p in parts:
                            if isinstance(p, ast.Dict) and not p.keys:
                                continue
                            if isinstance(p, ast.Call) and "filter_outputs" in call_names(db, p, f):
                                continue
                            ok = False
                    why = "values = filter_outputs(...) (or {})" if ok else f"RunResult values '{src(v)[:40]}' bypass filter_outputs: inputs, sentinels or internal keys can leak into the result"
            rep.add("C16.R2", f"{f.qname}:RunResult#{n_rr}", ok, f"{f.module.rel}:{c.lineno}", why)
    if n_rr < 6:
        raise AnalysisError(f"only {n_rr} RunResult constructions found")

    fo_ = db.func("runners._shared.helpers.filter_outputs")
    for m in template_methods(db, "run"):
        for k, c in enumerate([c for c in db.calls_in(m) if "filter_outputs" in call_names(db, c, m)]):
            b = bind_args(c, fo_)
            ok = b.get("select") is not None and src(b["select"]) == "select" and src(b.get("graph")) == "graph"
            h = enclosing(c, (ast.ExceptHandler,))
            where = f"except {src(h.type)}" if h is not None and h.type is not None else "success path"
            rep.add("C16.R2", f"{m.qname}:filter_outputs#{k}:{where}", ok, f"{m.module.rel}:{c.lineno}", "values are restricted to the caller's run-time selection" if ok else f"filter_outputs on the {where} does not receive the run-time 'select': a completed/failed/paused result would fall back to the graph default or to all outputs")

    # ---- R3 ---------------------------------------------------------------------
    fo = db.func("runners._shared.helpers.filter_outputs")
    # the collectors are found by role: what filter_outputs returns for "**" and for an explicit selection
    focfg = ctx.cfg(fo)
    evars = set(vars_from_call(db, fo, {"_resolve_select"})) or {"effective"}
    star_atoms = {f"{v} == '**'" for v in evars}

    def returned_callees(val):
        live = reachable(focfg.entry, specialize(val, focfg))
        out = []
        for r in live:
            if r.kind == "stmt" and isinstance(r.ast, ast.Return) and isinstance(r.ast.value, ast.Call):
                for cal in db.resolve_call(r.ast.value, fo):
                    if cal.func is not None:
                        out.append((r, r.ast.value, cal.func))
        return out

    all_side = returned_callees({a: True for a in star_atoms})
    sel_side = returned_callees({a: False for a in star_atoms})
    if not all_side or not sel_side:
        raise AnalysisError("filter_outputs: collectors not recognised")
    ca = all_side[0][2]
    cs = [f_ for _, _, f_ in sel_side if f_ is not ca][0] if [f_ for _, _, f_ in sel_side if f_ is not ca] else sel_side[0][2]
    # every explicit selection is collected under the caller's on_missing policy
    omp = [p_ for p_ in fo.param_names if "missing" in p_][0]
    lacking = [c_ for _, c_, _ in sel_side if not any(isinstance(a, ast.Name) and a.id == omp for a in list(c_.args) + [k.value for k in c_.keywords])]
    rep.add("C16.R5", f"{fo.qname}:explicit-selection-under-policy", not lacking, f"{fo.module.rel}:{lacking[0].lineno if lacking else fo.lineno}", "every explicit selection (string shorthand or collection) is collected under the caller's on_missing policy" if not lacking else f"'{src(lacking[0])[:70]}' serves an explicit selection without the on_missing policy: a selected but unproduced name is silently ignored even with on_missing='warn'/'error'")
    # the collectors' own parameter names are not API: they are taken from the binding at the call in filter_outputs
    def roles(callee, side):
        call_ = next(c_ for _, c_, f_ in side if f_ is callee)
        inv = {}
        for pn, a in (bind_args(call_, callee) or {}).items():
            inv[src(a)] = pn
        return inv

    ra = roles(ca, all_side)
    G, ST, SN = ra.get("graph", "graph"), ra.get("state", "state"), ra.get("_EMIT_SENTINEL", "sentinel")
    comps = [n for n in walk_local(ca.node) if isinstance(n, ast.DictComp)]
    ok = len(comps) == 1 and src(comps[0].generators[0].iter) == f"{G}.outputs" and any(f"is not {SN}" in src(i) for i in comps[0].generators[0].ifs) and any(f"in {ST}.values" in src(i) for i in comps[0].generators[0].ifs)
    rep.add("C16.R3", f"{ca.qname}", ok, ca.loc(), "all-outputs collector iterates graph.outputs and drops the sentinel by identity" if ok else "the all-outputs collector no longer iterates graph.outputs only / no longer excludes the emit sentinel by identity")
    from sa.pattern import solve

    rs = roles(cs, sel_side)
    ST2, SN2 = rs.get("state", "state"), rs.get("_EMIT_SENTINEL", "sentinel")
    known = set(rs.values())
    NM = next((pn for pn in cs.positional_params if pn not in {ST2, SN2, rs.get("graph"), rs.get(omp)} and pn != "self"), "names")
    loops = [n for n in walk_local(cs.node) if isinstance(n, ast.For)]
    ok = len(loops) == 1 and bool(solve([f"for _K in {NM}: ...", f"_R[_K] = {ST2}.values[_K]", f"{ST2}.values[_K] is not {SN2}", "return _R"], cs.node))
    rep.add("C16.R3", f"{cs.qname}", ok, cs.loc(), "selected collector iterates the requested names and drops the sentinel by identity" if ok else "the selected-outputs collector can return names outside the selection or a sentinel value")
    # on_missing decides about *every* selected name that was not produced: in the selected collector, a requested name
    # that is absent from the state always lands in the list handed to the policy handler (no further condition such
    # as 'could have been computed in this scope')
    from .common import must_reach_in_iteration

    scfg = ctx.cfg(cs)
    hm_calls = [c_ for c_ in db.calls_in(cs) if "_handle_missing_outputs" in call_names(db, c_, cs) or any(cal.func is not None and any(isinstance(x, ast.Raise) for x in walk_local(cal.func.node)) and "missing" in cal.func.name for cal in db.resolve_call(c_, cs))]
    mlist = hm_calls[0].args[0].id if hm_calls and hm_calls[0].args and isinstance(hm_calls[0].args[0], ast.Name) else None
    sloops = [n for n in scfg.nodes if n.kind == "for" and isinstance(n.ast.target, ast.Name) and isinstance(n.ast.iter, ast.Name) and n.ast.iter.id == NM]
    ok_m, why_m = False, "the hand-over of missing names to the policy handler was not recognised"
    if mlist and sloops:
        K = sloops[0].ast.target.id
        adds = [n for n in scfg.nodes if any(isinstance(c_.func, ast.Attribute) and c_.func.attr == "append" and isinstance(c_.func.value, ast.Name) and c_.func.value.id == mlist and c_.args and src(c_.args[0]) == K for c_ in scfg.calls_at(n))]
        ok_m = bool(adds) and must_reach_in_iteration(scfg, sloops[0], adds, {f"{K} in {ST2}.values": False, f"{K} not in {ST2}.values": True})
        why_m = "every requested name that is absent from the state is handed to the on_missing policy" if ok_m else "a requested name that is absent from the state can be left out of the list the on_missing policy sees (an extra condition on recording it): with entry points, a selected but unproduced upstream output is silently ignored under on_missing='warn'/'error'"
    elif mlist:
        # comprehension form: missing = [k for k in names if k not in state.values]
        for d in db.local_defs(cs).get(mlist, []):
            v = getattr(d, "value", None)
            if isinstance(v, ast.ListComp) and len(v.generators) == 1 and src(v.generators[0].iter) == NM:
                conds = [src(i) for i in v.generators[0].ifs]
                K = src(v.generators[0].target)
                ok_m = conds == [f"{K} not in {ST2}.values"]
                why_m = "every requested name that is absent from the state is handed to the on_missing policy" if ok_m else f"the list of missing names is filtered by {conds}: more than absence from the state decides whether the policy sees a name"
    rep.add("C16.R5", f"{cs.qname}:every-missing-name-reaches-policy", ok_m, cs.loc(), why_m)
    # the policy (and the selection it applies to) the caller gave to map() is the one every item runs under
    from .c10 import check_map_forwards_options

    check_map_forwards_options(ctx, "C16.R5", only={"on_missing", "select"})
    # sentinel passed is the module constant
    sent_ok = all(any(isinstance(a, ast.Name) and a.id == "_EMIT_SENTINEL" for a in c.args) for c in db.calls_in(fo) if call_names(db, c, fo) & {ca.name, cs.name})
    check_sentinel_by_identity(ctx, "C16.R3")
    rep.add("C16.R3", f"{fo.qname}:sentinel", sent_ok, fo.loc(), "collectors receive the module's emit sentinel" if sent_ok else "collectors are not given the emit sentinel")
    rrs = db.func("runners._shared.validation.resolve_runtime_selected")
    ok = any(isinstance(n, ast.Assign) and isinstance(n.value, ast.ListComp) and "not in graph.outputs" in src(n.value) for n in walk_local(rrs.node)) and any(isinstance(n, ast.Raise) for n in walk_local(rrs.node))
    rep.add("C16.R3", f"{rrs.qname}:validated", ok, rrs.loc(), "a run-time selection naming anything but graph outputs is rejected" if ok else "run-time select names are no longer validated against graph.outputs (plain inputs could be selected)")
    # the collectors take *any* explicit select that is not "**" as the names to return, so the
    # validator must check every such select: no normal exit without the membership check
    rcfg = ctx.cfg(rrs)
    sp = (rrs.param_names + [""])[0]
    checks = [n for n in rcfg.nodes if n.kind == "stmt" and isinstance(n.ast, ast.Assign) and isinstance(n.ast.value, ast.ListComp) and "not in graph.outputs" in src(n.ast.value)]
    ok = bool(checks) and all_paths_pass(rcfg.entry, rcfg.exit_return, checks, specialize({f"{sp} is _UNSET_SELECT": False, f"{sp} == '**'": False}, rcfg))
    wit = ""
    if checks and not ok:
        pth = find_path(rcfg.entry, rcfg.exit_return, avoid=set(checks), ef=specialize({f"{sp} is _UNSET_SELECT": False, f"{sp} == '**'": False}, rcfg))
        wit = fmt_path(pth) if pth else ""
    rep.add("C16.R3", f"{rrs.qname}:every-explicit-selection-validated", ok, rrs.loc(), "every explicit run-time selection other than '**' reaches the membership check" if ok else f"an explicit run-time selection can leave the validator unchecked (path {wit}) although the collectors then use it as the list of names to return: select=('x',) returns the plain input x", wit)
    for m in template_methods(db, "run"):
        cfg = ctx.cfg(m)
        dom = dominators(cfg.entry)
        v = {n for n in cfg.nodes if any("resolve_runtime_selected" in call_names(db, c, m) for c in cfg.calls_at(n))}
        ex = [n for n in cfg.nodes if any(call_names(db, c, m) & {"_execute_graph_impl", "_execute_graph_impl_async"} for c in cfg.calls_at(n))]
        ok = bool(v) and bool(ex) and all(dom.get(e, set()) & v for e in ex)
        rep.add("C16.R3", f"{m.qname}:select-validated-first", ok, m.loc(), "selection is validated before execution" if ok else "execution can start before the run-time selection was validated")
    gsel = db.cls("graph.core.Graph").methods["select"]
    ok = any(isinstance(n, ast.Assign) and isinstance(n.value, ast.ListComp) and "not in all_outputs" in src(n.value) for n in walk_local(gsel.node)) and any(isinstance(n, ast.Raise) for n in walk_local(gsel.node))
    rep.add("C16.R3", f"{gsel.qname}:validated", ok, gsel.loc(), "graph-level selection is validated against the graph's outputs" if ok else "Graph.select no longer validates names against the outputs")

    # sentinels are recognised by identity, so a served cache entry must carry the module's sentinel object
    from .c09 import check_hit_restores_sentinel

    check_hit_restores_sentinel(ctx, "C16.R3")

    # ---- R4 ---------------------------------------------------------------------
    n_key = 0
    for f in db.all_funcs():
        for n in walk_local(f.node):
            if isinstance(n, ast.Name) and n.id == "_ROUTING_DECISION_KEY":
                n_key += 1
                okk = f.qname.endswith("caching.store_in_cache") or f.qname.endswith("caching.restore_routing_decision")
                if not okk:
                    rep.bad("C16.R4", f"{f.qname}:internal-key", f"{f.module.rel}:{n.lineno}", "the internal routing key is handled outside store/restore")
    sic = db.func("runners._shared.caching.store_in_cache")
    rrd = db.func("runners._shared.caching.restore_routing_decision")
    ok = any(isinstance(n, ast.Assign) and any(isinstance(t, ast.Subscript) and "_ROUTING_DECISION_KEY" in src(t.slice) and isinstance(t.value, ast.Name) and t.value.id != "outputs" for t in n.targets) for n in walk_local(sic.node))
    rep.add("C16.R4", f"{sic.qname}:key-in-copy", ok, sic.loc(), "the key is added to the stored copy, not to the live outputs" if ok else "the internal routing key is written into the live outputs dict")
    ok = any(isinstance(c.func, ast.Attribute) and c.func.attr == "pop" and c.args and "_ROUTING_DECISION_KEY" in src(c.args[0]) for c in db.calls_in(rrd))
    rep.add("C16.R4", f"{rrd.qname}:key-removed", ok, rrd.loc(), "restore removes the key from the cached outputs before they are applied" if ok else "restore leaves the internal key in the outputs applied to the state")

    # ---- R5 ---------------------------------------------------------------------
    valid = db.const_value(db.resolve_name("_VALID_ON_MISSING", fo.module, None))
    vals = [e.value for e in valid.elts if isinstance(e, ast.Constant)] if isinstance(valid, (ast.Tuple, ast.List)) else []
    rep.add("C16.R5", "on_missing:declared-values", sorted(vals) == ["error", "ignore", "warn"], fo.loc(), f"declared values {vals}" if sorted(vals) == ["error", "ignore", "warn"] else f"declared on_missing values are {vals}")
    hm = db.func("runners._shared.helpers._handle_missing_outputs")
    from .common import policy_valuation
    hcfg = ctx.cfg(hm)
    results = {}
    for v in vals:
        val = policy_valuation(hm, vals, v)
        live = reachable(hcfg.entry, specialize(val))
        raises = any(n.kind == "stmt" and isinstance(n.ast, ast.Raise) for n in live)
        warns = any(dotted(c.func) == "warnings.warn" for n in live for c in hcfg.calls_at(n))
        results[v] = ("raise" if raises else "") + ("warn" if warns else "")
    ok = results.get("ignore") == "" and results.get("warn") == "warn" and results.get("error") == "raise"
    rep.add("C16.R5", f"{hm.qname}:exhaustive", ok, hm.loc(), "ignore: silent; warn: warns; error: raises" if ok else f"on_missing handling is not exhaustive/consistent: {results}")
    live_bad = reachable(hcfg.entry, specialize(policy_valuation(hm, vals, None)))
    ok = hcfg.exit_return not in live_bad
    rep.add("C16.R5", f"{hm.qname}:rejects-unknown", ok, hm.loc(), "an undeclared policy raises" if ok else "an undeclared on_missing value is silently accepted")
    for m in template_methods(db, "run"):
        cfg = ctx.cfg(m)
        dom = dominators(cfg.entry)
        v = {n for n in cfg.nodes if any("_validate_on_missing" in call_names(db, c, m) for c in cfg.calls_at(n))}
        ex = [n for n in cfg.nodes if any(call_names(db, c, m) & {"_execute_graph_impl", "_execute_graph_impl_async"} for c in cfg.calls_at(n))]
        ok = bool(v) and bool(ex) and all(dom.get(e, set()) & v for e in ex)
        rep.add("C16.R5", f"{m.qname}:on_missing-validated-first", ok, m.loc(), "on_missing is validated before execution" if ok else "an invalid on_missing is only discovered after the graph ran")
        # the success path passes the caller's policy
        calls = [c for c in db.calls_in(m) if "filter_outputs" in call_names(db, c, m) and enclosing(c, (ast.ExceptHandler,)) is None]
        ok = bool(calls) and all(bind_args(c, fo).get("on_missing") is not None and src(bind_args(c, fo)["on_missing"]) == "on_missing" and src(bind_args(c, fo).get("select")) == "select" for c in calls)
        rep.add("C16.R5", f"{m.qname}:policy-applied", ok, m.loc(), "the completed run filters with the caller's select and on_missing" if ok else "the completed run does not filter with the caller's select / on_missing")

    # ---- R6 ---------------------------------------------------------------------
    gn = db.cls("nodes.graph_node.GraphNode")
    init = gn.methods["__init__"]
    outs = [n for n in walk_local(init.node) if isinstance(n, ast.Assign) and any(src(t) == "self.outputs" for t in n.targets)]
    from .common import wrapper_outputs_expose_selection

    ok = wrapper_outputs_expose_selection(db, init, outs)
    from .c17 import check_wrapper_offers_no_inner_signals

    check_wrapper_offers_no_inner_signals(ctx, "C16.R6")
    rep.add("C16.R6", f"{gn.qname}:exposed-outputs", ok, init.loc(), "a nested graph exposes its selection if set, else all outputs" if ok else "a nested graph does not expose 'selected else all outputs'")
    rs = db.func("runners._shared.helpers._resolve_select")
    from .common import returns_under

    p_sel, p_g = (rs.positional_params + ["select", "graph"])[:2]
    rcfg = ctx.cfg(rs)
    unset = {f"{p_sel} is _UNSET_SELECT": True, f"{p_sel} is not _UNSET_SELECT": False}
    given = {f"{p_sel} is _UNSET_SELECT": False, f"{p_sel} is not _UNSET_SELECT": True}
    has_sel = {f"{p_g}.selected is not None": True, f"{p_g}.selected is None": False, f"{p_g}.selected": True}
    no_sel = {f"{p_g}.selected is not None": False, f"{p_g}.selected is None": True, f"{p_g}.selected": False}
    r_given = returns_under(rcfg, given)
    r_graph = returns_under(rcfg, {**unset, **has_sel})
    r_all = returns_under(rcfg, {**unset, **no_sel})
    ok = (
        bool(r_given) and all(isinstance(e, ast.Name) and e.id == p_sel for e in r_given)
        and bool(r_graph) and all(f"{p_g}.selected" in src(e) and not (isinstance(e, ast.Constant)) for e in r_graph)
        and bool(r_all) and all(isinstance(e, ast.Constant) and e.value == "**" for e in r_all)
    )
    rep.add("C16.R6", f"{rs.qname}", ok, rs.loc(), "unset -> graph selection -> all; an explicit run-time select overrides" if ok else "effective selection is not 'run-time select, else graph selection, else all'")


HP = "src/hypergraph/runners/_shared/helpers.py"
SR = "src/hypergraph/runners/sync/runner.py"
AR = "src/hypergraph/runners/async_/runner.py"
TS = "src/hypergraph/runners/_shared/template_sync.py"
TA = "src/hypergraph/runners/_shared/template_async.py"
CORE = "src/hypergraph/graph/core.py"
CA = "src/hypergraph/runners/_shared/caching.py"
VARIANTS = [
    Variant("select-unexpected-type-unvalidated", "src/hypergraph/runners/_shared/validation.py", replace_once("    elif isinstance(select, Collection):", "    elif isinstance(select, (tuple, set)):\n        return None\n    elif isinstance(select, Collection):"), {"C16.R3"}),
    Variant("exhaustion-check-ignores-active-set", SR, replace_once("            if get_ready_nodes(graph, state, active_nodes=active_nodes):\n                raise ExecutionError(", "            if get_ready_nodes(graph, state):\n                raise ExecutionError("), {"C16.R1"}),
    Variant("async-scheduler-all-nodes", AR, replace_once("                ready_nodes = get_ready_nodes(graph, state, active_nodes=active_nodes)\n\n                if not ready_nodes:", "                ready_nodes = get_ready_nodes(graph, state, active_nodes=None)\n\n                if not ready_nodes:"), {"C16.R1"}),
    Variant("active-set-cached-on-graph", CORE, replace_once("    @property\n    def entrypoints_config(self)", "    @functools.cached_property\n    def active_node_names(self) -> set | None:\n        if self._entrypoints is None:\n            return None\n        return set(self._entrypoints)\n\n    @property\n    def entrypoints_config(self)"), {"C16.R1"}),
    Variant("scheduler-skip-after-ready", HP, replace_once("        if active_nodes is not None and node.name not in active_nodes:\n            continue\n        if _is_node_ready(node, graph, state, activated_nodes):\n            ready.append(node)", "        if _is_node_ready(node, graph, state, activated_nodes):\n            ready.append(node)\n        if active_nodes is not None and node.name not in active_nodes:\n            continue"), {"C16.R1"}),
    Variant("result-values-raw-state", TS, replace_once("            output_values = filter_outputs(state, graph, select, on_missing)\n", "            output_values = dict(state.values)\n"), {"C16.R2", "C16.R5"}),
    Variant("paused-values-unfiltered", TA, replace_once("            partial_values = filter_outputs(partial_state, graph, select) if partial_state is not None else {}\n            return RunResult(\n                values=partial_values,\n                status=RunStatus.PAUSED,", "            partial_values = dict(partial_state.values) if partial_state is not None else {}\n            return RunResult(\n                values=partial_values,\n                status=RunStatus.PAUSED,"), {"C16.R2"}),
    Variant("paused-values-ignore-select", TA, replace_once("            partial_values = filter_outputs(partial_state, graph, select) if partial_state is not None else {}\n            return RunResult(\n                values=partial_values,\n                status=RunStatus.PAUSED,", "            partial_values = filter_outputs(partial_state, graph) if partial_state is not None else {}\n            return RunResult(\n                values=partial_values,\n                status=RunStatus.PAUSED,"), {"C16.R2"}),
    Variant("collect-all-from-state", HP, replace_once("    return {k: state.values[k] for k in graph.outputs if k in state.values and state.values[k] is not sentinel}", "    return {k: v for k, v in state.values.items() if v is not sentinel}"), {"C16.R3"}),
    Variant("collect-sentinel-by-equality", HP, replace_once("    return {k: state.values[k] for k in graph.outputs if k in state.values and state.values[k] is not sentinel}", "    return {k: state.values[k] for k in graph.outputs if k in state.values}"), {"C16.R3"}),
    Variant("runtime-select-unvalidated", "src/hypergraph/runners/_shared/validation.py", sub_once(r"    invalid = \[n for n in sel if n not in graph\.outputs\]\n    if invalid:\n.*?\n        \)\n    return sel", "    return sel"), {"C16.R3"}),
    Variant("routing-key-in-live-outputs", CA, replace_once("    to_cache = dict(outputs)\n", "    to_cache = outputs\n"), set(), note="decided by C09.R4 (copy on store); C16.R4 checks where the key is written"),
    Variant("on-missing-error-only-warns", HP, replace_once("    elif on_missing == \"error\":\n        raise ValueError(msg)", "    elif on_missing == \"error\":\n        import warnings\n\n        warnings.warn(msg, UserWarning, stacklevel=6)"), {"C16.R5"}),
    Variant("on-missing-not-validated-up-front", TS, replace_once("        _validate_on_missing(on_missing)\n        _validate_error_handling(error_handling)\n\n        max_iter", "        _validate_error_handling(error_handling)\n\n        max_iter"), {"C16.R5"}),
    Variant("nested-exposes-all", "src/hypergraph/nodes/graph_node.py", replace_once("        exposed = graph.selected if graph.selected is not None else graph.outputs", "        exposed = graph.outputs"), {"C16.R6"}),
]

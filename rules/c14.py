"""C14 Interrupts pause before dependants run and resume to the same result."""

from __future__ import annotations

import ast

from sa.cfg import ALL_GROUPS, G_EXC, G_PAUSE, all_paths_pass, dominators, reachable, reaches, specialize
from sa.db import AnalysisError, FuncInfo, bind_args, dotted, src, walk_local
from sa.flow import defs_reaching, reaching_defs
from sa.model import contains, enclosing, execute_impl_funcs, is_user_func_call, superstep_funcs
from sa.variants import Variant, replace_once, sub_first, sub_once

from .common import call_names, runner_no_raise, template_methods, vars_from_call

ID = "C14"
EXPLANATION = (
    "Decides how a pause travels and what may consume it: (R1) PauseExecution derives from BaseException and not from Exception; (R2) every "
    "handler under runners/ that can catch it (bare, BaseException, PauseExecution) re-raises the same object on every path taken by a pause, or is "
    "the terminal converter in run() returning status PAUSED with the pause info, and after gather a non-Exception result is re-raised as it is "
    "before any wrapping; (R3) when the ready list contains an interrupt, exactly one interrupt is executed in that step (dominates task creation); "
    "(R4) the interrupt executor's resume path is taken only when all data outputs are in the state and the node has not executed, returns those "
    "values and is decided before the handler is called; the pause path raises and returns nothing; (R5) every nested run result in the async "
    "graph-node executor passes through the converter that re-raises with '<node>/<inner>', and the separator equals the one PauseInfo splits on; "
    "(R6) the partial-state attribute has the same name at the writer and the reader; (R7) a PAUSED nested result is never consumed as data: the map "
    "branch and the sync runner are guarded by an interrupt-reachability predicate that is closed under nesting. (R8) the PauseExecution handler of run() filters the values computed before the pause with the non-raising default policy, so a pause always yields the PAUSED result. R4 also requires that the 'None means pause' test is applied to the handler's resolved answer (awaited when awaitable on every path before it is compared); (R9) the pause description is built in the graph's name space (qualifier inference over the interrupt executor)."
    " R4 also requires that under 'exactly one data output' the function turning the handler's response into outputs reaches no raise and returns {output: response} verbatim — the resume path stores the supplied value as it is, so a dict answer is an answer, not a name-to-value mapping. (R10) in the interrupt-capable superstep the node cache is consulted and written only outside the executor's resume condition (every data output present in state.values, node not executed, interrupt nodes only): a supplied response is neither shadowed by a cached one nor stored as one."
    " (R11) storing the object that is already stored under a name never advances its version (under 'old is new' no version write is reachable in update_value): a resumed interrupt re-emits the caller's own object."
    " R4 also requires that the state initialiser stores every provided value unconditionally: the resume decision is read from the state, and an interrupt's own output may have no consumer at all."
)
NOT_DECIDED = "That pause followed by resume ends exactly as the auto-resolved run (a statement about computed values and histories); ordering of several interrupts beyond 'one per step'."


def _resume_shape(exprs: list[ast.AST], out_names: set[str] = frozenset()) -> dict[str, bool]:
    """What a resume condition consults: presence of every data output in state.values (membership under
    all(...)), absence of the node from state.node_executions.  ``out_names``: locals holding ``.data_outputs``."""
    walk = [x for e in exprs for x in ast.walk(e)]
    presence = [x for x in walk if isinstance(x, ast.Compare) and len(x.ops) == 1 and isinstance(x.ops[0], ast.In) and src(x.comparators[0]).endswith("state.values")]
    in_all = any(isinstance(x, ast.Call) and dotted(x.func) == "all" and any(p_ in list(ast.walk(x)) for p_ in presence) for x in walk)
    over_outputs = any(isinstance(x, ast.comprehension) and (src(x.iter).endswith(".data_outputs") or isinstance(x.iter, ast.Name) and x.iter.id in out_names) for x in walk)
    not_executed = any(isinstance(x, ast.Compare) and len(x.ops) == 1 and isinstance(x.ops[0], ast.NotIn) and src(x.comparators[0]).endswith("state.node_executions") for x in walk)
    return {"every data output present in state.values": bool(presence) and in_all and over_outputs, "node not yet executed": not_executed}


def response_normalisers(ctx):
    """(function, response parameter, outputs parameter) for the functions of the interrupt executor's module that
    turn a handler's response into the node's outputs (found by what they are handed, not by name)."""
    db = ctx.db
    call = db.cls("runners.async_.executors.interrupt_node.AsyncInterruptNodeExecutor").methods["__call__"]
    rvars = set(vars_from_call(db, call, {"_call_handler"})) or {"response"}
    out_names = {nm for nm, ds in db.local_defs(call).items() if any(getattr(d, "value", None) is not None and src(d.value).endswith(".data_outputs") for d in ds)}
    norm = []
    for c in db.calls_in(call):
        for a in c.args:
            if isinstance(a, ast.Name) and a.id in rvars:
                for cal in db.resolve_call(c, call):
                    if cal.func is not None and cal.kind == "func" and cal.func.module == call.module and not is_user_func_call(db, c, call):
                        b = bind_args(c, cal.func)
                        rp = next((k for k, v in b.items() if v is a), None)
                        op = next((k for k, v in b.items() if isinstance(v, ast.Name) and v.id in out_names or src(v).endswith(".data_outputs")), None)
                        if rp:
                            norm.append((cal.func, rp, op))
    return norm


def check_handler_dict_translated(ctx, rule_translated: str | None, rule_fresh: str | None) -> None:
    """A multi-output handler answers with a dict keyed by the output names it was declared with.  On that branch the
    mapping that is validated and returned is (a) translated through the node's output renames and (b) a new dict —
    never the handler's own object (emit sentinels are written into the returned dict afterwards)."""
    db, rep = ctx.db, ctx.rep
    norm = response_normalisers(ctx)
    if not norm:
        raise AnalysisError("response normaliser not recognised")
    for nf, rp, op in norm:
        ncfg = ctx.cfg(nf)
        rd = reaching_defs(ncfg)
        val = {f"isinstance({rp}, dict)": True}
        if op:
            val.update({f"len({op}) > 1": True, f"not {op}": False, op: True})
        live = reachable(ncfg.entry, specialize(val, ncfg))
        rets = [n for n in live if n.kind == "stmt" and isinstance(n.ast, ast.Return) and isinstance(n.ast.value, ast.Name)]
        # single-assignment locals that derive from the rename history
        hist = {nm for nm, ds in db.local_defs(nf).items() if any(getattr(d, "value", None) is not None and ("_rename_history" in src(d.value) or "rename_map" in src(d.value).lower() or "map_outputs" in src(d.value)) for d in ds)}
        for _ in range(2):
            hist |= {nm for nm, ds in db.local_defs(nf).items() if nm != rp and any(getattr(d, "value", None) is not None and any(isinstance(x, ast.Name) and x.id in hist for x in ast.walk(d.value)) for d in ds)}
        hist.discard(rp)  # the response itself is what has to be translated: each of its definitions is judged on its own
        own, untranslated = [], []
        for r in rets:
            for d, v in defs_reaching(ncfg, rd, r, r.ast.value.id):
                if d is ncfg.entry or v is None:
                    if r.ast.value.id == rp:
                        own.append(r)
                        untranslated.append(r)
                    continue
                if not isinstance(v, (ast.DictComp, ast.Dict)) and not (isinstance(v, ast.Call) and dotted(v.func) == "dict"):
                    if any(isinstance(x, ast.Name) and x.id == rp for x in ast.walk(v)) and isinstance(v, ast.Name):
                        own.append(r)
                if not (any(isinstance(x, ast.Name) and x.id in hist for x in ast.walk(v)) or "map_outputs" in src(v)):
                    if any(isinstance(x, ast.Name) and x.id == rp for x in ast.walk(v)):
                        untranslated.append(r)
        if rule_translated:
            ok = bool(rets) and not untranslated
            rep.add(rule_translated, f"{nf.qname}:handler-dict-under-current-names", ok, f"{nf.module.rel}:{untranslated[0].lineno if untranslated else nf.lineno}", "a handler's dict answer is translated through the node's output renames before it is validated and returned" if ok else "a handler's dict answer (keyed by the output names the handler was written with) is validated against and returned under the node's current output names without translation: after with_outputs(a='c', b='d') the answer is rejected, after a swap a<->b the values end up under the wrong names")
        if rule_fresh:
            ok = bool(rets) and not own
            rep.add(rule_fresh, f"{nf.qname}:handler-dict-not-returned-itself", ok, f"{nf.module.rel}:{own[0].lineno if own else nf.lineno}", "the returned mapping is a new dict" if ok else "the handler's own dict object is returned and the emit sentinels are then written into it: a handler returning a shared/constant dict finds the signal names in it on its next call and the run fails ('incorrect keys ... Extra')")


def check_resume_bypasses_cache(ctx, rule: str) -> None:
    """The superstep that can be handed interrupt nodes consults/writes the node cache only when the node is not an
    interrupt being resumed; the condition it uses agrees with the executor's own resume condition."""
    db, rep = ctx.db, ctx.rep
    from .common import enclosing_facts

    # the executor's own resume condition is decided by C14.R4 (resume-path); here the bypass must have the same
    # shape: every data output present in state.values, node not yet executed, interrupt nodes only
    want = {"every data output present in state.values": True, "node not yet executed": True}
    n_sites = 0
    for ss in superstep_funcs(db):
        fs = [ss] + list(ss.children.values())
        if not any(isinstance(x, ast.Attribute) and x.attr == "is_interrupt" for x in ast.walk(ss.node)):
            continue  # a runner that is never handed interrupt nodes
        for f in fs:
            key_vars = set(vars_from_call(db, f, {"check_cache"}, index=0))
            for c in db.calls_in(f):
                names = call_names(db, c, f)
                if not names & {"check_cache", "store_in_cache"}:
                    continue
                which = "lookup" if "check_cache" in names else "store"
                n_sites += 1
                facts = enclosing_facts(c)
                guard_exprs: list[ast.AST] | None = None
                guard_funcs: list = []
                for e, pol in facts:
                    if pol:
                        if which == "store" and isinstance(e, ast.Name) and e.id in key_vars:
                            guard_exprs = []  # the key is only set by a (guarded) lookup
                        continue
                    if isinstance(e, ast.Name):
                        ds_ = [d for d in db.local_defs(f).get(e.id, []) if getattr(d, "value", None) is not None]
                        if len(ds_) == 1:
                            e = ds_[0].value
                    if isinstance(e, ast.Call):
                        for cal in db.resolve_call(e, f):
                            if cal.func is not None and cal.kind == "func":
                                rets = [r.value for r in walk_local(cal.func.node) if isinstance(r, ast.Return) and r.value is not None]
                                if rets and any("node_executions" in src(r) or "state.values" in src(r) for r in rets):
                                    guard_exprs = rets
                                    guard_funcs.append(cal.func)
                    elif "node_executions" in src(e) or "state.values" in src(e):
                        guard_exprs = (guard_exprs or []) + [e]
                if guard_exprs is None:
                    rep.bad(rule, f"{f.qname}:{which}-bypassed-on-resume", f"{f.module.rel}:{c.lineno}", f"the cache {which} also happens for an interrupt whose response the caller supplied: " + ("a stored answer for the same inputs shadows the supplied one (the run ends as if the human had given the earlier answer)" if which == "lookup" else "a supplied answer is stored as if it had been computed and is replayed later without asking"))
                    continue
                if guard_exprs:
                    got = _resume_shape(guard_exprs, {nm for g_ in guard_funcs + [f] for nm, ds2 in db.local_defs(g_).items() if any(getattr(d, "value", None) is not None and src(d.value).endswith(".data_outputs") for d in ds2)})
                    interrupt_only = any(isinstance(x, ast.Attribute) and x.attr == "is_interrupt" for e in guard_exprs for x in ast.walk(e))
                    diff = [k for k in want if not got[k]] + ([] if interrupt_only else ["applies to interrupt nodes only"])
                    rep.add(rule, f"{f.qname}:{which}-bypassed-on-resume", not diff, f"{f.module.rel}:{c.lineno}", "the cache is bypassed exactly under the executor's resume condition" if not diff else f"the bypass condition disagrees with the executor's resume condition (missing: {diff})")
                else:
                    rep.ok(rule, f"{f.qname}:{which}-bypassed-on-resume", f"{f.module.rel}:{c.lineno}", "stored only under a key obtained from a (guarded) lookup")
    if n_sites < 2:
        raise AnalysisError(f"cache lookup/store sites in the interrupt-capable superstep not recognised ({n_sites})")


def check_every_provided_value_seeded(ctx, rule: str) -> None:
    """The resume decision is taken from the run state: an answer supplied by the caller must be in the initial state
    whoever consumes it (an interrupt's own output may have no consumer at all) — the state initialiser stores every
    provided value, unconditionally."""
    from .common import must_reach_in_iteration

    db, rep = ctx.db, ctx.rep
    ini = db.func("runners._shared.helpers.initialize_state")
    vp = next((p_ for p_ in ini.param_names if "dict" in src(ini.param_annotation(p_) or ast.Constant(""))), None)
    if vp is None:
        raise AnalysisError("values parameter of initialize_state not found")
    cfg = ctx.cfg(ini)
    ok, why = False, f"no loop over '{vp}' that stores each value found"
    for lp in [n for n in cfg.nodes if n.kind == "for" and vp in src(n.ast.iter)]:
        stores = [n for n in cfg.nodes if contains(lp.ast, n.ast) and n.ast is not lp.ast and (any(isinstance(c.func, ast.Attribute) and c.func.attr == "update_value" for c in cfg.calls_at(n)) or (isinstance(n.ast, ast.Assign) and isinstance(n.ast.targets[0], ast.Subscript) and src(n.ast.targets[0].value).endswith(".values")))]
        if not stores:
            continue
        ok = must_reach_in_iteration(cfg, lp, stores, {})
        why = "every provided value is stored in the initial state" if ok else f"a provided value is stored only under a condition ('{next((src(t.ast)[:60] for t in cfg.nodes if t.kind == 'test' and contains(lp.ast, t.ast)), '?')}'): an answer supplied for an interrupt whose output no node consumes (the last node of the graph, or one output of several) never reaches the state, so the resume guard does not see it — the handler runs again and the run pauses at the interrupt that was already answered"
        break
    else:
        for n in walk_local(ini.node):
            if isinstance(n, ast.Call) and isinstance(n.func, ast.Attribute) and n.func.attr == "update" and src(n.func.value).endswith(".values") and n.args and src(n.args[0]) == vp:
                ok, why = True, "every provided value is stored in the initial state (bulk update)"
    rep.add(rule, f"{ini.qname}:every-provided-value-seeded", ok, ini.loc(), why)


def run(ctx) -> None:
    db, rep = ctx.db, ctx.rep
    rep.rule("C14.R1", "PauseExecution is a BaseException, not an Exception", floor=1)
    rep.rule("C14.R2", "no handler on the run path swallows or wraps a pause", floor=4)
    rep.rule("C14.R3", "an interrupt runs alone in its step", floor=1)
    rep.rule("C14.R4", "interrupt executor: resume path decided from state before the handler; pause path raises", floor=3)
    rep.rule("C14.R5", "nested pauses are re-raised path-qualified; separator agrees with PauseInfo", floor=3)
    rep.rule("C14.R6", "partial-state attribute name agrees between writer and reader", floor=1)
    rep.rule("C14.R7", "a PAUSED nested result is never consumed as data", floor=4)
    rep.rule("C14.R9", "the pause description is built in the graph's name space: no current input name is looked up in a mapping keyed by the handler's own parameter names (or vice versa)", floor=2)
    rep.rule("C14.R10", "a response supplied by the caller is used as given: on the resume path the node cache is neither consulted (a cached answer would shadow the supplied one) nor written (a supplied answer is not a computed result)", floor=2)
    rep.rule("C14.R11", "resuming re-emits the very object the caller supplied; storing the object that is already stored under a name never advances its version (else nodes that consumed the answer go stale and an answered interrupt pauses again)", floor=1)
    rep.rule("C14.R8", "the pause handler always returns the PAUSED result: values computed before the pause are filtered with the non-raising policy", floor=2)

    pe = db.cls("runners._shared.types.PauseExecution")
    # ---- R1 ---------------------------------------------------------------------
    ok = pe.ext_bases == ["BaseException"] and not pe.base_infos
    rep.add("C14.R1", pe.qname, ok, pe.loc(), "PauseExecution(BaseException)" if ok else f"PauseExecution bases are {pe.ext_bases + [b.name for b in pe.base_infos]}: a generic 'except Exception' would catch or miss it differently")

    # ---- R2 ---------------------------------------------------------------------
    nr = runner_no_raise(db)
    n_h = 0
    for f in db.funcs_in("runners"):
        trs = [n for n in walk_local(f.node) if isinstance(n, ast.Try)]
        if not trs:
            continue
        cfg = ctx.cfg(f, nr)
        for tr in trs:
            for h in tr.handlers:
                names = cfg._handler_names(h)
                if not cfg.maybe_caught(G_PAUSE, names):
                    continue
                hnodes = cfg.nodes_for(h)
                if not hnodes or not any(G_PAUSE in hn.caught for hn in hnodes):
                    # the try body cannot raise a pause into this handler (e.g. no call at all)
                    continue
                n_h += 1
                inst = f"{f.qname}:except {'|'.join(x.split('.')[-1] for x in names)}"
                loc = f"{f.module.rel}:{h.lineno}"
                hname = h.name or "__none__"
                val = {
                    f"isinstance({hname}, PauseExecution)": True,
                    f"isinstance({hname}, Exception)": False,
                    f"isinstance({hname}, ExecutionError)": False,
                }
                ef = specialize(val)
                ok = True
                why = []
                for hn in hnodes:
                    todo = [hn]
                    seen = set()
                    while todo:
                        n = todo.pop()
                        if n in seen:
                            continue
                        seen.add(n)
                        a = n.ast
                        if n.kind == "stmt" and isinstance(a, ast.Raise):
                            if a.exc is None or (isinstance(a.exc, ast.Name) and a.exc.id == h.name):
                                why.append("re-raises the pause")
                            else:
                                ok = False
                                why.append(f"raises '{src(a.exc)[:50]}' at line {n.lineno} on a path a pause can take")
                            continue
                        if n.kind == "stmt" and isinstance(a, ast.Return):
                            v = a.value
                            good = False
                            if isinstance(v, ast.Call):
                                kw = {k.arg: k.value for k in v.keywords}
                                st, pz = kw.get("status"), kw.get("pause")
                                if st is not None and src(st).endswith("PAUSED") and pz is not None and isinstance(pz, ast.Attribute) and pz.attr == "pause_info" and src(pz.value) == h.name:
                                    good = True
                            if good and f.name == "run":
                                why.append("terminal converter: returns PAUSED with the pause info")
                            else:
                                ok = False
                                why.append(f"returns at line {n.lineno} without reporting the pause")
                            continue
                        for t, l, i in n.succ:
                            if not ef(n, t, l, i):
                                continue
                            if l == "exc":
                                continue  # a new exception from inside the handler: not a swallow
                            inside = t.ast is not None and any(contains(s, t.ast) for s in h.body)
                            if inside or t.kind in ("with_exit",):
                                todo.append(t)
                            elif isinstance(a, (ast.Continue, ast.Break)) or not inside:
                                ok = False
                                why.append(f"falls out of the handler at line {n.lineno}: the pause is swallowed")
                rep.add("C14.R2", inst, ok, loc, "; ".join(dict.fromkeys(why)))
    # after gather: non-Exception results re-raised before wrapping
    for ss in superstep_funcs(db):
        if not ss.is_async:
            continue
        cfg = ctx.cfg(ss, nr)
        wraps = [n for n in cfg.nodes if n.kind == "stmt" and isinstance(n.ast, ast.Raise) and isinstance(n.ast.exc, ast.Call) and "ExecutionError" in src(n.ast.exc.func)]
        if not wraps:
            raise AnalysisError(f"{ss.qname}: carrier wrap after gather not found")
        for w in wraps:
            arg = w.ast.exc.args[0] if w.ast.exc.args else None
            nm = src(arg) if arg is not None else "?"
            live = reachable(cfg.entry, specialize({f"isinstance({nm}, Exception)": False, f"isinstance({nm}, ExecutionError)": False, f"{nm} is None": False}))
            ok = w not in live and any(n.kind == "stmt" and isinstance(n.ast, ast.Raise) and isinstance(n.ast.exc, ast.Name) and n.ast.exc.id == nm for n in live)
            rep.add("C14.R2", f"{ss.qname}:after-gather", ok, f"{ss.module.rel}:{w.lineno}", "a non-Exception step result (pause) is re-raised as it is before any wrapping" if ok else "a pause collected by gather can be wrapped in ExecutionError (it would surface as a failure)")

    # ---- R3 ---------------------------------------------------------------------
    for ss in superstep_funcs(db):
        if not ss.is_async:
            continue
        cfg = ctx.cfg(ss, nr)
        # the list of ready interrupt nodes: a list comprehension filtering on .is_interrupt
        ivars = [nm for nm, ds in db.local_defs(ss).items() if len(ds) == 1 and isinstance(ds[0], ast.Assign) and isinstance(ds[0].value, ast.ListComp) and any(isinstance(x, ast.Attribute) and x.attr == "is_interrupt" for x in ast.walk(ds[0].value))]
        spawn = [n for n in cfg.nodes if n.kind == "stmt" and isinstance(n.ast, ast.Assign) and isinstance(n.ast.value, ast.ListComp) and any(isinstance(c, ast.Call) and isinstance(c.func, ast.Name) and c.func.id in ss.children for c in ast.walk(n.ast.value))]
        ok = bool(spawn) and len(ivars) == 1
        why = "interrupt list not recognised"
        if ok:
            iv = ivars[0]
            rd = reaching_defs(cfg, specialize({iv: True}))
            it = spawn[0].ast.value.generators[0].iter
            ds = defs_reaching(cfg, rd, spawn[0], it.id) if isinstance(it, ast.Name) else []
            ok = bool(ds) and all(isinstance(v, ast.List) and len(v.elts) == 1 and isinstance(v.elts[0], ast.Subscript) and src(v.elts[0].value) == iv for d, v in ds)
            why = "with an interrupt ready, the executed list is exactly one interrupt" if ok else "with an interrupt ready, other nodes can still be gathered in the same step (a pause would cancel them mid-flight)"
        rep.add("C14.R3", f"{ss.qname}:isolation", ok, ss.loc(), why)

    # ---- R4 ---------------------------------------------------------------------
    ie = db.cls("runners.async_.executors.interrupt_node.AsyncInterruptNodeExecutor")
    call = ie.methods["__call__"]
    cfg = ctx.cfg(call)
    rd = reaching_defs(cfg)
    handler_nodes = [n for n in cfg.nodes if any(is_user_func_call(db, c, call) or "_call_handler" in call_names(db, c, call) for c in cfg.calls_at(n))]
    if not handler_nodes:
        raise AnalysisError("interrupt executor: handler invocation not found")
    rets = [n for n in cfg.nodes if n.kind == "stmt" and isinstance(n.ast, ast.Return)]
    resume = [r for r in rets if not any(reaches(h, r) for h in handler_nodes)]
    ok = len(resume) == 1
    why = "no return is decided before the handler is called (no resume path)"
    if ok:
        r = resume[0]
        g = enclosing(r.ast, (ast.If,))
        foot = set()
        if g is not None:
            exprs = [g.test]
            for nm in [x.id for x in ast.walk(g.test) if isinstance(x, ast.Name)]:
                for d, v in defs_reaching(cfg, rd, cfg.nodes_for(g.test)[0], nm):
                    if v is not None:
                        exprs.append(v)
            for e in exprs:
                for x in ast.walk(e):
                    if isinstance(x, ast.Attribute) and isinstance(x.value, ast.Name) and x.value.id == "state":
                        foot.add(x.attr)
        ok = g is not None and {"values", "node_executions"} <= foot and "not in" in src(g.test)
        # presence, not truthiness: the supplied answer is recognised by membership of every data output in
        # state.values (0, False, "" and [] are answers)
        if ok:
            presence = [x for e in exprs for x in ast.walk(e) if isinstance(x, ast.Compare) and len(x.ops) == 1 and isinstance(x.ops[0], ast.In) and src(x.comparators[0]).endswith("state.values")]
            in_all = any(isinstance(x, ast.Call) and dotted(x.func) == "all" and any(p_ in list(ast.walk(x)) for p_ in presence) for e in exprs for x in ast.walk(e))
            if not (presence and in_all):
                ok = False
                why_presence = True
        why = "resume path: taken only if the outputs are in state.values and the node is not in state.node_executions; decided before the handler" if ok else ("the supplied response is recognised by its truth value instead of by 'every data output in state.values': resuming with 0 / False / '' / [] pauses again instead of passing the interrupt" if locals().get("why_presence") else f"resume condition does not consult both state.values and state.node_executions (footprint {sorted(foot)})")
        # returned values come from state.values
        if ok:
            vals = []
            rv = r.ast.value
            for x in ast.walk(rv):
                if isinstance(x, ast.Name):
                    for d, v in defs_reaching(cfg, rd, r, x.id):
                        if v is not None:
                            vals.append(v)
            ok = any("state.values" in src(v) for v in vals if not isinstance(v, (ast.FunctionDef, ast.ExceptHandler)))
            if not ok:
                why = "resume path does not return the supplied values from the state"
    rep.add("C14.R4", f"{call.qname}:resume-path", ok, call.loc(), why)
    raises = [n for n in cfg.nodes if n.kind == "stmt" and isinstance(n.ast, ast.Raise) and isinstance(n.ast.exc, ast.Call) and "PauseExecution" in src(n.ast.exc.func)]
    ok = bool(raises)
    from .common import vars_from_call

    rvars = set(vars_from_call(db, call, {"_call_handler"})) or {"response"}
    for rz in raises:
        live = reachable(cfg.entry, specialize({f"{rv} is None": False for rv in rvars}))
        if rz in live:
            ok = False
    rep.add("C14.R4", f"{call.qname}:pause-path", ok, f"{call.module.rel}:{raises[0].lineno if raises else call.lineno}", "PauseExecution is raised exactly when the handler returned None" if ok else "pause is raised although the handler produced a response, or never raised")
    # between handler call and pause nothing is returned
    ok = True
    for rz in raises:
        pass
    live_none = reachable(cfg.entry, specialize({f"{rv} is None": True for rv in rvars}))
    late_returns = [r for r in rets if r not in resume and r in live_none]
    rep.add("C14.R4", f"{call.qname}:pause-returns-nothing", not late_returns, call.loc(), "when the handler returns None no outputs are returned (nothing is written, no dependant becomes ready)" if not late_returns else f"outputs can be returned at line {late_returns[0].lineno} although the handler returned None")

    # the value tested for 'None means pause' is the handler's *resolved* answer: in the function that calls the
    # handler, every normal path from the call to a return passes the isawaitable test on its result, whose true
    # branch awaits it; and the executor's tested variable is the awaited result of that function
    ok, why = False, "the handler call was not found"
    callers = []
    for f in [call] + [g for g in db.all_funcs() if g.module == call.module and g.cls is None and g.parent is None]:
        for c in db.calls_in(f):
            if is_user_func_call(db, c, f):
                callers.append((f, c))
    for f, c in callers:
        fcfg = ctx.cfg(f)
        un = fcfg.node_containing(c)
        stmt = un[0].ast if un else None
        tgt = stmt.targets[0].id if isinstance(stmt, ast.Assign) and isinstance(stmt.targets[0], ast.Name) else None
        tests = [n for n in fcfg.nodes if n.kind == "test" and n.ast is not None and tgt and any(isinstance(x, ast.Call) and (dotted(x.func) or "").split(".")[-1] == "isawaitable" and x.args and src(x.args[0]) == tgt for x in ast.walk(n.ast))]
        awaited = [n for n in fcfg.nodes if n.kind == "stmt" and isinstance(n.ast, ast.Assign) and isinstance(n.ast.value, ast.Await) and tgt and src(n.ast.value.value) == tgt and src(n.ast.targets[0]) == tgt]

        def no_exc(a, b, l, i):
            return l != "exc"

        if tgt is None:
            ok, why = False, f"the handler's result is not bound to a local in {f.name}() (it leaves the function unresolved)"
        elif not tests or not awaited:
            ok, why = False, f"{f.name}() hands the handler's result on without the isawaitable/await step"
        else:
            ok = all(all_paths_pass(u, fcfg.exit_return, tests, no_exc) for u in un) and all(any(t is a or reaches(t, a) for a in awaited) for t in tests)
            why = "the handler's result is awaited when awaitable on every path before it is returned" if ok else "a path returns the handler's result without the isawaitable/await step"
        if ok and f is not call:
            # the executor tests the awaited result of f
            tested = {v for v in rvars}
            defs_ok = all(any(isinstance(getattr(d, "value", None), ast.Await) and isinstance(d.value.value, ast.Call) and f.name in call_names(db, d.value.value, call) for d in db.local_defs(call).get(v, [])) for v in tested) and bool(tested)
            if not defs_ok:
                ok, why = False, f"the executor's pause test is not applied to 'await {f.name}(...)'"
    rep.add("C14.R4", f"{call.qname}:pause-test-on-resolved-answer", ok, call.loc(), why if ok else f"{why}: an async handler that resolves to None is taken for an answer (the coroutine object is not None) — the run completes with decision None instead of pausing")

    # resume == handler: the resume path stores what the caller supplied under the output name verbatim, so for a
    # single-output interrupt the handler path must store the handler's answer verbatim too — whatever its type
    # (a dict answer is an answer, not a name->value mapping): under 'exactly one data output' the function that
    # turns the response into outputs reaches no raise and returns {<the output>: <the response>}
    norm = []
    out_names = {nm for nm, ds in db.local_defs(call).items() if any(getattr(d, "value", None) is not None and src(d.value).endswith(".data_outputs") for d in ds)}
    for c in db.calls_in(call):
        for pos, a in enumerate(c.args):
            if isinstance(a, ast.Name) and a.id in rvars:
                for cal in db.resolve_call(c, call):
                    if cal.func is not None and cal.kind == "func" and cal.func.module == call.module and not is_user_func_call(db, c, call):
                        b = bind_args(c, cal.func)
                        rp = next((k for k, v in b.items() if v is a), None)
                        op = next((k for k, v in b.items() if isinstance(v, ast.Name) and v.id in out_names or src(v).endswith(".data_outputs")), None)
                        if rp:
                            norm.append((cal.func, rp, op))
    if not norm:
        raise AnalysisError(f"{call.qname}: the function turning the handler's response into outputs was not recognised")
    for nf, rp, op in norm:
        ncfg = ctx.cfg(nf)
        okn, whyn = op is not None, "the response is normalised without the declared data outputs"
        if okn:
            val = {f"len({op}) > 1": False, f"len({op}) == 1": True, f"len({op}) != 1": False, f"len({op}) < 2": True, f"len({op}) >= 2": False, op: True, f"not {op}": False}
            live = reachable(ncfg.entry, specialize(val, ncfg))
            raises_ = [n for n in live if n.kind == "stmt" and isinstance(n.ast, ast.Raise)]
            rets_ = [n for n in live if n.kind == "stmt" and isinstance(n.ast, ast.Return)]
            good_ret = lambda v: isinstance(v, ast.Dict) and len(v.keys) == 1 and v.keys[0] is not None and src(v.keys[0]) == f"{op}[0]" and isinstance(v.values[0], ast.Name) and v.values[0].id == rp
            if raises_:
                okn, whyn = False, f"with a single data output the handler's answer can be rejected by its type/shape (raise at line {raises_[0].lineno}): pause + resume with that answer completes, the auto-resolved run fails"
            elif not rets_ or not all(good_ret(r.ast.value) for r in rets_):
                badr = next((r for r in rets_ if not good_ret(r.ast.value)), None)
                okn, whyn = False, f"with a single data output the handler's answer is not stored verbatim under the output name ('{src(badr.ast)[:60] if badr else 'no return'}'): resume stores the supplied value as it is"
            else:
                whyn = "with a single data output every answer is stored verbatim under the output name, as the resume path does"
        rep.add("C14.R4", f"{nf.qname}:single-output-answer-verbatim", okn, nf.loc(), whyn)

    check_every_provided_value_seeded(ctx, "C14.R4")
    # the pause names the keys a human can answer under: the interrupt's data outputs — never its ordering-only emit names
    n_pi = 0
    for f_ in db.funcs_in("runners.async_.executors.interrupt_node"):
        for pc in [c for c in walk_local(f_.node) if isinstance(c, ast.Call) and (dotted(c.func) or "").split(".")[-1] == "PauseInfo"]:
            n_pi += 1
            wrong = None
            for k in pc.keywords:
                if k.arg not in ("output_param", "output_params"):
                    continue
                if any(isinstance(z, ast.Attribute) and z.attr == "outputs" for z in ast.walk(k.value)):
                    wrong = wrong or k
                elif not any(isinstance(z, ast.Name) and any("data_outputs" in src(getattr(d_, "value", None) or ast.Constant("")) for d_ in db.local_defs(f_).get(z.id, [])) or isinstance(z, ast.Attribute) and z.attr == "data_outputs" for z in ast.walk(k.value)):
                    wrong = wrong or k
            rep.add("C14.R4", f"{f_.qname}:answer-keys-are-data-outputs", wrong is None, f"{f_.module.rel}:{(wrong.value if wrong else pc).lineno}", "the pause names the interrupt's data outputs as answer keys" if wrong is None else f"'{wrong.arg}={src(wrong.value)[:60]}' takes the answer keys from all outputs: an interrupt that declares emit= reports its ordering signal as a key to answer under (response_keys asks the human for a value no one can supply)")
    if n_pi < 1:
        raise AnalysisError("PauseInfo construction of the interrupt executor not found")

    # ---- R10 --------------------------------------------------------------------
    check_resume_bypasses_cache(ctx, "C14.R10")

    # ---- R11 --------------------------------------------------------------------
    # the resume path returns {o: state.values[o]}: the superstep stores that same object again.  Under 'old value is
    # the new value' (existing name, not the emit sentinel) no version increment may be reachable — an equality test
    # alone is not enough: NaN, or any object with an unusual __ne__, differs from itself
    gs11 = db.cls("runners._shared.types.GraphState").methods["update_value"]
    c11 = ctx.cfg(gs11)
    incs11 = [n for n in c11.nodes if n.kind == "stmt" and isinstance(n.ast, (ast.Assign, ast.AugAssign)) and "versions" in src(n.ast.targets[0] if isinstance(n.ast, ast.Assign) else n.ast.target)]
    if not incs11:
        raise AnalysisError("update_value: version write not found")
    vp11 = [p_ for p_ in gs11.param_names if p_ != "self"][1]
    np11 = [p_ for p_ in gs11.param_names if p_ != "self"][0]
    olds = [nm for nm, ds in db.local_defs(gs11).items() if any(getattr(d, "value", None) is not None and ".values" in src(d.value) and ("get(" in src(d.value) or "[" in src(d.value)) for d in ds)]
    news = [nm for nm, ds in db.local_defs(gs11).items() if any(isinstance(d, ast.Assign) and " not in " in src(d.value) and "values" in src(d.value) for d in ds)]
    val11 = {f"{vp11} is _EMIT_SENTINEL": False, f"{np11} not in self.values": False, f"{np11} in self.values": True}
    for nm in news:
        val11[nm] = False
    for o_ in olds:
        val11[f"{o_} is {vp11}"] = True
        val11[f"{vp11} is {o_}"] = True
        val11[f"{o_} is not {vp11}"] = False
        val11[f"{vp11} is not {o_}"] = False
    live11 = reachable(c11.entry, specialize(val11, c11))
    hit11 = [n for n in incs11 if n in live11]
    rep.add("C14.R11", f"{gs11.qname}:same-object-is-no-change", not hit11, gs11.loc(), "re-storing the stored object leaves the version alone" if not hit11 else f"storing the very object that is already stored can advance the version (line {hit11[0].lineno}; decided by '!=' alone): resuming with an answer that differs from itself (float('nan'), an array-like) makes the consumers of the answer stale, and an interrupt that was already answered pauses again")

    # ---- R5 ---------------------------------------------------------------------
    ge = db.cls("runners.async_.executors.graph_node.AsyncGraphNodeExecutor")
    gcall = ge.methods["__call__"]
    conv = None
    for m in ge.methods.values():
        if any(isinstance(n, ast.Raise) and isinstance(n.exc, ast.Call) and "PauseExecution" in src(n.exc.func) for n in walk_local(m.node)):
            conv = m
    rep.add("C14.R5", f"{ge.qname}:converter", conv is not None, ge.loc(), f"converter {conv.name} re-raises nested pauses" if conv else "no method of the async graph-node executor re-raises a nested PAUSED result")
    run_methods = set(template_methods(db, "run"))
    if conv is not None:
        gcfg = ctx.cfg(gcall)
        grd = reaching_defs(gcfg)
        for n in gcfg.nodes:
            for c in gcfg.calls_at(n):
                if any(cal.func in run_methods for cal in db.resolve_call(c, gcall)):
                    # the variable holding the result must only flow into the converter
                    tgt = n.ast.targets[0].id if isinstance(n.ast, ast.Assign) and isinstance(n.ast.targets[0], ast.Name) else None
                    uses = [x for x in walk_local(gcall.node) if isinstance(x, ast.Name) and x.id == tgt and isinstance(x.ctx, ast.Load)] if tgt else []
                    ok = bool(uses)
                    for u in uses:
                        p = getattr(u, "_parent", None)
                        if not (isinstance(p, ast.Call) and conv.name in call_names(db, p, gcall)):
                            ok = False
                    rep.add("C14.R5", f"{gcall.qname}:run-result-through-converter", ok, f"{gcall.module.rel}:{n.lineno}", "nested run result is only handed to the converter" if ok else "nested run result is consumed without the PAUSED conversion")
        # separator agreement
        sep_w = None
        for x in walk_local(conv.node):
            if isinstance(x, ast.JoinedStr) and len(x.values) == 3 and isinstance(x.values[1], ast.Constant):
                if "name" in src(x.values[0]):
                    sep_w = x.values[1].value
        pi = db.cls("runners._shared.types.PauseInfo")
        seps = set()
        for m in pi.methods.values():
            for x in walk_local(m.node):
                if isinstance(x, ast.Call) and isinstance(x.func, ast.Attribute) and x.func.attr == "split" and x.args and isinstance(x.args[0], ast.Constant):
                    seps.add(x.args[0].value)
        ok = sep_w is not None and seps == {sep_w}
        rep.add("C14.R5", "separator-agreement", ok, conv.loc(), f"writer joins with {sep_w!r}, PauseInfo splits on {sorted(seps)}" if ok else f"path separator differs: writer {sep_w!r} vs PauseInfo {sorted(seps)}")
        # what the re-raised pause says about the interrupt — the value shown, the names to answer under — is the inner
        # pause's own: every field but the path-qualified node name is copied from the same field of the inner pause
        pis = [c for c in walk_local(conv.node) if isinstance(c, ast.Call) and (dotted(c.func) or "").split(".")[-1] == "PauseInfo"]
        cdefs = db.local_defs(conv)
        for pc in pis:
            wrong = None
            for k in pc.keywords:
                if k.arg in (None, "node_name"):
                    continue
                v = k.value
                base_ok = isinstance(v, ast.Attribute) and v.attr == k.arg and (src(v.value).endswith(".pause") or (isinstance(v.value, ast.Name) and any(src(getattr(d_, "value", None) or ast.Constant("")).endswith(".pause") for d_ in cdefs.get(v.value.id, []))))
                if not base_ok:
                    wrong = wrong or k
            rep.add("C14.R5", f"{conv.qname}:inner-pause-fields-copied", wrong is None and len(pc.keywords) >= 3, f"{conv.module.rel}:{(wrong.value if wrong else pc).lineno}", "every field of the re-raised pause except the node path is the inner pause's own field" if wrong is None else f"'{wrong.arg}={src(wrong.value)}' is not the inner pause's '{wrong.arg}': a pause inside a nested graph shows the caller something else than the interrupt's own {wrong.arg} (e.g. the nested run's partial outputs instead of the inputs the human is asked about), differently at every nesting level")
        if not pis:
            raise AnalysisError("nested pause converter builds no PauseInfo")
        # every answer key follows the whole nesting path: all graph-node names before the interrupt's own name, joined
        # by '.', in both key properties (they must agree with each other at any depth)
        n_keys = 0
        for m in pi.methods.values():
            if "node_name" not in src(m.node) or not m.is_property:
                continue
            n_keys += 1
            text = src(m.node)
            splits = [x for x in walk_local(m.node) if isinstance(x, ast.Call) and isinstance(x.func, ast.Attribute) and x.func.attr in ("split", "rsplit", "partition", "rpartition")]
            whole = False
            whyk = "the key prefix is not derived from the whole path"
            for c in splits:
                if c.func.attr == "split" and len(c.args) == 1 and not c.keywords:
                    whole = "[:-1]" in text and '"."' in text.replace("'", '"')
                    whyk = "the prefix is every path element but the last, joined by '.'" if whole else "the split path is not used as 'all elements but the last'"
                elif c.func.attr == "rpartition" or (c.func.attr == "rsplit" and len(c.args) == 2 and isinstance(c.args[1], ast.Constant) and c.args[1].value == 1):
                    whole = ".replace(" in text
                    whyk = "the prefix is everything before the last separator, separators replaced by '.'" if whole else "the part before the last separator keeps its '/' separators"
                else:
                    whole = False
                    whyk = f"'{src(c)}' cuts the path at its first separator: for an interrupt two or more graph levels down only the outermost graph-node name survives, so the key the PAUSED result reports is not the path-qualified key (and response_keys disagrees with response_key)"
                    break
            rep.add("C14.R5", f"{m.qname}:key-follows-whole-path", whole and bool(splits), m.loc(), whyk)
        if n_keys < 2:
            raise AnalysisError("PauseInfo key properties not found")
        # the prefixed name starts with this node's name
        from .common import wrapper_param

        okp = any(isinstance(x, ast.JoinedStr) and len(x.values) == 3 and f"{wrapper_param(conv)}.name" in src(x.values[0]) and "pause.node_name" in src(x.values[2]) for x in walk_local(conv.node))
        rep.add("C14.R5", "prefix-shape", okp, conv.loc(), "nested pause is renamed '<node.name>/<inner node_name>'" if okp else "nested pause identity is not '<node.name>/<inner name>'")

    # ---- R6 ---------------------------------------------------------------------
    written = set()
    for f in execute_impl_funcs(db):
        for n in walk_local(f.node):
            if isinstance(n, ast.Assign):
                for t in n.targets:
                    if isinstance(t, ast.Attribute) and isinstance(t.value, ast.Name) and enclosing(n, (ast.ExceptHandler,)) is not None and t.value.id == getattr(enclosing(n, (ast.ExceptHandler,)), "name", None):
                        written.add(t.attr)
    read = set()
    for m in template_methods(db, "run"):
        for tr in [n for n in walk_local(m.node) if isinstance(n, ast.Try)]:
            for h in tr.handlers:
                if "PauseExecution" in src(h.type) if h.type is not None else False:
                    for c in [x for s in h.body for x in [s] + list(walk_local(s)) if isinstance(x, ast.Call)]:
                        if dotted(c.func) == "getattr" and len(c.args) >= 2 and isinstance(c.args[1], ast.Constant):
                            read.add(c.args[1].value)
    ok = bool(written) and bool(read) and read <= written
    rep.add("C14.R6", "partial-state-attribute", ok, "src/hypergraph/runners/async_/runner.py:1", f"writer sets {sorted(written)}, reader gets {sorted(read)}" if ok else f"partial state attribute mismatch: writer sets {sorted(written)}, reader gets {sorted(read)} (a paused run would lose the values computed so far)")

    # ---- R9 ---------------------------------------------------------------------
    from .c06 import check_qualifiers

    n_before = len(rep.obligations)
    check_qualifiers(ctx, "C14.R9", only=("interrupt_node",))
    if not any(o.rule == "C14.R9" for o in rep.obligations[n_before:]):
        for q_ in ("AsyncInterruptNodeExecutor.__call__", "_call_handler"):
            rep.ok("C14.R9", f"interrupt_node.{q_}", "src/hypergraph/runners/async_/executors/interrupt_node.py:1", "no name-space mismatch")

    # ---- R8 ---------------------------------------------------------------------
    from .c11 import check_handlers_filter_quietly

    check_handlers_filter_quietly(ctx, "C14.R8", only="PauseExecution")

    # ---- R7 ---------------------------------------------------------------------
    gcls = db.cls("graph.core.Graph")
    hi = gcls.methods.get("has_interrupts")
    if hi is None:
        raise AnalysisError("Graph.has_interrupts vanished")
    txt = src(hi.node)
    rec = "nested_graph" in txt and txt.count("has_interrupts") >= 2
    # alternative: recursion through iter_nodes/all nested
    rep.add("C14.R7", f"{hi.qname}:closed-under-nesting", rec, hi.loc(), "interrupt reachability descends into nested graphs" if rec else "has_interrupts only looks at top-level nodes: an interrupt two levels under map_over / the sync runner is not rejected and its PAUSED result is consumed as data")
    vmc = db.func("runners._shared.validation.validate_map_compatible")
    vrc = db.func("runners._shared.validation.validate_runner_compatibility")
    for v, label in ((vmc, "map"), (vrc, "runner-compat")):
        uses = any(isinstance(x, ast.Attribute) and x.attr == "has_interrupts" for x in walk_local(v.node)) and any(isinstance(x, ast.Raise) for x in walk_local(v.node))
        rep.add("C14.R7", f"{v.qname}:uses-predicate", uses, v.loc(), f"{label} guard consults has_interrupts and raises" if uses else f"{label} guard no longer consults has_interrupts")
    for m in template_methods(db, "map"):
        mcfg = ctx.cfg(m)
        dom = dominators(mcfg.entry)
        guards = {n for n in mcfg.nodes if any("validate_map_compatible" in call_names(db, c, m) for c in mcfg.calls_at(n))}
        runs = [n for n in mcfg.nodes if any(isinstance(c.func, ast.Attribute) and c.func.attr == "run" and isinstance(c.func.value, ast.Name) and c.func.value.id == "self" for c in mcfg.calls_at(n)) or any("_run_map_item" in call_names(db, c, m) or dotted(c.func) in ("asyncio.gather", "asyncio.create_task") for c in mcfg.calls_at(n))]
        ok = bool(guards) and bool(runs) and all(dom.get(r, set()) & guards for r in runs if r in dom)
        rep.add("C14.R7", f"{m.qname}:guard-before-items", ok, m.loc(), "map rejects graphs with interrupts before any item runs" if ok else "map can run items of a graph with interrupts (a PAUSED item result would be collected as data)")
    for m in template_methods(db, "run"):
        mcfg = ctx.cfg(m)
        dom = dominators(mcfg.entry)
        guards = {n for n in mcfg.nodes if any("validate_runner_compatibility" in call_names(db, c, m) for c in mcfg.calls_at(n))}
        ex = [n for n in mcfg.nodes if any(call_names(db, c, m) & {"_execute_graph_impl", "_execute_graph_impl_async"} for c in mcfg.calls_at(n))]
        ok = bool(guards) and bool(ex) and all(dom.get(r, set()) & guards for r in ex if r in dom)
        rep.add("C14.R7", f"{m.qname}:compat-before-execute", ok, m.loc(), "runner compatibility (interrupt support) is checked before execution" if ok else "execution can start without the runner-compatibility check")
    # sync runner declares no interrupt support and has no interrupt executor
    for impl in execute_impl_funcs(db):
        if impl.is_async:
            continue
        caps = impl.cls.find_method("capabilities")
        txtc = src(caps.node) if caps else ""
        ok = "supports_interrupts=True" not in txtc
        rep.add("C14.R7", f"{impl.cls.qname}:no-interrupt-support", ok, impl.cls.loc(), "sync runner declares no interrupt support (its graph-node executor consumes nested results as data)" if ok else "sync runner claims interrupt support but its graph-node executor does not convert PAUSED results")


AS = "src/hypergraph/runners/async_/superstep.py"
SS = "src/hypergraph/runners/sync/superstep.py"
AR = "src/hypergraph/runners/async_/runner.py"
TA = "src/hypergraph/runners/_shared/template_async.py"
TY = "src/hypergraph/runners/_shared/types.py"
AI = "src/hypergraph/runners/async_/executors/interrupt_node.py"
AG = "src/hypergraph/runners/async_/executors/graph_node.py"
VARIANTS = [
    Variant("response-keys-first-separator", "src/hypergraph/runners/_shared/types.py", replace_once("        parts = self.node_name.split(\"/\")\n        prefix = \".\".join(parts[:-1]) + \".\" if len(parts) > 1 else \"\"", "        graph_path, sep, _ = self.node_name.partition(\"/\")\n        prefix = graph_path.replace(\"/\", \".\") + \".\" if sep else \"\""), {"C14.R5"}),
    Variant("twin-response-keys-last-separator", "src/hypergraph/runners/_shared/types.py", replace_once("        parts = self.node_name.split(\"/\")\n        prefix = \".\".join(parts[:-1]) + \".\" if len(parts) > 1 else \"\"", "        graph_path, sep, _ = self.node_name.rpartition(\"/\")\n        prefix = graph_path.replace(\"/\", \".\") + \".\" if sep else \"\""), set()),
    Variant("pause-is-exception", TY, replace_once("class PauseExecution(BaseException):", "class PauseExecution(Exception):"), {"C14.R1"}),
    Variant("async-execute-one-catches-base", AS, replace_once("        except Exception:\n            if active:\n                await dispatcher.emit_async(build_node_error_event(run_id, node_span_id, run_span_id, node, graph))\n            raise", "        except BaseException as exc:\n            if active:\n                await dispatcher.emit_async(build_node_error_event(run_id, node_span_id, run_span_id, node, graph))\n            raise RuntimeError(str(exc)) from exc"), {"C14.R2"}),
    Variant("runner-pause-handler-swallows", AR, replace_once("        except PauseExecution as pause:\n            pause._partial_state = state  # type: ignore[attr-defined]\n            raise", "        except PauseExecution as pause:\n            pause._partial_state = state  # type: ignore[attr-defined]"), {"C14.R2"}),
    Variant("sync-superstep-wraps-pause", SS, replace_once("                if isinstance(e, PauseExecution):\n                    raise\n", ""), set(), note="sync runner never sees a pause (no interrupt support); removing the special case leaves BaseException handling to the generic branches"),
    Variant("after-gather-wraps-pause", AS, replace_once("        if not isinstance(first_error, Exception):\n            raise first_error\n", ""), {"C14.R2"}),
    Variant("template-pause-returns-failed", TA, replace_once("                status=RunStatus.PAUSED,\n                run_id=run_id,\n                pause=pause.pause_info,", "                status=RunStatus.FAILED,\n                run_id=run_id,\n                pause=pause.pause_info,"), {"C14.R2"}),
    Variant("no-interrupt-isolation", AS, replace_once("    if interrupts:\n        ready_nodes = [interrupts[0]]\n", ""), {"C14.R3"}),
    Variant("isolation-all-interrupts", AS, replace_once("        ready_nodes = [interrupts[0]]", "        ready_nodes = interrupts"), {"C14.R3"}),
    Variant("initial-state-only-declared-inputs", "src/hypergraph/runners/_shared/helpers.py", replace_once("    for name, value in values.items():\n        state.update_value(name, value)\n\n    return state\n", "    for name, value in values.items():\n        if name in graph.inputs.all:\n            state.update_value(name, value)\n\n    return state\n"), {"C14.R4"}),
    Variant("twin-initial-state-items-unpacked", "src/hypergraph/runners/_shared/helpers.py", replace_once("    for name, value in values.items():\n        state.update_value(name, value)\n\n    return state\n", "    for item in values.items():\n        state.update_value(*item)\n\n    return state\n"), set()),
    Variant("resume-ignores-executions", AI, replace_once("        if all_outputs_present and node.name not in state.node_executions:", "        if all_outputs_present:"), {"C14.R4"}),
    Variant("resume-after-handler", AI, replace_once("        all_outputs_present = all(o in state.values for o in data_outputs)\n        if all_outputs_present and node.name not in state.node_executions:\n            result = {o: state.values[o] for o in data_outputs}\n            return _add_emit_sentinels(result, node)\n", "").__call__ and (lambda s: s.replace("        all_outputs_present = all(o in state.values for o in data_outputs)\n        if all_outputs_present and node.name not in state.node_executions:\n            result = {o: state.values[o] for o in data_outputs}\n            return _add_emit_sentinels(result, node)\n", "").replace("        # None return means \"pause\"\n", "        all_outputs_present = all(o in state.values for o in data_outputs)\n        if all_outputs_present and node.name not in state.node_executions:\n            result = {o: state.values[o] for o in data_outputs}\n            return _add_emit_sentinels(result, node)\n        # None return means \"pause\"\n")), {"C14.R4"}),
    Variant("nested-result-unconverted", AG, replace_once("        return self._handle_nested_result(node, result)", "        return node.map_outputs_from_original(result.values)"), {"C14.R5"}),
    Variant("separator-dot", AG, replace_once('node_name=f"{node.name}/{result.pause.node_name}",', 'node_name=f"{node.name}.{result.pause.node_name}",'), {"C14.R5"}),
    Variant("partial-state-attr-renamed", AR, replace_once("pause._partial_state = state", "pause.partial_state = state"), {"C14.R6"}),
    Variant("has-interrupts-top-level-only", "src/hypergraph/graph/core.py", replace_once("return any(node.is_interrupt or (node.nested_graph is not None and node.nested_graph.has_interrupts) for node in self._nodes.values())", "return any(node.is_interrupt for node in self._nodes.values())"), {"C14.R7"}),
    Variant("map-skips-compat", TA, replace_once("        validate_map_compatible(graph)\n", ""), {"C14.R7"}),
    Variant("twin-rename-pause-var", TA, lambda s: s.replace("except PauseExecution as pause:", "except PauseExecution as paused:").replace("getattr(pause, \"_partial_state\", None)", "getattr(paused, \"_partial_state\", None)").replace("pause=pause.pause_info", "pause=paused.pause_info"), set()),
    Variant("single-output-dict-unwrapped", AI, replace_once("    if len(data_outputs) > 1 and isinstance(response, dict):", "    if isinstance(response, dict) and set(response) == set(data_outputs):"), {"C14.R4"}),
    Variant("twin-single-output-early-return", AI, replace_once("    if len(data_outputs) > 1 and isinstance(response, dict):", "    if len(data_outputs) == 1:\n        return {data_outputs[0]: response}\n    if isinstance(response, dict):"), set()),
    Variant("resume-consults-cache", AS, replace_once("        if cache is not None and not is_resuming_interrupt(node, state):", "        if cache is not None:"), {"C14.R10"}),
    Variant("resume-bypass-ignores-executions", "src/hypergraph/runners/_shared/caching.py", replace_once("    return node.is_interrupt and node.name not in state.node_executions and all(o in state.values for o in node.data_outputs)", "    return node.is_interrupt and all(o in state.values for o in node.data_outputs)"), {"C14.R10"}),
    Variant("twin-resume-bypass-inline", AS, replace_once("        if cache is not None and not is_resuming_interrupt(node, state):", "        resuming = is_resuming_interrupt(node, state)\n        if cache is not None and not resuming:"), set()),
    Variant("restore-same-object-bumps-version", TY, replace_once("        elif old_value is value:\n", "        elif False:\n"), {"C14.R11"}),
]

"""C11 Errors surface unwrapped; partial results are exactly the completed work."""

from __future__ import annotations

import ast

from sa.cfg import CFG, G_EXC, N, find_path, fmt_path, reachable, reaches
from sa.db import AnalysisError, FuncInfo, ancestors, bind_args, dotted, src, walk_local
from sa.flow import defs_reaching, reaching_defs
from sa.model import contains, enclosing, execute_impl_funcs, is_user_func_call, superstep_funcs
from sa.variants import Variant, chain, replace_once, sub_first, sub_once

from .common import call_names, runner_no_raise, template_methods, vars_from_call

ID = "C11"
EXPLANATION = (
    "Decides the error discipline between a node function and the caller for every failure point: (R1) every except handler under runners/ whose "
    "try body can reach a user callable (by call closure) is classified on all CFG paths as re-raising the same object, wrapping it in the internal "
    "carrier ExecutionError(e, state), returning a FAILED result that carries it, or being one exempted, test-pinned wrapper; anything else "
    "(swallowing, a new wrapper type, fall-through) is a violation; (R2) both templates unwrap the carrier to its cause, take the partial state from "
    "it, raise 'from None', and build FAILED values by filtering that partial state; (R3) in both supersteps a node's outputs reach the state only on "
    "paths where its executor returned normally (or a cache hit); (R4) nested runs and map propagate the original exception object (no handler, default "
    "raise mode, 'raise result.error'); (R5) the error and pause paths of run() filter partial values with the non-raising default on_missing policy, "
    "so a user's on_missing='error' cannot replace the node's exception. (R6) no function under runners/ cancels a task or applies a time-out (the CancelledError/TimeoutError this injects would compete with the node's own exception for 'first error of the step' and is not an Exception the templates unwrap). R2 also requires the carrier's constructor to be total (str(cause) and attribute stores only); R3 evaluates the result-application loop under 'the result is an exception' as a valuation of that atom, so a second failure of the same step can never be unpacked as data."
    " R3 also requires, for the async step, that the loop applying the gathered results is never left early (no raise/break/return inside it): gather waits for all siblings, so the partial state holds each one's outputs wherever the failing node sits in the ready order."
    " R1 also treats a handler around the consumption of what a node function returned (list(result), iteration, await) as a handler of node code, and allows replacing the handled exception by its __cause__ only where it is the internal carrier; R2 requires the carrier to be unwrapped by presence of a cause, not by its truth value."
    " R3 also requires that the run state only grows: no function of the runners removes a value or a version from a GraphState (a value completed in an earlier step by another producer of the same name must stay in the partial results). R1 also requires that a coroutine which runs a user's sync function catches StopIteration at the call (PEP 479 replaces it by RuntimeError when it leaves the coroutine) — open finding F44."
)
NOT_DECIDED = "That partial values are the correct values (a statement about computed data); which of several same-step failures is reported first is decided under C02."

# handler exemptions: (function qname suffix) -> reason
EXEMPT = {
    "runners.async_.executors.interrupt_node._call_handler": "interrupt *handler* failures are reported as RuntimeError by design; pinned by tests/test_interrupt_node.py::TestHandlerFailure; outside C11's anchors (node functions)",
}


def _reach_user(db) -> set[FuncInfo]:
    direct = set()
    for f in db.all_funcs():
        for c in db.calls_in(f):
            if is_user_func_call(db, c, f):
                direct.add(f)
    reach = set(direct)
    changed = True
    edges: dict[FuncInfo, set[FuncInfo]] = {}
    for f in db.funcs_in("runners"):
        s = set()
        for _, cal in db.callees(f):
            if cal.func is not None:
                s.add(cal.func)
        edges[f] = s
    while changed:
        changed = False
        for f, s in edges.items():
            if f not in reach and s & reach:
                reach.add(f)
                changed = True
    return reach


def _derived_from(cfg: CFG, rd, n: N, e: ast.AST, hname: str, depth: int = 0) -> bool:
    """Is expression ``e`` at node ``n`` the handled exception or its unwrapped cause?"""
    if depth > 4:
        return False
    if isinstance(e, ast.Name):
        if e.id == hname:
            return True
        ds = defs_reaching(cfg, rd, n, e.id)
        if not ds:
            return False
        for d, v in ds:
            if d is cfg.entry or v is None:
                return False
            if not _derived_from(cfg, rd, d, v, hname, depth + 1):
                return False
        return True
    if isinstance(e, ast.Attribute) and e.attr in ("__cause__",):
        return _derived_from(cfg, rd, n, e.value, hname, depth + 1)
    if isinstance(e, ast.BoolOp):
        return all(_derived_from(cfg, rd, n, v, hname, depth + 1) for v in e.values)
    if isinstance(e, ast.IfExp):
        return _derived_from(cfg, rd, n, e.body, hname, depth + 1) and _derived_from(cfg, rd, n, e.orelse, hname, depth + 1)
    return False


def classify_handler(ctx, f: FuncInfo, h: ast.ExceptHandler, tr: ast.Try) -> tuple[bool, str]:
    db = ctx.db
    cfg = ctx.cfg(f, runner_no_raise(db))
    rd = reaching_defs(cfg)
    hns = cfg.nodes_for(h)
    if not hns:
        return True, "handler unreachable"
    verdicts: list[str] = []
    ok = True
    exec_err = db.cls("exceptions.ExecutionError")
    run_result = db.cls("runners._shared.types.RunResult")
    for hn in hns:
        body_nodes = set()
        todo = [hn]
        # nodes inside the handler body (lexically)
        while todo:
            n = todo.pop()
            if n in body_nodes:
                continue
            body_nodes.add(n)
            for t, l, i in n.succ:
                inside = t.ast is not None and any(contains(s, t.ast) for s in h.body)
                if inside and t.kind != "with_exit":
                    todo.append(t)
                elif l != "exc":
                    # leaving the handler body by a normal edge
                    if isinstance(n.ast, ast.Return):
                        continue
                    if isinstance(n.ast, (ast.Continue, ast.Break)):
                        ok = False
                        verdicts.append(f"'{type(n.ast).__name__.lower()}' at line {n.lineno} swallows the error")
                        continue
                    ok = False
                    verdicts.append(f"falls through at line {n.lineno}: the error is swallowed")
        for n in sorted(body_nodes):
            a = n.ast
            if n.kind != "stmt":
                continue
            if isinstance(a, ast.Raise):
                if a.exc is None:
                    verdicts.append("re-raises the same object")
                    continue
                e = a.exc
                if isinstance(e, ast.Call):
                    sym = db.resolve_expr_symbol(e.func, f.module, f)
                    if sym and sym[0] == "class" and sym[1] == exec_err:
                        arg0 = e.args[0] if e.args else None
                        if arg0 is not None and h.name and _derived_from(cfg, rd, n, arg0, h.name) and a.cause is not None and _derived_from(cfg, rd, n, a.cause, h.name):
                            verdicts.append("wraps in the internal carrier ExecutionError(e, state) from e")
                            continue
                        ok = False
                        verdicts.append(f"ExecutionError at line {n.lineno} does not carry the handled exception as cause")
                        continue
                    ok = False
                    verdicts.append(f"raises a new {src(e.func)} at line {n.lineno} instead of the original exception")
                    continue
                if h.name and _derived_from(cfg, rd, n, e, h.name):
                    # replacing the handled exception by its __cause__ is the unwrapping of the internal carrier and of
                    # nothing else: a node's own 'raise X from low_level' must surface X, not low_level
                    exprs_ = [e] + ([v for d, v in defs_reaching(cfg, rd, n, e.id) if v is not None and not isinstance(v, ast.ExceptHandler)] if isinstance(e, ast.Name) else [])
                    unwraps = [x for ex_ in exprs_ for x in ast.walk(ex_) if isinstance(x, ast.Attribute) and x.attr == "__cause__"]
                    if unwraps:
                        from .common import enclosing_facts

                        hnames = {x.split(".")[-1] for x in cfg._handler_names(h)}
                        carrier_only = hnames == {"ExecutionError"} or all(any(pol and isinstance(a_, ast.Call) and dotted(a_.func) == "isinstance" and "ExecutionError" in src(a_) for a_, pol in enclosing_facts(u)) for u in unwraps)
                        if not carrier_only:
                            ok = False
                            verdicts.append(f"line {n.lineno}: raises the handled exception's __cause__ although the handled exception need not be the internal carrier: a node raising 'X from low_level' surfaces low_level instead of X")
                            continue
                    verdicts.append("re-raises the handled exception (or its unwrapped cause)")
                    continue
                # `raise first_error` style: a value that is itself an exception taken from results
                ok = False
                verdicts.append(f"raises '{src(e)}' at line {n.lineno}, which is not derived from the handled exception")
            elif isinstance(a, ast.Return):
                v = a.value
                good = False
                if isinstance(v, ast.Call):
                    sym = db.resolve_expr_symbol(v.func, f.module, f)
                    if sym and sym[0] == "class" and sym[1] == run_result:
                        kw = {k.arg: k.value for k in v.keywords}
                        st = kw.get("status")
                        er = kw.get("error")
                        if st is not None and src(st).endswith("FAILED") and er is not None and h.name and _derived_from(cfg, rd, n, er, h.name):
                            good = True
                if good:
                    verdicts.append("returns a FAILED result carrying the exception")
                else:
                    ok = False
                    verdicts.append(f"returns at line {n.lineno} without a FAILED result carrying the exception")
    return ok, "; ".join(dict.fromkeys(verdicts))


def run(ctx) -> None:
    db, rep = ctx.db, ctx.rep
    rep.rule("C11.R1", "every handler between a node function and the caller re-raises, wraps in the carrier, returns FAILED with the error, or is an exempted wrapper", floor=8)
    rep.rule("C11.R2", "templates unwrap the carrier to its cause and build FAILED values from the carried partial state", floor=6)
    rep.rule("C11.R3", "a node's outputs are written to the state only after its executor returned normally", floor=4)
    rep.rule("C11.R4", "nested runs and map propagate the original exception object", floor=6)
    rep.rule("C11.R5", "the error path filters partial values with the non-raising default policy", floor=3)
    rep.rule("C11.R6", "the runners never inject an exception of their own into node results (no cancellation, no time-outs): the first error of a step is an exception a node raised", floor=40)

    reach = _reach_user(db)
    # ---- R1 ---------------------------------------------------------------
    n_h = 0
    for f in db.funcs_in("runners"):
        for tr in [n for n in walk_local(f.node) if isinstance(n, ast.Try)]:
            body_calls = [c for s in tr.body for c in [s] + list(walk_local(s)) if isinstance(c, ast.Call)]
            reaches_user = False
            for c in body_calls:
                if is_user_func_call(db, c, f):
                    reaches_user = True
                for cal in db.resolve_call(c, f):
                    if cal.func is not None and cal.func in reach:
                        reaches_user = True
            if not reaches_user:
                # the node's code also runs while what its function returned is consumed: a generator body executes
                # inside list(result) / for x in result / async for, a returned coroutine inside 'await result'
                uvars = {t.id for n_ in walk_local(f.node) if isinstance(n_, ast.Assign) for t in n_.targets if isinstance(t, ast.Name) and any(isinstance(c_, ast.Call) and is_user_func_call(db, c_, f) for c_ in ast.walk(n_.value))}
                for s_ in tr.body:
                    for x in [s_] + list(walk_local(s_)):
                        if isinstance(x, (ast.For, ast.AsyncFor)) and isinstance(x.iter, ast.Name) and x.iter.id in uvars:
                            reaches_user = True
                        if isinstance(x, ast.Await) and isinstance(x.value, ast.Name) and x.value.id in uvars:
                            reaches_user = True
                        if isinstance(x, ast.Call) and (dotted(x.func) or "") in ("list", "tuple", "next", "sorted", "set") and x.args and isinstance(x.args[0], ast.Name) and x.args[0].id in uvars:
                            reaches_user = True
                        if isinstance(x, (ast.ListComp, ast.GeneratorExp, ast.SetComp)) and any(isinstance(g_.iter, ast.Name) and g_.iter.id in uvars for g_ in x.generators):
                            reaches_user = True
            if not reaches_user:
                continue
            cfg = ctx.cfg(f, runner_no_raise(db))
            for i, h in enumerate(tr.handlers):
                names = cfg._handler_names(h)
                catches_exc = any(cfg.maybe_caught(G_EXC, [nm]) for nm in names)
                if not catches_exc:
                    continue  # e.g. `except PauseExecution`: not an Exception handler (C14 decides those)
                n_h += 1
                inst = f"{f.qname}:except {'|'.join(x.split('.')[-1] for x in names)}#{_try_index(f, tr)}"
                loc = f"{f.module.rel}:{h.lineno}"
                exempt = next((r for k, r in EXEMPT.items() if f.qname.endswith(k)), None)
                if exempt:
                    # the exemption is narrow: the wrapper must still raise (from e), never swallow
                    raises = [n for s in h.body for n in [s] + list(walk_local(s)) if isinstance(n, ast.Raise)]
                    good = bool(raises) and all(r.cause is not None and isinstance(r.cause, ast.Name) and r.cause.id == h.name for r in raises) and isinstance(h.body[-1], ast.Raise)
                    rep.add("C11.R1", inst, good, loc, f"exempted wrapper ({exempt})" if good else "exempted wrapper no longer raises 'from e' on every path")
                    continue
                ok, why = classify_handler(ctx, f, h, tr)
                rep.add("C11.R1", inst, ok, loc, why)
    rep.extra["handlers_on_run_path"] = n_h

    # ---- R2 ---------------------------------------------------------------
    for m in template_methods(db, "run"):
        cfg = ctx.cfg(m, runner_no_raise(db))
        rd = reaching_defs(cfg)
        hs = [h for n in walk_local(m.node) if isinstance(n, ast.Try) for h in n.handlers if "Exception" in [x.split(".")[-1] for x in cfg._handler_names(h)]]
        if not hs:
            rep.bad("C11.R2", f"{m.qname}:handler", f"{m.module.rel}:{m.lineno}", "run() has no 'except Exception' boundary handler")
            continue
        h = hs[0]
        hname = h.name or ""
        # (a) isinstance(e, ExecutionError) branch assigns cause and partial_state
        cause_assign = state_assign = False
        for n in [x for s in h.body for x in [s] + list(walk_local(s))]:
            if isinstance(n, ast.If) and "ExecutionError" in src(n.test) and hname in src(n.test):
                for b in n.body:
                    if isinstance(b, ast.Assign):
                        if "__cause__" in src(b.value) and hname in src(b.value):
                            cause_assign = True
                        if isinstance(b.value, ast.Attribute) and b.value.attr == "partial_state" and src(b.value.value) == hname:
                            state_assign = True
        # ... by presence: 'e.__cause__ or e' keeps the carrier when the node's exception is falsy (defines __len__/__bool__)
        by_truth = [b for n in [x for s_ in h.body for x in [s_] + list(walk_local(s_))] if isinstance(n, ast.Assign) for b in [n.value] if isinstance(b, ast.BoolOp) and isinstance(b.op, ast.Or) and any(isinstance(v_, ast.Attribute) and v_.attr == "__cause__" for v_ in b.values)]
        by_truth += [b for n in [x for s_ in h.body for x in [s_] + list(walk_local(s_))] if isinstance(n, ast.Assign) for b in [n.value] if isinstance(b, ast.IfExp) and isinstance(b.test, ast.Attribute) and b.test.attr == "__cause__"]
        rep.add("C11.R2", f"{m.qname}:unwrap-by-presence", not by_truth, f"{m.module.rel}:{by_truth[0].lineno if by_truth else h.lineno}", "the carrier is replaced by its cause whenever it has one" if not by_truth else f"'{src(by_truth[0])}' chooses between the cause and the carrier by the cause's truth value: a node exception that is falsy (defines __len__ or __bool__) is surfaced as the internal ExecutionError wrapper")
        rep.add("C11.R2", f"{m.qname}:unwrap-cause", cause_assign, f"{m.module.rel}:{h.lineno}", "carrier is replaced by its __cause__" if cause_assign else "the ExecutionError carrier is not unwrapped to its cause")
        rep.add("C11.R2", f"{m.qname}:take-partial-state", state_assign, f"{m.module.rel}:{h.lineno}", "partial state is taken from the carrier" if state_assign else "partial state is not taken from the carrier")
        # (b) raise error from None, error derived from e
        raises = [n for n in cfg.nodes if n.kind == "stmt" and isinstance(n.ast, ast.Raise) and any(contains(s, n.ast) for s in h.body)]
        okr = bool(raises)
        cause_erased = False
        for n in raises:
            a = n.ast
            if a.exc is None:
                okr = False  # a bare raise re-raises the handled object — possibly the internal carrier — without unwrapping
                continue
            if not _derived_from(cfg, rd, n, a.exc, hname):
                okr = False
            # it must be the *unwrapped* value: some reaching definition takes e.__cause__
            if isinstance(a.exc, ast.Name):
                vals = [v for d, v in defs_reaching(cfg, rd, n, a.exc.id) if v is not None and not isinstance(v, ast.ExceptHandler)]
                if not any("__cause__" in src(v) for v in vals):
                    okr = False
            else:
                okr = False
            # the node's exception surfaces as the node raised it: the re-raise must not rewrite its explicit cause
            # ('raise error from None' erases the __cause__ of a node that did 'raise E2(...) from orig'); accepted:
            # no 'from' clause, or 'from <the same error>.__cause__' (keeps the cause, still hides the internal carrier)
            if a.cause is not None and not (isinstance(a.cause, ast.Attribute) and a.cause.attr == "__cause__" and src(a.cause.value) == src(a.exc)):
                okr = False
                cause_erased = isinstance(a.cause, ast.Constant) and a.cause.value is None
        rep.add("C11.R2", f"{m.qname}:raise-unwrapped", okr, f"{m.module.rel}:{raises[0].lineno if raises else h.lineno}", "raises the unwrapped error with its own cause untouched" if okr else ("the boundary handler re-raises the node's exception 'from None': the exception object the caller receives has lost the explicit __cause__ the node gave it ('raise E2(...) from orig' arrives with __cause__ None)" if cause_erased else "raise in the boundary handler is not the unwrapped error with its cause untouched"))
        # (c) FAILED values derive from filter_outputs(partial_state)
        okv = False
        for n in cfg.nodes:
            if n.kind == "stmt" and isinstance(n.ast, ast.Return) and any(contains(s, n.ast) for s in h.body) and isinstance(n.ast.value, ast.Call):
                kw = {k.arg: k.value for k in n.ast.value.keywords}
                v = kw.get("values")
                exprs = [v]
                if isinstance(v, ast.Name):
                    exprs = [val for d, val in defs_reaching(cfg, rd, n, v.id) if val is not None]
                for e in exprs:
                    for c in ast.walk(e):
                        if isinstance(c, ast.Call) and "filter_outputs" in call_names(db, c, m) and c.args and isinstance(c.args[0], ast.Name):
                            srcs = [val for d, val in defs_reaching(cfg, rd, n, c.args[0].id) if val is not None]
                            if any(isinstance(s, ast.Attribute) and s.attr == "partial_state" for s in srcs):
                                okv = True
        rep.add("C11.R2", f"{m.qname}:failed-values", okv, f"{m.module.rel}:{h.lineno}", "FAILED values = filter_outputs(carried partial state)" if okv else "FAILED result values do not derive from the carried partial state")

    # the carrier's constructor is total: wrapping must succeed for *every* exception object a node can raise
    # (empty args, keyword-only structured errors, BaseException subclasses), otherwise the failure of the
    # wrapper replaces the node's exception
    ee = db.cls("exceptions.ExecutionError")
    init = ee.methods.get("__init__")
    bad_ops = []
    if init is not None:
        for x in walk_local(init.node):
            if isinstance(x, ast.Subscript) and isinstance(x.ctx, ast.Load):
                bad_ops.append(x)
            if isinstance(x, ast.Call):
                d_ = dotted(x.func) or src(x.func)
                if d_ not in ("super", "super().__init__", "str", "repr", "type"):
                    bad_ops.append(x)
            if isinstance(x, (ast.Raise, ast.Assert)):
                bad_ops.append(x)
            if isinstance(x, ast.Attribute) and isinstance(x.ctx, ast.Load) and isinstance(x.value, ast.Name) and x.value.id in init.param_names and x.value.id != "self":
                bad_ops.append(x)
    ok = init is not None and not bad_ops
    rep.add("C11.R2", f"{ee.qname}.__init__:total", ok, init.loc() if init else ee.loc(), "the carrier is built from str(cause) and plain attribute stores only: it cannot fail for any exception object" if ok else f"'{src(bad_ops[0])[:60]}' can raise for some exception objects (e.g. args == ()): the run then surfaces the wrapper's own failure instead of the exception the node raised")

    # ---- R6 ---------------------------------------------------------------
    INJECTORS = {"asyncio.wait_for", "asyncio.timeout", "asyncio.timeout_at"}
    n6 = 0
    for f in db.funcs_in("runners"):
        n6 += 1
        bad = []
        for c in db.calls_in(f):
            d = dotted(c.func) or ""
            if d in INJECTORS:
                bad.append((c, f"{d}(...)"))
            elif isinstance(c.func, ast.Attribute) and c.func.attr == "cancel" and not c.args:
                t = db.type_of(c.func.value, f)
                if t is None or not t.classes():
                    bad.append((c, f"{src(c.func)}()"))
        if bad:
            c, what = bad[0]
            rep.bad("C11.R6", f"{f.qname}:{what}", f"{f.module.rel}:{c.lineno}", "a task of the run can be cancelled / timed out by the runner: the CancelledError or TimeoutError it produces competes with the node's own exception for 'first error of the step' and is not an Exception the templates unwrap")
        else:
            rep.ok("C11.R6", f"{f.qname}", f.loc(), "no cancellation or time-out of run tasks")

    # ---- R5 ---------------------------------------------------------------
    check_handlers_filter_quietly(ctx, "C11.R5")

    # ---- R3 ---------------------------------------------------------------
    collect = db.func("runners._shared.helpers.collect_inputs_for_node")
    for ss in superstep_funcs(db):
        cfg = ctx.cfg(ss, runner_no_raise(db))
        writes = [n for n in cfg.nodes if _is_state_write(n)]
        if len(writes) < 2:
            raise AnalysisError(f"{ss.qname}: state writes not recognised")
        if not ss.is_async:
            execs = [n for n in cfg.nodes if any(isinstance(c.func, ast.Name) and c.func.id == "execute_node" for c in cfg.calls_at(n))]
            cvars = set(vars_from_call(db, ss, {"check_cache"}, index=1))
            cached = [n for n in cfg.nodes if n.kind == "stmt" and isinstance(n.ast, ast.Assign) and isinstance(n.ast.value, ast.Name) and n.ast.value.id in cvars]
            loop = [n for n in cfg.nodes if n.kind == "for" and any(contains(s, c) for s in n.ast.body for w in writes for c in [w.ast])]
            if not execs or not loop:
                raise AnalysisError(f"{ss.qname}: executor call / per-node loop not recognised")
            outer = min(loop, key=lambda n: n.lineno)
            start = [t for t, l, _ in outer.succ if l == "T"][0]

            def ef(a, b, l, i):
                if a in execs and l != "exc":
                    return False
                if a in cached:
                    return False
                if a is outer:
                    return False
                return True

            for w in writes:
                bad = reaches(start, w, ef)
                rep.add("C11.R3", f"{ss.qname}:write:{_wkey(w)}", not bad, f"{ss.module.rel}:{w.lineno}", "state write only after the executor returned normally or a cache hit" if not bad else "state write reachable on a path where the node's executor did not return normally", witness=fmt_path(find_path(start, w, ef)) if bad else "")
        else:
            tests = [n for n in cfg.nodes if n.kind == "test" and "isinstance" in src(n.ast) and "BaseException" in src(n.ast)]
            loops = [n for n in cfg.nodes if n.kind == "for" and any(contains(s, w.ast) for s in n.ast.body for w in writes)]
            if not tests or not loops:
                raise AnalysisError(f"{ss.qname}: result-application loop not recognised")
            outer = min(loops, key=lambda n: n.lineno)
            start = [t for t, l, _ in outer.succ if l == "T"][0]

            from sa.cfg import both, specialize, test_atoms

            exc_atoms = {src(a) for t in tests for a in test_atoms(t.ast) if isinstance(a, ast.Call) and dotted(a.func) == "isinstance" and "BaseException" in src(a)}
            spec = specialize({a: True for a in exc_atoms}, cfg)

            def stay(a, b, l, i):
                return a is not outer

            ef = both(stay, spec)

            for w in writes:
                bad = reaches(start, w, ef)
                rep.add("C11.R3", f"{ss.qname}:write:{_wkey(w)}", not bad, f"{ss.module.rel}:{w.lineno}", "results are applied only for non-exception results" if not bad else "a failed node's result can be applied to the state")
            # every gathered result is visited before the step raises: all siblings ran to completion
            # (gather waits for them), so the partial state must hold each one's outputs wherever the
            # failing node sits in the ready order — the loop that applies results is never left early
            early = [x for s_ in outer.ast.body for x in ast.walk(s_) if isinstance(x, (ast.Raise, ast.Break, ast.Return)) and db.enclosing_func(x) is ss]
            rep.add("C11.R3", f"{ss.qname}:all-results-applied-before-raise", not early, f"{ss.module.rel}:{early[0].lineno if early else outer.lineno}", "the loop applying the gathered results runs to its end; the first error is raised after it" if not early else f"the loop applying the gathered results is left early ('{src(early[0])[:50]}'): outputs of siblings that completed but come after the failing node in ready order are missing from the partial state")
            # the closure returns outputs only after a normal executor return / cache hit
            for ch in ss.children.values():
                if not any(cal.func == collect for _, cal in db.callees(ch)):
                    continue
                ccfg = ctx.cfg(ch, runner_no_raise(db))
                execs = [n for n in ccfg.nodes if any(isinstance(c.func, ast.Name) and c.func.id == "execute_node" for c in ccfg.calls_at(n))]
                cvars = set(vars_from_call(db, ch, {"check_cache"}, index=1))
                cached = [n for n in ccfg.nodes if n.kind == "stmt" and isinstance(n.ast, ast.Assign) and isinstance(n.ast.value, ast.Name) and n.ast.value.id in cvars]

                def ef2(a, b, l, i):
                    if a in execs and l != "exc":
                        return False
                    if a in cached:
                        return False
                    return True

                bad = reaches(ccfg.entry, ccfg.exit_return, ef2)
                rep.add("C11.R3", f"{ch.qname}:returns-after-success", not bad, f"{ch.module.rel}:{ch.lineno}", "returns outputs only after the executor returned normally or a cache hit" if not bad else "can return outputs although the executor did not return normally")

    check_state_only_grows(ctx, "C11.R3")
    check_step_outcome_single_source(ctx, "C11.R6")
    # in a map with collected errors, the FAILED result (the node's exception and its partial values) sits in the slot of
    # the item that failed: the bounded map pairs index and result after the item finished
    from .c10 import check_async_map_order

    check_async_map_order(ctx, "C11.R4")
    check_stop_iteration_kept(ctx, "C11.R1", reach)

    # ---- R4 ---------------------------------------------------------------
    run_map = set(template_methods(db, "run") + template_methods(db, "map"))
    for f in db.funcs_in("runners"):
        if "executors" not in f.module.name:
            continue
        for call, cal in db.callees(f):
            if cal.func in run_map:
                kw = {k.arg: k.value for k in call.keywords}
                eh = kw.get("error_handling")
                in_try = enclosing(call, (ast.Try,))
                ok = in_try is None
                why = "nested call sits outside any try; errors propagate as raised"
                if cal.func.name == "run" and eh is not None and not (isinstance(eh, ast.Constant) and eh.value == "raise"):
                    ok, why = False, "nested run() does not use the raise mode"
                if not ok and in_try is not None:
                    why = "nested run/map call is wrapped in a try block inside the executor"
                rep.add("C11.R4", f"{f.qname}:{cal.func.name}", ok, f"{f.module.rel}:{call.lineno}", why)
    coll = db.func("runners._shared.helpers.collect_as_lists")
    for f in [coll] + template_methods(db, "map"):
        for n in walk_local(f.node):
            if isinstance(n, ast.Raise) and n.exc is not None:
                e = n.exc
                inst = f"{f.qname}:raise {src(e)[:40]}"
                if isinstance(e, ast.Call):
                    tr = enclosing(n, (ast.Try, ast.For, ast.AsyncFor, ast.While))
                    ok = tr is None and not any(isinstance(x, ast.Attribute) and x.attr == "error" for x in ast.walk(e))  # argument validation before the span starts
                    rep.add("C11.R4", inst, ok, f"{f.module.rel}:{n.lineno}", "up-front argument validation" if ok else f"constructs a new exception {src(e.func)} on the execution path")
                elif isinstance(e, ast.Attribute) and e.attr == "error":
                    t = db.type_of(e.value, f)
                    ok = t is not None and any(c.name == "RunResult" for c in t.classes()) or isinstance(e.value, ast.Name)
                    rep.add("C11.R4", inst, ok, f"{f.module.rel}:{n.lineno}", "raises the failed item's own error object")
                elif isinstance(e, ast.Name):
                    rep.add("C11.R4", inst, True, f"{f.module.rel}:{n.lineno}", "re-raises an exception object taken from the gathered results")
                else:
                    rep.bad("C11.R4", inst, f"{f.module.rel}:{n.lineno}", "unrecognised raise form on the map error path")


def check_step_outcome_single_source(ctx, rule: str) -> None:
    """The outcome of a concurrent step is the first exceptional result in ready order, whatever its kind: one variable
    records it and every raise after the loop raises (or wraps) that variable — a second variable that takes precedence
    (e.g. 'a pause signal wins') lets a sibling's pause hide the exception a node raised earlier in the order."""
    db, rep = ctx.db, ctx.rep
    for ss in superstep_funcs(db):
        if not ss.is_async:
            continue
        loops = [lp for lp in walk_local(ss.node) if isinstance(lp, ast.For) and any(isinstance(t, ast.If) and "isinstance" in src(t.test) and "Exception" in src(t.test) for t in lp.body)]
        if not loops:
            raise AnalysisError("result loop of the async superstep not found")
        lp = loops[0]
        recs = {}
        for x in ast.walk(lp):
            if isinstance(x, ast.Assign) and isinstance(x.targets[0], ast.Name) and isinstance(x.value, ast.Name) and isinstance(lp.target, (ast.Name, ast.Tuple)) and x.value.id in {z.id for z in ast.walk(lp.target) if isinstance(z, ast.Name)}:
                guard = next((a for a in ancestors(x) if isinstance(a, ast.If) and "isinstance" in src(a.test)), None)
                recs[x.targets[0].id] = src(guard.test) if guard is not None else "?"
            # the same record kept as a list in ready order, its first element being the outcome
            if isinstance(x, ast.Call) and isinstance(x.func, ast.Attribute) and x.func.attr == "append" and isinstance(x.func.value, ast.Name) and x.args and isinstance(x.args[0], ast.Name) and x.args[0].id in {z.id for z in ast.walk(lp.target) if isinstance(z, ast.Name)}:
                guard = next((a for a in ancestors(x) if isinstance(a, ast.If) and "isinstance" in src(a.test)), None)
                if guard is not None and "Exception" in src(guard.test):
                    firsts = [d_ for nm_, ds_ in db.local_defs(ss).items() for d_ in ds_ if isinstance(d_, ast.Assign) and f"{x.func.value.id}[0]" in src(d_.value)]
                    for d_ in firsts:
                        recs[d_.targets[0].id] = src(guard.test)
                    if not firsts:
                        recs[x.func.value.id] = src(guard.test)
        raises = [r for r in walk_local(ss.node) if isinstance(r, ast.Raise) and r.lineno > lp.end_lineno and r.exc is not None]
        raised = {z.id for r in raises for z in ast.walk(r.exc) if isinstance(z, ast.Name)} & set(recs)
        wide = [v for v, g in recs.items() if "BaseException" in g]
        ok = len(recs) == 1 and len(wide) == 1 and raised == set(recs)
        rep.add(rule, f"{ss.qname}:step-outcome-single-source", ok, f"{ss.module.rel}:{lp.lineno}", f"one variable ('{wide[0]}') records the first exceptional result of any kind in ready order; every raise after the loop uses it" if ok else f"the step's exceptional results are recorded in {sorted(recs)} under {sorted(set(recs.values()))}: the outcome is no longer the first exceptional result in ready order — a pause raised by a sibling nested graph can win over the exception a node raised before it, and run() returns PAUSED with error=None instead of raising / reporting the node's exception")


def check_stop_iteration_kept(ctx, rule: str, reach: set[FuncInfo]) -> None:
    """PEP 479: a StopIteration that leaves a coroutine frame is replaced by RuntimeError('coroutine raised
    StopIteration'). A coroutine that calls a user's *sync* function directly (or a sync helper that does) must therefore
    catch StopIteration at the call and hand the object on by other means — else the caller sees a RuntimeError, not
    the exception the node raised."""
    db, rep = ctx.db, ctx.rep
    n = 0
    for f in db.funcs_in("runners.async_.executors"):
        if not f.is_async:
            continue
        sites = []
        for c in db.calls_in(f):
            if isinstance(getattr(c, "_parent", None), ast.Await):
                continue
            if is_user_func_call(db, c, f) or any(cal.func is not None and not cal.func.is_async and cal.func in reach for cal in db.resolve_call(c, f)):
                sites.append(c)
        if not sites:
            continue
        n += 1
        if "interrupt" in f.module.name:
            # reasoned exemption: a failing interrupt handler is re-raised as RuntimeError("Handler for InterruptNode ... failed")
            # by design (the executor's own 'except Exception' around the awaited handler call) — whatever it raised
            rep.ok(rule, f"{f.qname}:stop-iteration-kept", f.loc(), "interrupt handler failures are re-raised as RuntimeError by design; the conversion changes nothing the caller can see")
            continue
        unguarded = [c for c in sites if not any(isinstance(a, ast.Try) and any(contains(st, c) for st in a.body) and any(h.type is not None and "StopIteration" in src(h.type) for h in a.handlers) for a in ancestors(c))]
        rep.add(rule, f"{f.qname}:stop-iteration-kept", not unguarded, f"{f.module.rel}:{(unguarded[0] if unguarded else f.node).lineno}", "a StopIteration raised by the user's sync function is caught inside the coroutine" if not unguarded else f"'{src(unguarded[0])[:50]}' runs a user's sync function inside 'async def {f.name}' without catching StopIteration: when the node raises it (a bare next() on an exhausted iterator), Python replaces it by RuntimeError('coroutine raised StopIteration') as it leaves the coroutine — AsyncRunner surfaces a RuntimeError where SyncRunner surfaces the node's own StopIteration")
    if n < 4:
        raise AnalysisError(f"only {n} async executor coroutine(s) that run a sync user function found")


_REMOVALS = ("pop", "popitem", "clear")


def check_state_only_grows(ctx, rule: str) -> None:
    """Values completed in earlier steps stay in the state a failed run reports: nothing in the runners takes a value
    (or its version) out of a GraphState — the state of a run only grows or is overwritten by a later production."""
    db, rep = ctx.db, ctx.rep
    from sa.effects import Effects

    E = getattr(ctx, "_effects", None) or Effects(db)
    n_f = 0
    bad: list[tuple[FuncInfo, int, str]] = []
    for f in db.funcs_in("runners"):
        sps = [p_ for p_ in f.param_names if "GraphState" in src(f.param_annotation(p_) or ast.Constant(""))]
        if f.cls is not None and f.cls.name == "GraphState":
            sps = sps + ["self"]
        local_states = {n_ for n_, ds in db.local_defs(f).items() if any(isinstance(d, (ast.Assign, ast.AnnAssign)) and isinstance(getattr(d, "value", None), ast.Call) and (src(d.value.func).endswith(".copy") and any(b in src(d.value.func) for b in sps + ["state"]) or (dotted(d.value.func) or "").endswith("GraphState") or "initialize_state" in src(d.value.func)) for d in ds)}
        if not sps and not local_states:
            continue
        n_f += 1
        for p_ in sps:
            for e in E.writes(f, p_, include_unknown=False):
                if e.kind == "mutate" and e.path and e.path[0] in ("values", "versions") and (e.detail.startswith("del ") or any(f".{m}(" in e.detail for m in _REMOVALS)):
                    bad.append((f, e.lineno, f"{e.detail} (in {e.func})"))
        for n in walk_local(f.node):
            recv = None
            if isinstance(n, ast.Call) and isinstance(n.func, ast.Attribute) and n.func.attr in _REMOVALS:
                recv = n.func.value
            elif isinstance(n, ast.Delete) and isinstance(n.targets[0], ast.Subscript):
                recv = n.targets[0].value
            if isinstance(recv, ast.Attribute) and recv.attr in ("values", "versions") and isinstance(recv.value, ast.Name) and recv.value.id in local_states:
                bad.append((f, n.lineno, src(n)[:60]))
    seen = set()
    for f, ln, what in bad:
        key = f"{f.qname}:state-only-grows"
        if key in seen:
            continue
        seen.add(key)
        rep.bad(rule, key, f"{f.module.rel}:{ln}", f"'{what}' removes an entry from the run state: a value completed in an earlier step (e.g. by another, ordered or exclusive, producer of the same name) disappears from the partial results a failed run reports")
    if n_f < 20:
        raise AnalysisError(f"only {n_f} functions handling a GraphState found")
    rep.add(rule, "runners:state-only-grows", not bad, "src/hypergraph/runners", f"{n_f} function(s) that receive or create a run state: none removes a value or version from it" if not bad else f"{len(bad)} removal(s) from a run state")


def _is_state_write(n: N) -> bool:
    a = n.ast
    if n.kind != "stmt" or a is None:
        return False
    if isinstance(a, ast.Expr) and isinstance(a.value, ast.Call) and isinstance(a.value.func, ast.Attribute) and a.value.func.attr == "update_value":
        return True
    if isinstance(a, ast.Assign):
        for t in a.targets:
            if isinstance(t, ast.Subscript) and isinstance(t.value, ast.Attribute) and t.value.attr in ("node_executions", "values", "versions"):
                return True
    return False


def _wkey(n: N) -> str:
    a = n.ast
    if isinstance(a, ast.Expr):
        return "update_value"
    return "node_executions" if "node_executions" in src(a) else "store"


def _try_index(f: FuncInfo, tr: ast.Try) -> int:
    trs = [n for n in walk_local(f.node) if isinstance(n, ast.Try)]
    return trs.index(tr)


def check_handlers_filter_quietly(ctx, rule: str, only: str | None = None) -> None:
    """Handlers of run() that build partial values (error and pause paths) filter them with the
    non-raising default on_missing policy; ``only`` restricts to handlers naming that exception."""
    db, rep = ctx.db, ctx.rep
    fo = db.func("runners._shared.helpers.filter_outputs")
    default = None
    a = fo.args
    pos = a.posonlyargs + a.args
    for i, arg in enumerate(pos):
        if arg.arg == "on_missing":
            j = i - (len(pos) - len(a.defaults))
            if j >= 0 and isinstance(a.defaults[j], ast.Constant):
                default = a.defaults[j].value
    valid = db.const_value(db.resolve_name("_VALID_ON_MISSING", fo.module, None))
    valid_vals = [e.value for e in valid.elts if isinstance(e, ast.Constant)] if isinstance(valid, (ast.Tuple, ast.List, ast.Set)) else []
    quiet_ok = default is not None and default in valid_vals
    if quiet_ok:
        from sa.cfg import specialize

        from .common import policy_valuation

        for g in db.closure([fo], property_reads=False):
            if g.module != fo.module:
                continue
            gcfg = ctx.cfg(g)
            live = reachable(gcfg.entry, specialize(policy_valuation(g, valid_vals, default)))
            for n in live:
                if n.kind == "stmt" and isinstance(n.ast, ast.Raise):
                    quiet_ok = False
                if any(dotted(c.func) == "warnings.warn" for c in gcfg.calls_at(n)):
                    quiet_ok = False
    rep.add(rule, f"{fo.qname}:default-policy-is-quiet", quiet_ok, fo.loc(), f"with the default on_missing={default!r} output filtering neither raises nor warns" if quiet_ok else f"output filtering can raise/warn under its default policy on_missing={default!r}")
    for m in template_methods(db, "run"):
        for tr in [n for n in walk_local(m.node) if isinstance(n, ast.Try)]:
            for h in tr.handlers:
                for c in [x for s_ in h.body for x in [s_] + list(walk_local(s_)) if isinstance(x, ast.Call)]:
                    if "filter_outputs" in call_names(db, c, m):
                        b = bind_args(c, fo).get("on_missing")
                        ok = b is None or (isinstance(b, ast.Constant) and b.value == default)
                        hn = "|".join(x.split(".")[-1] for x in ctx.cfg(m)._handler_names(h))
                        if only is not None and only not in hn:
                            continue
                        rep.add(rule, f"{m.qname}:except {hn}:filter_outputs", ok, f"{m.module.rel}:{c.lineno}", "partial values are filtered with the quiet default policy" if ok else f"the error path applies the caller's on_missing policy ({src(b)}): with on_missing='error' the handler raises ValueError instead of surfacing the node's error / returning FAILED")



SS = "src/hypergraph/runners/sync/superstep.py"
AS = "src/hypergraph/runners/async_/superstep.py"
TS = "src/hypergraph/runners/_shared/template_sync.py"
TA = "src/hypergraph/runners/_shared/template_async.py"
SR = "src/hypergraph/runners/sync/runner.py"
AR = "src/hypergraph/runners/async_/runner.py"
VARIANTS = [
    Variant("carrier-message-from-args0", "src/hypergraph/exceptions.py", replace_once("        super().__init__(str(cause))", "        super().__init__(cause.args[0])"), {"C11.R2"}),
    Variant("async-step-fail-fast-cancel", AS, replace_once("    tasks = [execute_one(node) for node in ready_nodes]\n    results = await asyncio.gather(*tasks, return_exceptions=True)", "    tasks = [asyncio.ensure_future(execute_one(node)) for node in ready_nodes]\n    if len(tasks) > 1:\n        _, pending = await asyncio.wait(tasks, return_when=asyncio.FIRST_EXCEPTION)\n        for task in pending:\n            task.cancel()\n    results = await asyncio.gather(*tasks, return_exceptions=True)"), {"C11.R6"}),
    Variant("sync-superstep-wrap-runtimeerror", SS, replace_once("                    raise ExecutionError(e, new_state) from e", "                    raise RuntimeError(f\"node {node.name} failed\") from e"), {"C11.R1"}),
    Variant("runner-swallow-generic", SR, replace_once("            except ExecutionError:\n                raise\n            except Exception as e:\n                raise ExecutionError(e, state) from e", "            except ExecutionError:\n                raise\n            except Exception:\n                break"), {"C11.R1"}),
    Variant("async-runner-carrier-without-cause", AR, replace_once("                    raise ExecutionError(e, state) from e", "                    raise ExecutionError(RuntimeError(str(e)), state) from e"), {"C11.R1"}),
    Variant("map-item-swallow", TA, sub_once(r"(            except Exception as e:\n                # Catch validation errors.*?\n                # before run\(\)'s execution try block\n                return RunResult\(\n                    values=\{\},\n                    status=RunStatus\.)FAILED(,\n                    run_id=_generate_run_id\(\),\n                    error=e,)", r"\1COMPLETED\2"), {"C11.R1"}),
    Variant("template-no-unwrap", TS, replace_once("                error = e.__cause__ if e.__cause__ is not None else e\n                partial_state = e.partial_state", "                partial_state = e.partial_state"), {"C11.R2"}),
    Variant("template-raise-with-context", TA, replace_once("                raise error from error.__cause__", "                raise e"), {"C11.R2"}),
    Variant("template-reraise-erases-node-cause", TA, replace_once("                raise error from error.__cause__", "                raise error from None"), {"C11.R2"}),
    Variant("twin-template-reraise-plain", TA, replace_once("                raise error from error.__cause__", "                raise error"), set()),
    Variant("template-nested-reraises-carrier", TA, replace_once("            if error_handling == \"raise\":\n                raise error from error.__cause__\n\n            partial_values = filter_outputs(partial_state, graph, select) if partial_state is not None else {}\n            return RunResult(\n                values=partial_values,\n                status=RunStatus.FAILED,", "            if error_handling == \"raise\":\n                if _parent_span_id is not None and isinstance(e, ExecutionError):\n                    raise\n                raise error from error.__cause__\n\n            partial_values = filter_outputs(partial_state, graph, select) if partial_state is not None else {}\n            return RunResult(\n                values=partial_values,\n                status=RunStatus.FAILED,"), {"C11.R2"}),
    Variant("template-failed-values-empty", TS, replace_once("            partial_values = filter_outputs(partial_state, graph, select) if partial_state is not None else {}", "            partial_values = {}"), {"C11.R2"}),
    Variant("sync-update-in-finally", SS, sub_once(r"                # Re-raise other BaseExceptions \(KeyboardInterrupt, SystemExit, etc\.\)\n                raise\n", "                # Re-raise other BaseExceptions (KeyboardInterrupt, SystemExit, etc.)\n                if not isinstance(e, KeyboardInterrupt):\n                    outputs = {}\n                else:\n                    raise\n"), {"C11.R3", "C11.R1"}),
    Variant("async-apply-failed", AS, replace_once("        if isinstance(result, BaseException):\n            if first_error is None:\n                first_error = result\n            continue\n", "        if isinstance(result, BaseException):\n            if first_error is None:\n                first_error = result\n            if not isinstance(result, ExecutionError):\n                continue\n            result = (ready_nodes[0], {}, {}, {})\n"), {"C11.R3"}),
    Variant("nested-run-continue-mode", "src/hypergraph/runners/sync/executors/graph_node.py", replace_once("            event_processors=event_processors,\n            _parent_span_id=parent_span_id,\n        )\n        return node.map_outputs_from_original(result.values)", "            event_processors=event_processors,\n            _parent_span_id=parent_span_id,\n            error_handling=\"continue\",\n        )\n        return node.map_outputs_from_original(result.values)"), {"C11.R4"}),
    Variant("collect-wraps-error", "src/hypergraph/runners/_shared/helpers.py", replace_once("                raise result.error  # type: ignore[misc]\n            # Continue mode", "                raise RuntimeError(str(result.error))\n            # Continue mode"), {"C11.R4"}),
    Variant("template-error-path-onmissing", TS, replace_once("partial_values = filter_outputs(partial_state, graph, select) if partial_state is not None else {}", "partial_values = filter_outputs(partial_state, graph, select, on_missing) if partial_state is not None else {}"), {"C11.R5"}),
    Variant("filter-default-policy-error", "src/hypergraph/runners/_shared/helpers.py", replace_once("    select: str | list[str] | Any = _UNSET_SELECT,\n    on_missing: str = \"ignore\",\n) -> dict[str, Any]:", "    select: str | list[str] | Any = _UNSET_SELECT,\n    on_missing: str = \"error\",\n) -> dict[str, Any]:"), {"C11.R5"}),
    Variant("twin-handler-alias", SR, replace_once("            except Exception as e:\n                raise ExecutionError(e, state) from e", "            except Exception as exc:\n                cause = exc\n                raise ExecutionError(cause, state) from exc"), set()),
    Variant("sync-failed-node-outputs-popped-from-state", SS, replace_once("                if isinstance(e, Exception):\n                    raise ExecutionError(e, new_state) from e\n", "                if isinstance(e, Exception):\n                    for failed_name in node.outputs:\n                        new_state.values.pop(failed_name, None)\n                    raise ExecutionError(e, new_state) from e\n"), {"C11.R3"}),
    Variant("async-break-at-first-failure", AS, replace_once("            if first_error is None:\n                first_error = result\n            continue\n", "            first_error = result\n            break\n"), {"C11.R3"}),
    Variant("twin-async-errors-collected-in-list", AS, chain(replace_once("    first_error: BaseException | None = None\n", "    errors: list[BaseException] = []\n"), replace_once("            if first_error is None:\n                first_error = result\n            continue\n", "            errors.append(result)\n            continue\n"), replace_once("    if first_error is not None:\n", "    first_error = errors[0] if errors else None\n    if first_error is not None:\n")), set()),
]

"""C20 Visualisation shows exactly the graph's structure in every expansion state."""

from __future__ import annotations

import ast

from sa.cfg import all_paths_pass, dominators, reachable, reaches, specialize
from sa.db import AnalysisError, FuncInfo, ancestors, bind_args, dotted, src, walk_local
from sa.model import contains, enclosing
from sa.variants import Variant, replace_once, sub_first, sub_once

from .common import call_names, enclosing_facts, vars_from_call

ID = "C20"
EXPLANATION = (
    "Decides properties of the generator code that hold for every graph and expansion state because they are about its shape, not about one "
    "rendered diagram: (R1) a value derived from the consumers relation that becomes an edge endpoint is reached by iteration, never by a "
    "constant subscript (every consumer gets its edge), in both renderers; (R2) the id templates of synthetic nodes (input_, input_group_, data_, "
    "__end__) used as edge endpoints equal those the node builders declare, for the interactive view and for Mermaid; (R3) node and edge "
    "pre-computation enumerate the same expansion states and build their state keys from the same templates, and the initial-state look-up uses "
    "that template; (R4) flattened ids are 'parent/name' built recursively, each nested node is added once, recursion descends only into nested "
    "graphs with the node's own id as parent; (R5) scope discipline — selecting nodes inside an expanded container by a parent-scope value name "
    "(no rename map exists in the flat graph) is reported; (R6) every loop that emits edges while iterating all flat nodes/edges checks the "
    "visibility of the iterated endpoint before emitting; (R7) a producer resolved through the 'deepest producer' map is mapped to its nearest "
    "visible representative instead of being dropped when it sits inside a collapsed inner container. (R8) containment is decided by the parent relation: no function that receives the flat graph takes an identifier apart or compares identifiers by prefix (only the separator-terminated form '<ancestor>/' is accepted), and is_descendant_of returns True only after a parent-chain element compared equal to the ancestor while climbing. R1 also covers the values an edge carries: an endpoint resolver never receives one picked element of the edge's value list (every value is resolved on its own). R4 also requires the name -> id lookup used to translate a nested graph's edges to be built per container (names are unique per graph only)."
    " R8 also requires that 'consumed outside its container' ranges over the whole flat graph, a consumer counting unless is_descendant_of places it inside the container (not only the container's siblings)."
    " R3 also requires that the depth-to-expansion mapping consumes one unit of depth per nesting level; R6 that every node id a scope function returns as an edge endpoint was itself tested for visibility."
    ' R8 also requires that a visible consumer is dropped from the parameter-to-consumer map only in favour of one of its own descendants (is_descendant_of(<other>, <this>)), never by comparing nesting depths across unrelated branches.'
)
NOT_DECIDED = "Faithfulness of the drawn graph as a relation between computed data (that each dependency is drawn and nothing else); layout, styling and the JavaScript front end."

VIZ = "hypergraph.viz"
EDGE_MODS = ("hypergraph.viz.renderer.edges", "hypergraph.viz.mermaid")


def _skeleton(e: ast.AST) -> str | None:
    if isinstance(e, ast.Constant) and isinstance(e.value, str):
        return e.value
    if isinstance(e, ast.JoinedStr):
        out = ""
        for v in e.values:
            out += v.value if isinstance(v, ast.Constant) else "{}"
        return out
    return None


def _name_defs(db, f: FuncInfo, name: str) -> list[ast.AST]:
    out = []
    for d in db.local_defs(f).get(name, []):
        v = getattr(d, "value", None)
        if v is not None:
            out.append(v)
    return out


def _skeletons_of(db, f: FuncInfo, e: ast.AST, depth: int = 0) -> set[str]:
    s = _skeleton(e)
    if s is not None:
        return {s}
    if isinstance(e, ast.IfExp):
        return _skeletons_of(db, f, e.body, depth) | _skeletons_of(db, f, e.orelse, depth)
    if isinstance(e, ast.Name) and depth < 2:
        out = set()
        for v in _name_defs(db, f, e.id):
            out |= _skeletons_of(db, f, v, depth + 1)
        return out
    return set()


def _synthetic(s: str) -> bool:
    """An id built from a template (anything but a bare node id placeholder)."""
    return s.replace("{}", "") != "" 


def run(ctx) -> None:
    db, rep = ctx.db, ctx.rep
    rep.rule("C20.R1", "consumers become edge endpoints by iteration, never by constant subscript", floor=2)
    rep.rule("C20.R2", "synthetic node ids used by edges equal those the node builders declare", floor=4)
    rep.rule("C20.R3", "node and edge pre-computation agree on states and state keys", floor=3)
    rep.rule("C20.R4", "flattening: hierarchical ids, one entry per nested node, parent links", floor=3)
    rep.rule("C20.R5", "scope discipline: no selection of inner nodes by parent-scope value names", floor=2)
    rep.rule("C20.R6", "edge-emitting loops check endpoint visibility before emitting", floor=6)
    rep.rule("C20.R7", "deepest-producer re-routing uses the nearest visible representative", floor=3)
    rep.rule("C20.R8", "containment is decided by the parent relation: ids are opaque to every function that receives the flat graph", floor=20)

    edge_funcs = [f for f in db.all_funcs() if f.module.name in EDGE_MODS]

    # ---- R1 / R5 ------------------------------------------------------------------
    n_cons = 0
    for f in edge_funcs:
        # names derived from the consumers relation
        derived: set[str] = set()
        for _ in range(3):
            for n in walk_local(f.node):
                if isinstance(n, ast.Assign) and len(n.targets) == 1 and isinstance(n.targets[0], ast.Name):
                    v = n.value
                    t = src(v)
                    base = isinstance(v, ast.Call) and isinstance(v.func, ast.Attribute) and v.func.attr == "get" and "param_to_consumer" in src(v.func.value)
                    base = base or (isinstance(v, ast.Subscript) and "param_to_consumer" in src(v.value))
                    via = isinstance(v, (ast.ListComp,)) and isinstance(v.generators[0].iter, ast.Name) and v.generators[0].iter.id in derived
                    alias = isinstance(v, ast.Name) and v.id in derived
                    if base or via or alias:
                        derived.add(n.targets[0].id)
        if not derived:
            continue
        n_cons += 1
        bad = [n for n in walk_local(f.node) if isinstance(n, ast.Subscript) and isinstance(n.ctx, ast.Load) and isinstance(n.value, ast.Name) and n.value.id in derived and isinstance(n.slice, ast.Constant)]
        rep.add("C20.R1", f"{f.qname}", not bad, f"{f.module.rel}:{bad[0].lineno if bad else f.lineno}", f"consumer lists {sorted(derived)} are only iterated" if not bad else f"'{src(bad[0])}' picks one consumer: when a value entering an expanded container is consumed by several inner nodes only the first gets an edge")
        # R5: cross-scope selection by name
        for n in walk_local(f.node):
            if isinstance(n, ast.ListComp) and isinstance(n.generators[0].iter, ast.Name) and n.generators[0].iter.id in derived and any("is_descendant_of" in src(i) for i in n.generators[0].ifs):
                rep.bad("C20.R5", f"{f.qname}:internal-consumers-by-outer-name", f"{f.module.rel}:{n.lineno}", "inner nodes of an expanded container are selected by comparing the parent-scope value name with inner input names; the flat graph carries no rename map, so under wrapper.with_inputs(u='v') the edge goes to the wrong inner node (or none)")
    if n_cons < 2:
        raise AnalysisError(f"only {n_cons} edge functions use the consumers relation")
    # the same for the values an edge carries: endpoints are resolved per value, never from one picked value
    RESOLVERS = {"_resolve_data_source", "_resolve_data_targets", "find_internal_producer_for_output", "nearest_visible", "build_output_to_producer_map"}
    n_vals = 0
    for f in edge_funcs:
        vnames: set[str] = set()
        for _ in range(3):
            for n in walk_local(f.node):
                if isinstance(n, ast.Assign) and len(n.targets) == 1 and isinstance(n.targets[0], ast.Name):
                    v = n.value
                    base = isinstance(v, ast.Call) and isinstance(v.func, ast.Attribute) and v.func.attr == "get" and v.args and isinstance(v.args[0], ast.Constant) and v.args[0].value == "value_names"
                    base = base or (isinstance(v, ast.Subscript) and isinstance(v.slice, ast.Constant) and v.slice.value == "value_names")
                    via = isinstance(v, (ast.IfExp, ast.BoolOp)) and any(isinstance(x, ast.Name) and x.id in vnames for x in ast.walk(v)) and not any(isinstance(x, ast.Subscript) for x in ast.walk(v))
                    alias = isinstance(v, ast.Name) and v.id in vnames
                    if base or via or alias:
                        vnames.add(n.targets[0].id)
        if not vnames:
            continue
        n_vals += 1
        picked_exprs = [n for n in walk_local(f.node) if isinstance(n, ast.Subscript) and isinstance(n.ctx, ast.Load) and isinstance(n.value, ast.Name) and n.value.id in vnames and isinstance(n.slice, ast.Constant) and isinstance(n.slice.value, int)]
        picked_names = set()
        for n in walk_local(f.node):
            if isinstance(n, ast.Assign) and len(n.targets) == 1 and isinstance(n.targets[0], ast.Name) and any(x in picked_exprs for x in ast.walk(n.value)):
                # a name that is *only* ever bound from a picked value (loop variables over the list are bound by the loop, not by Assign)
                picked_names.add(n.targets[0].id)
        loop_bound = {x.id for n in walk_local(f.node) if isinstance(n, (ast.For, ast.comprehension)) for x in ast.walk(n.target) if isinstance(x, ast.Name)}
        bad = []
        for c in db.calls_in(f):
            nm = (dotted(c.func) or "").split(".")[-1]
            is_res = nm in RESOLVERS or (isinstance(c.func, ast.Attribute) and c.func.attr == "get" and ("output_to_producer" in src(c.func.value) or "param_to_consumer" in src(c.func.value)))
            if not is_res:
                continue
            for a in list(c.args) + [k.value for k in c.keywords]:
                if any(x in picked_exprs for x in ast.walk(a)):
                    bad.append(c)
                elif isinstance(a, ast.Name) and a.id in picked_names and a.id not in loop_bound:
                    bad.append(c)
        rep.add("C20.R1", f"{f.qname}:values", not bad, f"{f.module.rel}:{bad[0].lineno if bad else f.lineno}", f"edge endpoints are resolved per carried value ({sorted(vnames)} only iterated for resolution)" if not bad else f"'{src(bad[0])[:80]}' resolves an endpoint from one picked value of a multi-value edge: values produced by different inner nodes are all drawn from the first one's producer")
    if n_vals < 2:
        raise AnalysisError(f"only {n_vals} edge functions read the values an edge carries")
    fip = db.maybe_func("viz.renderer.scope.find_internal_producer_for_output")
    if fip is not None:
        fuzzy = [n for n in walk_local(fip.node) if isinstance(n, ast.BoolOp) and isinstance(n.op, ast.Or) and all(isinstance(v, ast.Compare) and isinstance(v.ops[0], ast.In) for v in n.values)]
        if fuzzy:
            rep.bad("C20.R5", f"{fip.qname}:fuzzy-output-match", f"{fip.module.rel}:{fuzzy[0].lineno}", "a renamed container output is matched to its inner producer by substring comparison (the code's own fallback for the missing rename map): unrelated names that contain each other match, renames that do not share a substring do not")

    # ---- R2 -------------------------------------------------------------------------
    nodes_mod = [f for f in db.all_funcs() if f.module.name == "hypergraph.viz.renderer.nodes"]
    declared: set[str] = set()
    for f in nodes_mod:
        for n in walk_local(f.node):
            if isinstance(n, ast.Dict):
                for k, v in zip(n.keys, n.values):
                    if isinstance(k, ast.Constant) and k.value == "id":
                        declared |= {s for s in _skeletons_of(db, f, v) if _synthetic(s)}
    if len(declared) < 4:
        raise AnalysisError(f"only {len(declared)} synthetic node id templates found in the node builders: {sorted(declared)}")
    edges_mod = [f for f in db.all_funcs() if f.module.name == "hypergraph.viz.renderer.edges"]
    for f in edges_mod:
        used: set[str] = set()
        for n in walk_local(f.node):
            if isinstance(n, ast.Dict):
                for k, v in zip(n.keys, n.values):
                    if isinstance(k, ast.Constant) and k.value in ("source", "target"):
                        used |= {s for s in _skeletons_of(db, f, v) if _synthetic(s)}
        if not used:
            continue
        bad = sorted(used - declared)
        rep.add("C20.R2", f"{f.qname}", not bad, f.loc(), f"endpoint templates {sorted(used)} are declared node ids" if not bad else f"edges use synthetic endpoint ids {bad} that no node builder declares (declared: {sorted(declared)}): the edge dangles")
    # mermaid: declared in to_mermaid, used in the edge renderers
    mm = [f for f in db.all_funcs() if f.module.name == "hypergraph.viz.mermaid"]
    tm = db.func("viz.mermaid.to_mermaid")
    m_decl = set()
    for n in walk_local(tm.node):
        if isinstance(n, ast.Assign) and isinstance(n.targets[0], ast.Name) and ("id" in n.targets[0].id):
            m_decl |= {s for s in _skeletons_of(db, tm, n.value) if _synthetic(s)}
    for f in mm:
        if f is tm or not f.name.startswith("_render"):
            continue
        used = set()
        for c in db.calls_in(f):
            if call_names(db, c, f) & {"_format_edge", "_format_ordering_edge"}:
                for a in c.args[:2]:
                    used |= {s for s in _skeletons_of(db, f, a) if _synthetic(s)}
        if not used:
            continue
        bad = sorted(used - m_decl)
        rep.add("C20.R2", f"{f.qname}", not bad, f.loc(), f"Mermaid edge endpoints {sorted(used)} are declared node ids" if not bad else f"Mermaid edges use ids {bad} that to_mermaid never declares (declared: {sorted(m_decl)})")
    # the two renderers use the same templates
    rep.add("C20.R2", "interactive-vs-mermaid", declared == m_decl, tm.loc(), f"both renderers use the id templates {sorted(declared)}" if declared == m_decl else f"id templates differ: interactive {sorted(declared)} vs Mermaid {sorted(m_decl)}")

    # DATA nodes and function->DATA edges must range over the same attribute of a node
    domains = {}
    for f in [x for x in db.all_funcs() if x.module.name.startswith(VIZ)]:
        for n in walk_local(f.node):
            if isinstance(n, ast.Assign) and isinstance(n.value, ast.JoinedStr) and (_skeleton(n.value) or "").startswith("data_{}_{}"):
                vals = [v.value for v in n.value.values if isinstance(v, ast.FormattedValue)]
                if len(vals) == 2 and isinstance(vals[1], ast.Name):
                    for a in ancestors(n):
                        if isinstance(a, ast.For) and isinstance(a.target, ast.Name) and a.target.id == vals[1].id:
                            k_ = len([q for q in domains if q.startswith(f.qname + "#")])
                            it_ = a.iter
                            key = None
                            if isinstance(it_, ast.Call) and isinstance(it_.func, ast.Attribute) and it_.func.attr == "get" and it_.args and isinstance(it_.args[0], ast.Constant):
                                key = f"<node attrs>.get({it_.args[0].value!r})"
                            elif isinstance(it_, ast.Subscript) and isinstance(it_.slice, ast.Constant):
                                key = f"<node attrs>.get({it_.slice.value!r})"
                            domains[f"{f.qname}#{k_}"] = (key or src(it_), f"{f.module.rel}:{a.lineno}")
    per_node = {q: d for q, d in domains.items() if d[0].startswith("<node attrs>")}
    if len(per_node) < 3:
        raise AnalysisError(f"only {len(per_node)} data-node id builders that iterate a node attribute found")
    kinds = {d[0] for d in per_node.values()}
    for q, d in sorted(per_node.items()):
        ok = len(kinds) == 1
        rep.add("C20.R2", f"{q}:data-node-domain", ok, d[1], f"DATA ids range over {d[0]} in every builder" if ok else f"this builder ranges over {d[0]} while others range over {sorted(kinds - {d[0]})}: edges to DATA nodes that are never declared (or declared DATA nodes without edge)")

    # ---- R3 -------------------------------------------------------------------------
    pe = db.func("viz.renderer.precompute.precompute_all_edges")
    pn = db.func("viz.renderer.precompute.precompute_all_nodes")

    def key_templates(f: FuncInfo) -> set[str]:
        out = set()
        for n in walk_local(f.node):
            if isinstance(n, ast.JoinedStr) and "sep:" in (_skeleton(n) or ""):
                out.add(_skeleton(n))
            if isinstance(n, ast.Dict):
                for k in n.keys:
                    s = _skeleton(k) if k is not None else None
                    if s and "sep:" in s:
                        out.add(s)
        return out

    ke, kn = key_templates(pe), key_templates(pn)
    rep.add("C20.R3", "state-key-templates", ke == kn and len(ke) >= 4, pe.loc(), f"nodes and edges are keyed by the same templates {sorted(ke)}" if ke == kn and len(ke) >= 4 else f"state keys differ: edges {sorted(ke)} vs nodes {sorted(kn)} (a state would have nodes but no edges)")

    def enum_call(f: FuncInfo) -> str:
        for c in db.calls_in(f):
            if "enumerate_valid_expansion_states" in call_names(db, c, f) and len(c.args) == 2 and src(c.args[0]) == "flat_graph" and isinstance(c.args[1], ast.Name):
                # second argument: the list of expandable nodes of the same flat graph
                ds = [d for d in db.local_defs(f).get(c.args[1].id, []) if isinstance(d, ast.Assign)]
                if ds and all(src(d.value) == "get_expandable_nodes(flat_graph)" for d in ds):
                    return "enumerate_valid_expansion_states(flat_graph, get_expandable_nodes(flat_graph))"
        return ""

    rep.add("C20.R3", "state-enumeration", enum_call(pe) == enum_call(pn) and enum_call(pe) != "", pe.loc(), "both enumerate enumerate_valid_expansion_states(flat_graph, get_expandable_nodes(flat_graph))" if enum_call(pe) == enum_call(pn) and enum_call(pe) else "nodes and edges are pre-computed for different sets of states")
    rg = db.func("viz.renderer.render_graph")
    init_keys = {_skeleton(n) for n in walk_local(rg.node) if isinstance(n, ast.JoinedStr) and "|" in (_skeleton(n) or "")} | {_skeleton(n) for n in walk_local(rg.node) if isinstance(n, ast.Constant) and isinstance(n.value, str) and n.value.startswith("sep:")}
    ok = "{}|{}" in init_keys and {"sep:0", "sep:1"} <= init_keys
    rep.add("C20.R3", "initial-state-key", ok, rg.loc(), "initial state is looked up as '<state>|sep:n' / 'sep:n', the pre-computation's key format" if ok else "the initial-state key is not built in the pre-computation's key format")

    # ---- R4 -------------------------------------------------------------------------
    bh = db.func("graph.core._build_hierarchical_id")
    sk = {_skeleton(n.value) for n in walk_local(bh.node) if isinstance(n, ast.Return) and _skeleton(n.value)}
    ok = "{}/{}" in sk and any(isinstance(n, ast.Return) and isinstance(n.value, ast.Name) and n.value.id == (bh.positional_params + ["node_name"])[0] for n in walk_local(bh.node))
    rep.add("C20.R4", f"{bh.qname}", ok, bh.loc(), "nested id = '<parent id>/<name>', root id = name" if ok else "hierarchical ids are not '<parent>/<name>' (collisions between equally named nested nodes)")
    fl = db.func("graph.core.Graph._flatten_nodes")
    adds = [c for c in db.calls_in(fl) if isinstance(c.func, ast.Attribute) and c.func.attr == "add_node"]
    recs = [c for c in db.calls_in(fl) if isinstance(c.func, ast.Attribute) and c.func.attr == "_flatten_nodes"]
    ok = len(adds) == 1 and len(recs) == 1 and isinstance(adds[0].args[0], ast.Name)
    if ok:
        idvar = adds[0].args[0].id
        fl_pos = [p_ for p_ in fl.positional_params if p_ != "self"]
        PG, PP = (fl_pos + ["G", "nodes", "parent"])[0], (fl_pos + ["G", "nodes", "parent"])[2]  # graph being filled, parent id (own names of the private method)
        kw = bind_args(recs[0], fl) or {}
        ok = isinstance(kw.get(PP), ast.Name) and kw[PP].id == idvar
        g = enclosing(recs[0], (ast.If,))
        ok = ok and g is not None and "is not None" in src(g.test)
        from sa.pattern import solve

        parent_attr = bool(solve([f"_A['parent'] = {PP}", f"{PG}.add_node(_ID, **_A)"], fl.node))
        ok = ok and parent_attr
    rep.add("C20.R4", f"{fl.qname}", ok, fl.loc(), "each node is added once under its hierarchical id with its parent link; recursion descends into nested graphs with that id as parent" if ok else "flattening does not add each nested node once with id/parent link, or recurses with the wrong parent")
    tf = db.func("graph.core.Graph.to_flat_graph")
    fl_pp = ([p_ for p_ in fl.positional_params if p_ != "self"] + ["G", "nodes", "parent"])[2]
    ok = any("_flatten_nodes" in call_names(db, c, tf) and isinstance((bind_args(c, fl) or {}).get(fl_pp), ast.Constant) and bind_args(c, fl)[fl_pp].value is None for c in db.calls_in(tf)) and any("_flatten_edges" in call_names(db, c, tf) for c in db.calls_in(tf))
    # edges of a (nested) graph are translated with a lookup of *that* scope: names are unique per graph only
    gcls = db.cls("graph.core.Graph")
    lk = gcls.methods.get("_build_name_to_id_lookup")
    okl, whyl = False, "the name -> id lookup builder was not found"
    if lk is not None:
        scope_params = [p_ for p_ in lk.param_names if p_ not in ("self", "G")]
        filt = False
        for x in walk_local(lk.node):
            if isinstance(x, ast.Compare) and len(x.ops) == 1 and isinstance(x.ops[0], ast.Eq):
                sides = [src(x.left), src(x.comparators[0])]
                if any("'parent'" in s_.replace('"', "'") for s_ in sides) and any(s_ in scope_params for s_ in sides):
                    filt = True
        okl = bool(scope_params) and filt
        whyl = "the lookup holds the children of one container only (filtered by the parent link)" if okl else "the name -> id lookup is not restricted to one container's children: equally named nodes of different scopes overwrite each other, edges of a nested graph are attached to a root node of the same name"
        if okl:
            ane = gcls.methods.get("_add_nested_edges")
            per_scope = ane is not None and any(lk.name in call_names(db, c_, ane) and len(c_.args) >= 2 and isinstance(c_.args[1], ast.Name) and c_.args[1].id in ane.param_names for c_ in db.calls_in(ane))
            if not per_scope:
                okl, whyl = False, "nested edges are not translated with a lookup built for their own container"
    rep.add("C20.R4", f"{gcls.qname}._build_name_to_id_lookup:per-scope", okl, lk.loc() if lk else gcls.loc(), whyl)
    # every container is visited: for a node that has a nested graph, each path through the edge flattener passes the
    # loop that adds its edges and the loop that recurses into its children (a container without edges of its own can
    # still hold containers that have some)
    ane = gcls.methods.get("_add_nested_edges")
    if ane is None:
        raise AnalysisError("Graph._add_nested_edges not found")
    acfg = ctx.cfg(ane)
    guard = {}
    for t in acfg.nodes:
        if t.kind == "test" and t.ast is not None and isinstance(t.ast, ast.Compare) and isinstance(t.ast.ops[0], (ast.Is, ast.IsNot)) and isinstance(t.ast.comparators[0], ast.Constant) and t.ast.comparators[0].value is None and isinstance(t.ast.left, ast.Name):
            d_ = db.local_defs(ane).get(t.ast.left.id, [])
            if any("nested_graph" in src(getattr(x, "value", None) or ast.Constant("")) for x in d_):
                guard[src(t.ast)] = isinstance(t.ast.ops[0], ast.IsNot)
    rec_loops = [n for n in acfg.nodes if n.kind == "for" and any(isinstance(c, ast.Call) and isinstance(c.func, ast.Attribute) and c.func.attr == ane.name for c in ast.walk(n.ast))]
    edge_loops = [n for n in acfg.nodes if n.kind == "for" and any(isinstance(c, ast.Call) and isinstance(c.func, ast.Attribute) and c.func.attr == "add_edge" for c in ast.walk(n.ast))]
    efa = specialize(guard, acfg)
    okv = bool(guard) and bool(rec_loops) and bool(edge_loops) and all_paths_pass(acfg.entry, acfg.exit_return, rec_loops, efa) and all_paths_pass(acfg.entry, acfg.exit_return, edge_loops, efa)
    early = next((n for n in acfg.nodes if n.kind == "stmt" and isinstance(n.ast, ast.Return) and n.lineno < (rec_loops[0].lineno if rec_loops else 10**9) and reaches(acfg.entry, n, efa)), None)
    rep.add("C20.R4", f"{ane.qname}:every-container-visited", okv, f"{ane.module.rel}:{(early or ane.node).lineno}", "for every container the edges are added and the children are visited on all paths" if okv else f"the edge flattener can return (line {early.lineno if early else '?'}) before it has recursed into the container's children: a container with no edges between its own direct children hides the edges of every graph nested inside it — those dependencies are never drawn, in any expansion state")
    rep.add("C20.R4", f"{tf.qname}", ok, tf.loc(), "flat graph = nodes flattened from the root (parent None) + flattened edges" if ok else "to_flat_graph does not flatten nodes from the root and then edges")

    # ---- R6 -------------------------------------------------------------------------
    n_loops = 0
    for f in edge_funcs:
        cfg = None
        for lp in [n for n in walk_local(f.node) if isinstance(n, ast.For)]:
            it = src(lp.iter)
            kind = "nodes" if it.endswith(".nodes(data=True)") else ("edges" if it.endswith(".edges(data=True)") else None)
            if kind is None or "flat_graph" not in it:
                continue
            emits = [c for c in ast.walk(lp) if isinstance(c, ast.Call) and isinstance(c.func, ast.Attribute) and c.func.attr == "append" and isinstance(c.func.value, ast.Name) and c.func.value.id in ("edges", "lines")]
            if not emits:
                continue
            n_loops += 1
            var = lp.target.elts[0].id if isinstance(lp.target, ast.Tuple) and isinstance(lp.target.elts[0], ast.Name) else None
            cfg = cfg or ctx.cfg(f)
            dom = dominators(cfg.entry)
            tests = []
            for n in cfg.nodes:
                if n.kind == "test" and n.ast is not None and contains(lp, n.ast):
                    for c in ast.walk(n.ast):
                        if isinstance(c, ast.Call) and call_names(db, c, f) & {"is_node_visible", "is_data_node_visible"} and c.args and isinstance(c.args[0], ast.Name) and c.args[0].id == var:
                            tests.append(n)
            # a resolver taking the loop variable whose None result is skipped also counts
            resolved = set()
            for n in walk_local(lp):
                if isinstance(n, ast.Assign) and isinstance(n.value, ast.Call) and any(isinstance(a, ast.Name) and a.id == var for a in n.value.args) and any(nm.startswith("_resolve_") for nm in call_names(db, n.value, f)) and isinstance(n.targets[0], ast.Name):
                    resolved.add(n.targets[0].id)
            for n in cfg.nodes:
                if n.kind == "test" and n.ast is not None and contains(lp, n.ast) and any(isinstance(x, ast.Name) and x.id in resolved for x in ast.walk(n.ast)) and " is None" in src(n.ast):
                    tests.append(n)
            ok = True
            for e in emits:
                en = cfg.node_containing(e)
                if not en:
                    continue
                if not any(t in dom.get(en[0], set()) for t in tests):
                    ok = False
                    where = e.lineno
            rep.add("C20.R6", f"{f.qname}:for-{kind}@{_li(f, lp)}", ok, f"{f.module.rel}:{lp.lineno}", f"every emission in the loop over all flat {kind} is dominated by a visibility check of '{var}'" if ok else f"an edge is emitted at line {where} without checking that '{var}' is visible in this expansion state: nodes inside collapsed containers become edge endpoints")
    if n_loops < 6:
        raise AnalysisError(f"only {n_loops} edge-emitting loops over the flat graph found")

    # ---- R7 -------------------------------------------------------------------------
    n7 = 0
    for f in edge_funcs:
        deep_vars = set()
        for n in walk_local(f.node):
            if isinstance(n, ast.Assign) and isinstance(n.value, ast.Call) and "build_output_to_producer_map" in call_names(db, n.value, f) and any(k.arg == "use_deepest" and isinstance(k.value, ast.Constant) and k.value.value is True for k in n.value.keywords):
                deep_vars |= {t.id for t in n.targets if isinstance(t, ast.Name)}
        # functions receiving the map as a parameter: the parameter bound, at a call in another edge function, to a
        # variable that holds the deepest-producer map there
        for g_ in edge_funcs:
            g_deep = {t.id for n in walk_local(g_.node) if isinstance(n, ast.Assign) and isinstance(n.value, ast.Call) and "build_output_to_producer_map" in call_names(db, n.value, g_) and any(k.arg == "use_deepest" and isinstance(k.value, ast.Constant) and k.value.value is True for k in n.value.keywords) for t in n.targets if isinstance(t, ast.Name)}
            if not g_deep:
                continue
            for c_ in db.calls_in(g_):
                if any(cal.func is f for cal in db.resolve_call(c_, g_)):
                    for pn, a_ in (bind_args(c_, f) or {}).items():
                        if isinstance(a_, ast.Name) and a_.id in g_deep:
                            deep_vars.add(pn)
        for c in db.calls_in(f):
            if isinstance(c.func, ast.Attribute) and c.func.attr == "get" and isinstance(c.func.value, ast.Name) and c.func.value.id in deep_vars:
                n7 += 1
                p = getattr(c, "_parent", None)
                ok = isinstance(p, ast.Call) and "nearest_visible" in call_names(db, p, f)
                if not ok and isinstance(p, ast.Assign) and isinstance(p.targets[0], ast.Name):
                    nm = p.targets[0].id
                    ok = any(isinstance(x, ast.Assign) and isinstance(x.targets[0], ast.Name) and x.targets[0].id == nm and isinstance(x.value, ast.Call) and "nearest_visible" in call_names(db, x.value, f) and x.value.args and isinstance(x.value.args[0], ast.Name) and x.value.args[0].id == nm for x in walk_local(f.node))
                # the by-name map is global: its answer stands for the container's value only if it lies inside
                # that container (equally named outputs exist in other scopes)
                st_ = c
                while st_ is not None and not isinstance(st_, ast.stmt):
                    st_ = getattr(st_, "_parent", None)
                pv = st_.targets[0].id if isinstance(st_, ast.Assign) and isinstance(st_.targets[0], ast.Name) else None
                scoped = pv is not None and any(isinstance(x, ast.Call) and "is_descendant_of" in call_names(db, x, f) and x.args and isinstance(x.args[0], ast.Name) and x.args[0].id == pv for x in walk_local(f.node))
                rep.add("C20.R7", f"{f.qname}:deepest-producer-in-scope", scoped, f"{f.module.rel}:{c.lineno}", "the producer found by name is used only if it is a descendant of the expanded container" if scoped else "the producer found in the global by-name map is used without checking that it lies inside the expanded container: an equally named output of another container is taken for it and the edge starts at a node that is not declared in that state")
                rep.add("C20.R7", f"{f.qname}:deepest-producer", ok, f"{f.module.rel}:{c.lineno}", "the deepest producer is mapped to its nearest visible representative" if ok else "the deepest producer is used as it is: when it sits inside a collapsed inner container the edge is dropped instead of being drawn from that container")
    if n7 < 3:
        raise AnalysisError(f"only {n7} deepest-producer look-ups found")
    # the consumer side: a consumer map built 'deepest first' yields nodes that may sit inside a collapsed inner
    # container; such a map may only be used where every consumer taken from it is mapped to its nearest visible
    # representative (otherwise the per-target visibility check silently drops the edge)
    n7c = 0
    for f in edge_funcs:
        for n in walk_local(f.node):
            if isinstance(n, ast.Assign) and isinstance(n.value, ast.Call) and "build_param_to_consumer_map" in call_names(db, n.value, f):
                n7c += 1
                deepest = any(k.arg == "use_deepest" and not (isinstance(k.value, ast.Constant) and k.value.value is False) for k in n.value.keywords) or len(n.value.args) > 2
                ok = True
                if deepest:
                    names = {t.id for t in n.targets if isinstance(t, ast.Name)}
                    # lists taken from the map, and the variables that iterate them
                    lists_ = set(names)
                    for _ in range(3):
                        for m_ in walk_local(f.node):
                            if isinstance(m_, ast.Assign) and len(m_.targets) == 1 and isinstance(m_.targets[0], ast.Name) and any(isinstance(x, ast.Name) and x.id in lists_ for x in ast.walk(m_.value)):
                                lists_.add(m_.targets[0].id)
                    elems = set()
                    for m_ in walk_local(f.node):
                        if isinstance(m_, (ast.For, ast.comprehension)) and any(isinstance(x, ast.Name) and x.id in lists_ for x in ast.walk(m_.iter)) and isinstance(m_.target, ast.Name):
                            elems.add(m_.target.id)
                    mapped = bool(elems) and all(any(isinstance(c, ast.Call) and "nearest_visible" in call_names(db, c, f) and c.args and isinstance(c.args[0], ast.Name) and c.args[0].id == e_ for c in walk_local(f.node)) for e_ in elems)
                    ok = mapped and bool(names)
                rep.add("C20.R7", f"{f.qname}:consumer-map", ok, f"{f.module.rel}:{n.lineno}", "consumers are looked up among visible nodes (or mapped to their nearest visible representative)" if ok else "consumers are resolved 'deepest first' without mapping them to a visible representative: a consumer inside a collapsed inner container is dropped by the visibility check and the dependency has no edge in that state")
    if n7c < 2:
        raise AnalysisError(f"only {n7c} consumer-map constructions found")
    nv = db.maybe_func("viz._common.nearest_visible")
    ok = nv is not None and any(isinstance(n, ast.While) for n in walk_local(nv.node)) and "is_node_visible" in src(nv.node) and "parent" in src(nv.node)
    rep.add("C20.R7", "nearest_visible:climbs-parents", ok, nv.loc() if nv else "src/hypergraph/viz/_common.py:1", "nearest_visible climbs the parent chain until a visible node is found" if ok else "nearest_visible does not climb the parent chain")

    # ---- R8 -------------------------------------------------------------------------
    STR_SURGERY = {"startswith", "endswith", "split", "rsplit", "partition", "rpartition", "find", "rfind", "index", "removeprefix", "removesuffix"}
    n8 = 0
    for f in db.all_funcs():
        if not f.module.name.startswith("hypergraph.viz") or f.module.name.endswith((".debug", ".widget")) or ".html" in f.module.name:
            continue
        g = f
        takes_graph = False
        while g is not None:
            takes_graph = takes_graph or any(p in ("flat_graph", "G") for p in g.param_names)
            g = g.parent
        if not takes_graph:
            continue
        n8 += 1
        bad = []
        for c in walk_local(f.node):
            if isinstance(c, ast.Call) and isinstance(c.func, ast.Attribute) and c.func.attr in STR_SURGERY:
                t = db.type_of(c.func.value, f)
                if t is not None and t.classes():
                    continue  # a package object's own method
                if isinstance(c.func.value, ast.Constant) or (c.func.attr == "index" and not isinstance(c.func.value, ast.Name)):
                    continue
                if c.func.attr == "index":
                    continue  # list.index
                if c.func.attr == "startswith" and len(c.args) == 1 and _sep_terminated(c.args[0]):
                    continue  # '<ancestor>/' is a proper hierarchical prefix (names are identifiers, ids are parent/name)
                bad.append(c)
        ok = not bad
        rep.add("C20.R8", f"{f.qname}:ids-opaque", ok, f"{f.module.rel}:{(bad[0].lineno if bad else f.node.lineno)}", "no prefix / split test on identifiers" if ok else f"'{src(bad[0])[:70]}': an identifier is taken apart or compared by prefix; hierarchical ids of unrelated nodes can share a prefix ('load' / 'load_meta'), so containment must come from the parent links")
    ido = db.func("viz._common.is_descendant_of")
    icfg = ctx.cfg(ido)
    anc = (ido.param_names + ["", ""])[1]
    pvars = set(vars_from_call(db, ido, {"get_parent"}))
    okr = True
    prefix_form = False
    whyr = "True is returned only after a parent-chain element compared equal to the ancestor"
    rets = [n for n in icfg.nodes if n.kind == "stmt" and isinstance(n.ast, ast.Return)]
    for r in rets:
        v = r.ast.value
        if isinstance(v, ast.Constant) and v.value is False:
            continue
        if isinstance(v, ast.Constant) and v.value is True:
            facts = enclosing_facts(r.ast)
            if any(pol and isinstance(a, ast.Compare) and len(a.ops) == 1 and isinstance(a.ops[0], ast.Eq) and {src(a.left), src(a.comparators[0])} & pvars and anc in {src(a.left), src(a.comparators[0])} for a, pol in facts):
                continue
            okr, whyr = False, "True is returned without an equality test between a parent and the ancestor"
        else:
            calls = [x for x in ast.walk(v)] if v is not None else []
            sw = [x for x in calls if isinstance(x, ast.Call)]
            if sw and all(isinstance(x.func, ast.Attribute) and x.func.attr == "startswith" and len(x.args) == 1 and _sep_terminated(x.args[0]) and anc in src(x.args[0]) for x in sw):
                prefix_form = True
                continue
            okr, whyr = False, f"returns '{src(v) if v is not None else None}': descent is not decided by walking the parent links"
    loops = [n for n in walk_local(ido.node) if isinstance(n, ast.While)]
    if okr and prefix_form and not any(isinstance(r.ast.value, ast.Constant) and r.ast.value.value is True for r in rets):
        whyr = "descent is decided by the separator-terminated hierarchical prefix '<ancestor>/'"
    elif okr and not (loops and pvars and any(isinstance(x, ast.Assign) and isinstance(x.value, ast.Name) and x.value.id in pvars for lp in loops for x in ast.walk(lp))):
        okr, whyr = False, "the parent chain is not climbed (no loop advancing to the parent)"
    rep.add("C20.R8", f"{ido.qname}:parent-chain", okr, ido.loc(), whyr)
    # 'consumed outside its container' ranges over the whole flat graph: a consumer counts unless the parent chain
    # places it inside the container — not only the container's siblings (a value produced two levels down and
    # consumed at the root has no sibling consumer, and still must get its DATA node when the inner container is collapsed)
    ext = db.func("viz.renderer.scope.is_output_externally_consumed")
    itervars: set[str] = set()
    for x in walk_local(ext.node):
        gens = x.generators if isinstance(x, (ast.GeneratorExp, ast.ListComp, ast.SetComp)) else [x] if isinstance(x, ast.For) else []
        for g_ in gens:
            if isinstance(g_.iter, ast.Call) and src(g_.iter.func).endswith(".nodes") and isinstance(g_.target, ast.Tuple) and isinstance(g_.target.elts[0], ast.Name):
                itervars.add(g_.target.elts[0].id)
    desc_calls = [c for c in db.calls_in(ext) if "is_descendant_of" in call_names(db, c, ext) and c.args and isinstance(c.args[0], ast.Name) and c.args[0].id in itervars]
    negated = [c for c in desc_calls if isinstance(getattr(c, "_parent", None), ast.UnaryOp) and isinstance(c._parent.op, ast.Not) or any(a is c and not pol for a, pol in enclosing_facts(c))]
    parent_eq = [x for x in walk_local(ext.node) if isinstance(x, ast.Compare) and len(x.ops) == 1 and isinstance(x.ops[0], ast.Eq) and any("parent" in src(y) for y in [x.left, x.comparators[0]]) and any(isinstance(y, ast.Call) and isinstance(y.func, ast.Attribute) and y.func.attr == "get" for y in [x.left, x.comparators[0]])]
    oke = bool(itervars) and bool(negated) and not parent_eq
    rep.add("C20.R8", f"{ext.qname}:outside-by-parent-chain", oke, ext.loc(), "a consumer anywhere in the flat graph counts unless is_descendant_of places it inside the container" if oke else ("external consumers are selected by comparing a node's parent with one scope: only siblings of the container count, a consumer further out is missed and the value loses its DATA node while edges are still routed through it" if parent_eq else "external consumers are not decided by 'not is_descendant_of(<node>, <container>)' over all nodes of the flat graph"))
    # node side, edge side and Mermaid group the external inputs the same way (by consumer set and bound status): every
    # caller of the grouping function passes the bound parameters of the input specification
    n_big = 0
    for f in db.funcs_in("viz"):
        for c in db.calls_in(f):
            if "build_input_groups" not in call_names(db, c, f) or len(c.args) < 3:
                continue
            n_big += 1
            a3 = c.args[2]
            txt = src(a3)
            if isinstance(a3, ast.Name):
                txt += " " + " ".join(src(getattr(d_, "value", None) or ast.Constant("")) for d_ in db.local_defs(f).get(a3.id, []))
                if a3.id in f.param_names:
                    txt += " bound"
            okb = "bound" in txt
            rep.add("C20.R2", f"{f.qname}:input-groups-by-bound-status", okb, f"{f.module.rel}:{c.lineno}", "input groups are built from the specification's bound parameters" if okb else f"input groups are built with '{src(a3)}' instead of the bound parameters: this side merges a bound and an unbound input that share a consumer set into one group while the other side declares two — edges start at an undeclared node 'input_group_...' and the declared input nodes have no edges")
    if n_big < 3:
        raise AnalysisError(f"only {n_big} callers of build_input_groups found")
    # a drawn edge is skipped as a duplicate only when the very same edge (same two endpoints) was drawn before: the
    # de-duplication key names the endpoints that are handed to the edge formatter (a coarser key — the producer instead
    # of the value's DATA node — drops every further value between the same two nodes)
    n_keys = 0
    for f in db.funcs_in("viz.mermaid"):
        keys = [x for x in walk_local(f.node) if isinstance(x, ast.Assign) and isinstance(x.value, ast.Tuple) and len(x.targets) == 1 and isinstance(x.targets[0], ast.Name) and any(isinstance(c_, ast.Compare) and isinstance(c_.ops[0], (ast.In, ast.NotIn)) and isinstance(c_.left, ast.Name) and c_.left.id == x.targets[0].id for c_ in walk_local(f.node))]
        fmts = [c for c in walk_local(f.node) if isinstance(c, ast.Call) and (dotted(c.func) or "").startswith("_format_") and len(c.args) >= 2]
        for k in keys:
            later = sorted([c for c in fmts if c.lineno >= k.lineno], key=lambda c: c.lineno)
            nxt = [k2 for k2 in keys if k2.lineno > k.lineno]
            call = next((c for c in later if not nxt or c.lineno <= min(k2.lineno for k2 in nxt)), None)
            if call is None:
                continue
            n_keys += 1

            def strip_(e):
                return src(e.args[0]) if isinstance(e, ast.Call) and (dotted(e.func) or "") == "_sanitize_id" and e.args else src(e)

            ends = [strip_(e) for e in k.value.elts[:2]]
            drawn = [src(a) for a in call.args[:2]]
            okk = ends == drawn
            rep.add("C20.R1", f"{f.qname}:dedup-key-names-the-drawn-edge@{_ri(f, k) if False else n_keys}", okk, f"{f.module.rel}:{k.lineno}", "the duplicate test is keyed by the endpoints of the edge that is drawn" if okk else f"edges are de-duplicated by ({', '.join(ends)}) but drawn between ({', '.join(drawn)}): once one value between two nodes is drawn every further value between them counts as a duplicate — its DATA node is declared and fed but has no edge to the consumer")
    if n_keys < 6:
        raise AnalysisError(f"only {n_keys} de-duplication keys found in the Mermaid renderer")
    # a visible consumer is dropped from the consumer map only in favour of one of its own descendants (the container is
    # represented by what is visible inside it) — never because some unrelated consumer happens to sit deeper
    pcm = db.func("viz._common.build_param_to_consumer_map")
    okc, whyc = False, "the step that drops containers with deeper visible consumers was not found"
    for lp in [n for n in walk_local(pcm.node) if isinstance(n, ast.For) and isinstance(n.iter, ast.Call) and isinstance(n.iter.func, ast.Attribute) and n.iter.func.attr == "items" and isinstance(n.target, ast.Tuple) and len(n.target.elts) == 2 and all(isinstance(e, ast.Name) for e in n.target.elts)]:
        mapname, cv = src(lp.iter.func.value), lp.target.elts[1].id
        stores = [x for x in ast.walk(lp) if isinstance(x, ast.Assign) and isinstance(x.targets[0], ast.Subscript) and src(x.targets[0].value) == mapname]
        if not stores or any(isinstance(a, ast.If) and "primary" in src(a.test) for a in ancestors(lp)):
            continue
        over = set()
        for x in ast.walk(lp):
            gens = x.generators if isinstance(x, (ast.GeneratorExp, ast.ListComp, ast.SetComp)) else [x] if isinstance(x, ast.For) and x is not lp else []
            for g_ in gens:
                if isinstance(g_.iter, ast.Name) and g_.iter.id == cv and isinstance(g_.target, ast.Name):
                    over.add(g_.target.id)
        dcalls = [c for c in ast.walk(lp) if isinstance(c, ast.Call) and "is_descendant_of" in call_names(db, c, pcm) and len(c.args) >= 2 and all(isinstance(a, ast.Name) and a.id in over for a in c.args[:2]) and c.args[0].id != c.args[1].id]
        kept = {c.args[0].id for c in ast.walk(lp) if isinstance(c, ast.Call) and isinstance(c.func, ast.Attribute) and c.func.attr == "append" and c.args and isinstance(c.args[0], ast.Name)} | {x.elt.id for x in ast.walk(lp) if isinstance(x, ast.ListComp) and isinstance(x.elt, ast.Name) and isinstance(x.generators[0].iter, ast.Name) and x.generators[0].iter.id == cv}
        depth = [c for c in ast.walk(lp) if isinstance(c, ast.Call) and any("depth" in nm for nm in call_names(db, c, pcm) | {(dotted(c.func) or "")})]
        if depth:
            okc, whyc = False, f"'{src(depth[0])[:50]}' decides which visible consumers are dropped by nesting depth: a collapsed container is dropped as soon as an unrelated sibling branch has a deeper visible consumer of the same value (A expanded, A/B collapsed, A/C expanded) — the edge to A/B, the only visible representative of A/B's inner consumer, is never drawn"
        elif not dcalls:
            okc, whyc = False, "dropping a consumer is not decided by is_descendant_of(<other consumer>, <this consumer>) over the consumers of the value"
        elif not all(c.args[1].id in kept for c in dcalls):
            okc, whyc = False, f"'{src(dcalls[0])}' tests the wrong direction: the consumer that is kept or dropped must be the ancestor argument"
        else:
            okc, whyc = True, "a consumer is dropped only when another visible consumer of the value is its descendant"
        break
    rep.add("C20.R8", f"{pcm.qname}:dropped-only-for-own-descendant", okc, pcm.loc(), whyc)
    if n8 < 20:
        raise AnalysisError(f"only {n8} flat-graph functions found")
    # every node id a scope function hands back as a place to attach an edge was tested for visibility itself: a
    # container being expanded and on screen does not make each child visible (hide=True children are never declared)
    n_ep = 0
    for f in db.funcs_in("viz.renderer.scope"):
        if "expansion_state" not in f.param_names:
            continue
        ret_lists = {r.value.id for r in walk_local(f.node) if isinstance(r, ast.Return) and isinstance(r.value, ast.Name)}
        for c in db.calls_in(f):
            if not (isinstance(c.func, ast.Attribute) and c.func.attr == "append" and isinstance(c.func.value, ast.Name) and c.func.value.id in ret_lists and c.args and isinstance(c.args[0], ast.Name)):
                continue
            lp = next((a for a in ancestors(c) if isinstance(a, ast.For)), None)
            if lp is None or not any(isinstance(x, ast.Name) and x.id == c.args[0].id for x in ast.walk(lp.target)):
                continue  # not a node id taken from the iteration
            n_ep += 1
            v_ = c.args[0].id
            seen_vis = any(pol and isinstance(a, ast.Call) and "is_node_visible" in call_names(db, a, f) and a.args and isinstance(a.args[0], ast.Name) and a.args[0].id == v_ for a, pol in enclosing_facts(c))
            rep.add("C20.R6", f"{f.qname}:returned-node-visible:{v_}", seen_vis, f"{f.module.rel}:{c.lineno}", "a node is returned only after is_node_visible(<that node>) held" if seen_vis else f"'{v_}' is returned as an edge endpoint without having been tested for visibility itself (e.g. visibility decided once for the container): a hide=True child becomes the endpoint — the edge is dropped by the caller's re-check or drawn to a node that is not declared in that state")
    if n_ep < 1:
        raise AnalysisError("no scope function returning iterated node ids found")
    # depth -> expansion: a container at nesting level L is expanded iff depth > L.  Written as a comparison with the
    # counted ancestors, or recursively over the parent — then every step up consumes one unit of depth
    ine = db.func("viz._common.is_node_expanded")
    dpar = next((p_ for p_ in ine.param_names if "depth" in p_), None)
    if dpar is None:
        raise AnalysisError("is_node_expanded: depth parameter not found")
    selfcalls = [c for c in db.calls_in(ine) if any(cal.func is ine for cal in db.resolve_call(c, ine))]
    okd, whyd = True, "depth is compared with the container's counted nesting level"
    for c in selfcalls:
        a_ = (bind_args(c, ine) or {}).get(dpar)
        if not (isinstance(a_, ast.BinOp) and isinstance(a_.op, ast.Sub) and isinstance(a_.left, ast.Name) and a_.left.id == dpar and isinstance(a_.right, ast.Constant) and a_.right.value == 1):
            okd, whyd = False, f"the recursion over the parent passes '{src(a_) if a_ is not None else '?'}' as depth instead of {dpar} - 1: every container below the first level counts as level 1, so depth=2 expands all deeper levels (their inner nodes are declared and wired although that state shows them collapsed)"
        else:
            whyd = "each step up to the parent consumes one unit of depth"
    if not selfcalls:
        cmps = [x for x in walk_local(ine.node) if isinstance(x, ast.Compare) and any(isinstance(y, ast.Name) and y.id == dpar for y in [x.left] + list(x.comparators))]
        okd = bool(cmps)
        if not okd:
            whyd = "depth is not compared with the nesting level"
    rep.add("C20.R3", f"{ine.qname}:depth-per-level", okd, ine.loc(), whyd)


def _sep_terminated(a: ast.AST) -> bool:
    """``x + "/"`` or ``f"{x}/"``: a prefix that ends with the hierarchy separator."""
    if isinstance(a, ast.BinOp) and isinstance(a.op, ast.Add) and isinstance(a.right, ast.Constant) and a.right.value == "/":
        return True
    if isinstance(a, ast.JoinedStr) and a.values and isinstance(a.values[-1], ast.Constant) and str(a.values[-1].value).endswith("/"):
        return True
    return False


def _li(f: FuncInfo, lp: ast.For) -> int:
    ls = [n for n in walk_local(f.node) if isinstance(n, ast.For)]
    return ls.index(lp)


ED = "src/hypergraph/viz/renderer/edges.py"
MM = "src/hypergraph/viz/mermaid.py"
PC = "src/hypergraph/viz/renderer/precompute.py"
CORE = "src/hypergraph/graph/core.py"
VARIANTS = [
    Variant("nested-edges-return-before-recursion", CORE, replace_once("        # Build lookup for this container's children\n        child_lookup = self._build_name_to_id_lookup(G, parent_id)\n", "        if inner.nx_graph.number_of_edges() == 0:\n            return\n\n        # Build lookup for this container's children\n        child_lookup = self._build_name_to_id_lookup(G, parent_id)\n"), {"C20.R4"}),
    Variant("mermaid-source-from-first-value", MM, replace_once("        for value_name in values:\n            actual_source = _resolve_data_source(\n                source,\n                value_name,", "        for value_name in values:\n            actual_source = _resolve_data_source(\n                source,\n                values[0],"), {"C20.R1"}),
    Variant("descendant-by-prefix", "src/hypergraph/viz/_common.py", replace_once("    current = node_id\n    while current is not None:\n        parent = get_parent(current, flat_graph)\n        if parent == ancestor_id:\n            return True\n        current = parent\n    return False", "    return node_id != ancestor_id and node_id.startswith(ancestor_id)"), {"C20.R8"}),
    Variant("twin-descendant-by-separator-prefix", "src/hypergraph/viz/_common.py", replace_once("    current = node_id\n    while current is not None:\n        parent = get_parent(current, flat_graph)\n        if parent == ancestor_id:\n            return True\n        current = parent\n    return False", "    return node_id.startswith(ancestor_id + \"/\")"), set()),
    Variant("descendant-one-level-only", "src/hypergraph/viz/_common.py", replace_once("    current = node_id\n    while current is not None:\n        parent = get_parent(current, flat_graph)\n        if parent == ancestor_id:\n            return True\n        current = parent\n    return False", "    parent = get_parent(node_id, flat_graph)\n    if parent == ancestor_id:\n        return True\n    return False"), {"C20.R8"}),
    Variant("merged-first-consumer-only", ED, replace_once("                    actual_targets = internal_consumers\n", "                    actual_targets = [internal_consumers[0]]\n"), {"C20.R1"}),
    Variant("mermaid-first-consumer-only", MM, replace_once("            actual_targets = internal\n", "            actual_targets = [internal[0]]\n"), {"C20.R1"}),
    Variant("data-edge-id-template-drift", ED, replace_once("                    data_node_id = f\"data_{source}_{value_name}\"", "                    data_node_id = f\"data-{source}-{value_name}\""), {"C20.R2"}),
    Variant("mermaid-end-id-drift", MM, replace_once("            lines.append(_format_edge(node_id, \"__end__\", \"True\"))", "            lines.append(_format_edge(node_id, \"__END__\", \"True\"))"), {"C20.R2"}),
    Variant("data-nodes-only-for-data-outputs", "src/hypergraph/viz/renderer/nodes.py", replace_once("        for output_name in attrs.get(\"outputs\", ()):\n            if allowed_outputs is not None and output_name not in allowed_outputs:\n                continue\n            data_node_id", "        for output_name in attrs.get(\"data_outputs\", ()):\n            if allowed_outputs is not None and output_name not in allowed_outputs:\n                continue\n            data_node_id"), {"C20.R2"}),
    Variant("node-state-key-drift", PC, replace_once("        key_separate = f\"{exp_key}|sep:1\"\n        nodes_by_state[key_separate] = compute_nodes_for_state(", "        key_separate = f\"{exp_key}|separate\"\n        nodes_by_state[key_separate] = compute_nodes_for_state("), {"C20.R3"}),
    Variant("flatten-wrong-parent", CORE, replace_once("                self._flatten_nodes(G, list(inner.nodes.values()), parent=node_id)", "                self._flatten_nodes(G, list(inner.nodes.values()), parent=node.name)"), {"C20.R4"}),
    Variant("hier-id-dot", CORE, sub_first(r"return f\"\{parent_id\}/\{node_name\}\"", "return f\"{parent_id}.{node_name}\""), {"C20.R4"}),
    Variant("end-edges-from-hidden-gates", ED, replace_once("        if not is_node_visible(node_id, flat_graph, expansion_state):\n            continue\n\n        label = None", "        label = None"), {"C20.R6"}),
    Variant("mermaid-end-edges-from-hidden-gates", MM, replace_once("        if not is_node_visible(node_id, flat_graph, expansion_state):\n            continue\n\n        emitted = False", "        emitted = False"), {"C20.R6"}),
    Variant("merged-deepest-unmapped", ED, replace_once("                if internal_producer:\n                    # The deepest producer may sit inside a collapsed inner container\n                    internal_producer = nearest_visible(internal_producer, flat_graph, expansion_state)\n", ""), {"C20.R7"}),
    Variant("twin-rename-consumer-list", ED, lambda s: s.replace("internal_consumers", "inner_targets"), set()),
    Variant("consumer-dropped-when-it-is-the-descendant", "src/hypergraph/viz/_common.py", replace_once("                if is_descendant_of(other, consumer, flat_graph):\n                    has_deeper_descendant = True", "                if is_descendant_of(consumer, other, flat_graph):\n                    has_deeper_descendant = True"), {"C20.R8"}),
    Variant("twin-consumer-filter-as-comprehension", "src/hypergraph/viz/_common.py", replace_once("        filtered = []\n        for consumer in consumers:\n            has_deeper_descendant = False\n            for other in consumers:\n                if other == consumer:\n                    continue\n                if is_descendant_of(other, consumer, flat_graph):\n                    has_deeper_descendant = True\n                    break\n            if not has_deeper_descendant:\n                filtered.append(consumer)\n        param_to_consumers[param] = filtered\n", "        param_to_consumers[param] = [consumer for consumer in consumers if not any(is_descendant_of(other, consumer, flat_graph) for other in consumers if other != consumer)]\n"), set()),
    Variant("external-consumers-siblings-only", "src/hypergraph/viz/renderer/scope.py", replace_once("        if output_param in attrs.get(\"inputs\", ()) and not is_descendant_of(node_id, source_container, flat_graph):", "        if output_param in attrs.get(\"inputs\", ()) and attrs.get(\"parent\") == get_parent(source_container, flat_graph):"), {"C20.R8"}),
    Variant("twin-external-consumers-any", "src/hypergraph/viz/renderer/scope.py", replace_once("    for node_id, attrs in flat_graph.nodes(data=True):\n        if output_param in attrs.get(\"inputs\", ()) and not is_descendant_of(node_id, source_container, flat_graph):\n            return True\n\n    return False", "    return any(output_param in attrs.get(\"inputs\", ()) and not is_descendant_of(node_id, source_container, flat_graph) for node_id, attrs in flat_graph.nodes(data=True))"), set()),
]

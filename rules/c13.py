"""C13 Observers cannot alter execution."""

from __future__ import annotations

import ast

from sa.cfg import G_EXC, all_paths_pass, both, exc_filter, find_path, fmt_path, reachable, reaches, specialize
from sa.db import AnalysisError, ancestors, dotted, src, walk_local
from sa.flow import refine_constants
from sa.model import (
    PROC_METHODS,
    contains,
    enclosing,
    is_processor_call,
    logging_no_raise,
    processor_classes,
    superstep_funcs,
)
from sa.variants import Variant, chain, replace_once, sub_first, sub_once

ID = "C13"
EXPLANATION = (
    "Decides the structural necessary conditions of 'observers cannot alter execution': (R1) every call of a processor method in the "
    "dispatcher sits in a try whose handler catches Exception, and under non-strict mode no Exception can leave the delivering function on any "
    "CFG path, and after a failure control returns to the delivery loop so the other processors still receive the event; (R2) every dispatcher "
    "constructed by the runners is non-strict; (R3) no processor method is called anywhere outside the dispatcher; (R4) code guarded by the "
    "'active' flag in the supersteps and the run-start/run-end helpers only constructs and emits events — it performs no state write and no "
    "control transfer; (R5) top-level shutdown is reached from a finally block; (R6) the dispatcher iterates its own copy of the processor list and no "
    "method other than the constructor modifies it, so a failing processor cannot make another one miss events. R1 also requires that an async processor method is awaited where it is called, inside its own guard (a coroutine collected for a later gather runs outside the guard and abandons its siblings when one fails)."
    " (R8) nothing under events/ or the runners draws from or seeds the process-global random generator (observer-only code runs in different amounts with and without processors)."
    " R8 also requires that what a step reports (applied outputs, the error) does not depend on the order in which its nodes complete."
    ' R8 also covers the other state a thread or process shares with node functions: nothing under events/ or the runners calls asyncio.run / set_event_loop, rewrites warning filters, os.environ, the working directory, signal handlers, the recursion limit, trace/profile hooks, the locale, the decimal context or the socket default time-out.'
)
NOT_DECIDED = (
    "That a processor which mutates objects reachable from an event (e.g. a list-valued decision) cannot influence the run; timing effects of slow "
    "processors; equality of results with and without processors as such."
)

DISPATCHER_MOD = "hypergraph.events.dispatcher"


def _exc_only(info: frozenset) -> bool:
    return G_EXC in info or any(a.startswith("cls:") for a in info)


def check_except_alias_scope(ctx, rule: str) -> None:
    """Python unbinds the name of ``except ... as name`` when the handler ends: reading it afterwards raises
    UnboundLocalError. In the delivery functions such a read sits outside every guard — the error escapes into the
    runner exactly when a processor has failed."""
    db, rep = ctx.db, ctx.rep
    n = 0
    for f in db.funcs_in("events"):
        handlers = [h for h in walk_local(f.node) if isinstance(h, ast.ExceptHandler) and h.name]
        if not handlers:
            continue
        n += 1
        bad = None
        for h in handlers:
            assigned_elsewhere = any(isinstance(x, ast.Name) and x.id == h.name and isinstance(x.ctx, ast.Store) for x in walk_local(f.node))
            if assigned_elsewhere:
                continue
            for x in walk_local(f.node):
                if isinstance(x, ast.Name) and x.id == h.name and isinstance(x.ctx, ast.Load) and not any(isinstance(a, ast.ExceptHandler) and a.name == h.name for a in ancestors(x)):
                    bad = bad or (h, x)
        rep.add(rule, f"{f.qname}:except-alias-read-inside-handler", bad is None, f"{f.module.rel}:{(bad[1] if bad else f.node).lineno}", "names bound by 'except ... as' are read inside their handlers only" if bad is None else f"'{bad[0].name}' is bound by 'except ... as {bad[0].name}' and read at line {bad[1].lineno}, after the handler has ended: Python has unbound it by then, so the read raises UnboundLocalError outside every guard — as soon as the condition leading there holds (e.g. two processors failed on one event) the dispatcher itself raises into the runner")
    if n < 1:
        rep.ok(rule, "events:except-alias-read-inside-handler", "src/hypergraph/events", "no handler of the observer layer binds the exception to a name")


def check_no_global_rng(ctx, rule: str) -> None:
    """Nothing under events/ or the runners draws from (or seeds) the process-global ``random`` generator: it is shared
    with node functions (observer-only code shifts what a seeded node sees; a node that re-seeds makes ids repeat)."""
    db, rep = ctx.db, ctx.rep
    # event ids, span ids and events are built only when processors are attached (or in different numbers then): a draw
    # from the process-global `random` generator there shifts what a node function that uses seeded `random` sees next —
    # the run's values then differ between 'with processors' and 'without'.  uuid4/os.urandom/secrets/time are not shared state.
    GLOBAL_RNG = {"random", "randint", "randrange", "getrandbits", "choice", "choices", "shuffle", "sample", "uniform", "gauss", "seed", "randbytes", "betavariate", "expovariate", "normalvariate", "triangular"}
    GLOBAL_STATE = {
        "asyncio.run": "installs its own event loop as the thread's current loop and leaves the current loop unset on return",
        "asyncio.set_event_loop": "rebinds the thread's current event loop",
        "asyncio.set_event_loop_policy": "rebinds the process-wide event loop policy",
        "asyncio.new_event_loop": "creates a loop to be installed for the thread",
        "os.chdir": "changes the process working directory",
        "os.putenv": "changes the process environment",
        "os.umask": "changes the process umask",
        "sys.setrecursionlimit": "changes the interpreter recursion limit",
        "sys.settrace": "installs a trace function",
        "sys.setprofile": "installs a profile function",
        "signal.signal": "replaces a process signal handler",
        "warnings.simplefilter": "rewrites the process-wide warning filters (a node that turns warnings into errors behaves differently)",
        "warnings.filterwarnings": "rewrites the process-wide warning filters",
        "warnings.resetwarnings": "rewrites the process-wide warning filters",
        "logging.basicConfig": "configures the root logger",
        "locale.setlocale": "changes the process locale",
        "decimal.setcontext": "replaces the thread's decimal context",
        "gc.disable": "switches the collector off for the process",
        "gc.enable": "switches the collector on for the process",
        "socket.setdefaulttimeout": "changes the default time-out of every new socket",
    }
    glob8: dict[str, tuple[ast.AST, str]] = {}
    for f8 in db.funcs_in("events") + db.funcs_in("runners"):
        bad8 = []
        for c in db.calls_in(f8):
            d8 = dotted(c.func) or ""
            parts = d8.split(".")
            if len(parts) == 2 and parts[0] == "random" and parts[1] in GLOBAL_RNG:
                sym = db.resolve_name("random", f8.module, f8)
                if sym is None or sym[0] != "class":
                    bad8.append(c)
            elif len(parts) == 1 and parts[0] in GLOBAL_RNG:
                imp = f8.module.imports.get(parts[0]) if hasattr(f8.module, "imports") else None
                if imp and str(imp).startswith("random"):
                    bad8.append(c)
        # other state the whole thread/process shares with node functions (each entry: what a call rebinds)
        for c in db.calls_in(f8):
            d8 = dotted(c.func) or ""
            if d8 in GLOBAL_STATE and not glob8.get(f8.qname):
                glob8[f8.qname] = (c, GLOBAL_STATE[d8])
        for n8 in walk_local(f8.node):
            if isinstance(n8, (ast.Subscript, ast.Attribute)) and isinstance(n8.ctx, (ast.Store, ast.Del)) and src(n8.value) in ("os.environ", "sys.modules", "sys.path") and not glob8.get(f8.qname):
                glob8[f8.qname] = (n8, f"writes {src(n8.value)}")
        rep.add(rule, f"{f8.qname}:no-global-rng", not bad8, f"{f8.module.rel}:{bad8[0].lineno if bad8 else f8.lineno}", "does not touch the process-global random generator" if not bad8 else f"'{src(bad8[0])[:50]}' draws from the process-global random generator in code whose execution depends on whether processors are attached: a node reading seeded `random` afterwards computes a different value with observers than without")


    for q8, (n8, what8) in sorted(glob8.items()):
        f8 = db.func(q8)
        rep.bad(rule, f"{q8}:no-shared-thread-state", f"{f8.module.rel}:{n8.lineno}", f"'{src(n8)[:50]}' {what8}: observer-side code (it runs only, or differently often, when processors are attached) changes state that node functions read — the run's outcome differs between 'with processors' and 'without'")
    rep.add(rule, "observer-layer:no-shared-thread-state", not glob8, "src/hypergraph/events", f"no call under events/ or the runners rebinds thread- or process-wide state ({len(GLOBAL_STATE)} entry points checked)" if not glob8 else f"{len(glob8)} function(s) rebind thread- or process-wide state")


def run(ctx) -> None:
    db, rep = ctx.db, ctx.rep
    rep.rule("C13.R1", "processor calls are guarded: no Exception leaves a delivery function in non-strict mode; delivery continues with the next processor", floor=6)
    rep.rule("C13.R2", "dispatchers constructed by the runners are non-strict", floor=2)
    rep.rule("C13.R3", "no processor method is called outside events/dispatcher.py", floor=1)
    rep.rule("C13.R7", "event builders are total: observer-only code between the runner and the dispatcher's guard cannot raise on run data", floor=7)
    rep.rule("C13.R8", "observer-only code shares no mutable process state with node functions: nothing under events/ or the runners draws from (or seeds) the process-global random generator", floor=40)
    rep.rule("C13.R9", "every registered processor receives the complete stream: each delivery uses the dispatcher channel that reaches every processor kind (awaited async method in coroutines, sync method in plain functions)", floor=20)
    from .c12 import check_delivery_channel

    check_delivery_channel(ctx, "C13.R9")
    rep.rule("C13.R4", "code guarded by the 'active' flag only builds and emits events", floor=6)
    rep.rule("C13.R5", "dispatcher shutdown of a top-level call happens in a finally block", floor=4)
    rep.rule("C13.R6", "the list of processors is fixed after construction (own copy, never modified by a dispatcher method)", floor=5)
    rep.assume("logging calls (logger.*), warnings.warn and sys.exc_info do not raise")

    disp = db.cls("events.dispatcher.EventDispatcher")
    strict_attr = None
    init = disp.methods.get("__init__")
    if init is not None and "strict" in init.param_names:
        for n in walk_local(init.node):
            if isinstance(n, ast.Assign) and isinstance(n.value, ast.Name) and n.value.id == "strict":
                for t in n.targets:
                    if isinstance(t, ast.Attribute):
                        strict_attr = src(t)
    if strict_attr is None:
        strict_attr = "self._strict"

    # ---- R6: the delivery list is fixed after construction ---------------------
    from sa.effects import Effects, fmt_effect
    from sa.summaries import NoRaise

    nr_pred = NoRaise(db, logging_no_raise).predicate()
    E = Effects(db)
    proc_attr = "_processors"
    for m in disp.methods.values():
        if m.name == "__init__":
            continue
        bad = [e for e in E.writes(m, "self", include_unknown=False) if e.path == (proc_attr,)]
        rep.add("C13.R6", f"{m.qname}:processor-list", not bad, m.loc(), "does not modify the processor list" if not bad else f"the processor list is modified while events are being delivered ({fmt_effect(bad[0])}): removing/adding an entry during iteration makes another processor miss events")
    init_m = disp.methods.get("__init__")
    copies = init_m is not None and any(isinstance(n, (ast.Assign, ast.AnnAssign)) and "_processors" in src(n.targets[0] if isinstance(n, ast.Assign) else n.target) and "list(" in src(n.value) for n in walk_local(init_m.node))
    rep.add("C13.R6", f"{disp.qname}:own-copy", copies, disp.loc(), "the dispatcher iterates its own copy of the caller's processor list" if copies else "the dispatcher iterates the caller's list object (the caller or a processor can change it mid-run)")

    # ---- R1 -----------------------------------------------------------------
    check_delivery_guarded(ctx, "C13.R1")
    check_except_alias_scope(ctx, "C13.R1")

    # ---- R7 -----------------------------------------------------------------
    # The supersteps call the build_*_event helpers only when processors are registered, outside the
    # dispatcher's guard.  An exception raised while *building* an event is observer-only behaviour that
    # changes the run, so the builders may only construct event objects and call helpers that cannot
    # fail on run data (ids, clock, str(), isinstance, sys.exc_info)
    TOTAL_CALLS = {"str", "isinstance", "repr", "time.time", "sys.exc_info", "type", "len", "getattr", "id"}
    ev_mod = "hypergraph.events.types"
    n7 = 0
    for f7 in db.all_funcs():
        if f7.module.name != "hypergraph.runners._shared.event_helpers" or not f7.name.startswith("build_"):
            continue
        n7 += 1
        bad7 = []
        for c7 in db.calls_in(f7):
            d7 = dotted(c7.func) or src(c7.func)
            cals = db.resolve_call(c7, f7)
            if d7 in TOTAL_CALLS:
                continue
            if any(cal.cls is not None and cal.cls.module.name == ev_mod for cal in cals):
                continue
            if any(cal.func is not None and cal.func.name.startswith("_generate_") for cal in cals):
                continue
            bad7.append(c7)
        for x7 in walk_local(f7.node):
            if isinstance(x7, (ast.Raise, ast.Assert)) or (isinstance(x7, ast.Compare) and any(isinstance(o, (ast.Lt, ast.Gt, ast.LtE, ast.GtE)) for o in x7.ops)):
                bad7.append(x7)
        rep.add("C13.R7", f"{f7.qname}:total", not bad7, f"{f7.module.rel}:{bad7[0].lineno if bad7 else f7.lineno}", "only constructs the event (ids, clock, str/isinstance, membership look-ups)" if not bad7 else f"'{src(bad7[0])[:60]}' can raise on run data (e.g. ordering a list that mixes END with names): the exception is raised outside the dispatcher's guard, only when processors are registered, and turns a successful node into a failed one")
    if n7 < 7:
        raise AnalysisError(f"only {n7} event builders found")

    # ---- R2 -----------------------------------------------------------------
    for f in db.all_funcs():
        if f.module.name.startswith("hypergraph.events"):
            continue
        for call, cal in db.callees(f):
            if cal.kind == "class" and cal.cls == disp:
                kw = {k.arg: k.value for k in call.keywords}
                bad = False
                if "strict" in kw and not (isinstance(kw["strict"], ast.Constant) and kw["strict"].value is False):
                    bad = True
                if len(call.args) > 1 or any(k.arg is None for k in call.keywords):
                    bad = True
                rep.add("C13.R2", f"{f.qname}:EventDispatcher(...)", not bad, f"{f.module.rel}:{call.lineno}", "non-strict dispatcher" if not bad else f"dispatcher may be strict: {src(call)}")

    # ---- R3 -----------------------------------------------------------------
    procs = set(processor_classes(db))
    inside = 0
    for f in db.all_funcs():
        for c in db.calls_in(f):
            named = isinstance(c.func, ast.Attribute) and c.func.attr in PROC_METHODS
            if not named:
                continue
            resolved = db.resolve_call(c, f)
            is_proc = is_processor_call(db, c, f)
            if f.module.name == DISPATCHER_MOD and is_proc:
                inside += 1
                continue
            if f.cls is not None and f.cls in procs:
                continue  # a processor delegating to itself / its parts is processor code
            if is_proc or not resolved:
                rep.bad("C13.R3", f"{f.qname}:{src(c.func)}", f"{f.module.rel}:{c.lineno}", "processor method (or an unresolved call of that name) invoked outside the dispatcher's guarded delivery")
    rep.add("C13.R3", "positive-example:events/dispatcher.py", inside >= 4, "src/hypergraph/events/dispatcher.py:1", f"{inside} guarded processor call sites recognised inside the dispatcher (the matcher works)")


    # ---- R8 ---------------------------------------------------------------------
    check_no_global_rng(ctx, "C13.R8")
    # observers run between the nodes of a step (event deliveries suspend and resume them), so they influence the order
    # in which nodes complete — what the step reports (applied outputs, the error) must not depend on that order
    from .c02 import check_step_results_in_ready_order

    check_step_results_in_ready_order(ctx, "C13.R8")

    # ---- R4 -----------------------------------------------------------------
    emit_names = {"emit", "emit_async"}

    def inert_block(f, stmts, where: str) -> None:
        for st in stmts:
            for n in [st] + list(walk_local(st)):
                bad = None
                if isinstance(n, (ast.Raise, ast.Return, ast.Break, ast.Continue)):
                    bad = f"control transfer '{src(n)[:40]}' depends on whether a processor is registered"
                elif isinstance(n, (ast.Assign, ast.AugAssign, ast.AnnAssign)):
                    tg = n.targets if isinstance(n, ast.Assign) else [n.target]
                    for t in tg:
                        if not isinstance(t, ast.Name):
                            bad = f"store to {src(t)} depends on whether a processor is registered"
                        else:
                            # the local must not be used outside active-guarded code
                            for u in walk_local(f.node):
                                if isinstance(u, ast.Name) and u.id == t.id and isinstance(u.ctx, ast.Load) and not any(contains(s, u) for s in stmts):
                                    if not _under_active(u):
                                        bad = f"local {t.id} assigned under the flag is read outside it"
                elif isinstance(n, (ast.Delete, ast.With, ast.AsyncWith, ast.Try, ast.While, ast.For, ast.AsyncFor)):
                    bad = f"{type(n).__name__} under the flag"
                elif isinstance(n, ast.Call):
                    cals = db.resolve_call(n, f)
                    nm = dotted(n.func) or src(n.func)
                    okc = False
                    for c in cals:
                        if c.func is not None and (c.func.name.startswith("build_") and c.func.module.name.endswith("event_helpers")):
                            okc = True
                        if c.func is not None and c.func.cls == disp and c.func.name in emit_names | {"shutdown", "shutdown_async"}:
                            okc = True
                        if c.kind == "class" and c.cls is not None and c.cls.module.name == "hypergraph.events.types":
                            okc = True
                        if c.func is not None and c.func.name in ("_shutdown_dispatcher_sync", "_shutdown_dispatcher_async"):
                            okc = True
                        if c.kind == "ext" and c.ext in ("str", "time.time", "len"):
                            okc = True
                    if not okc:
                        bad = f"call {nm}(...) under the flag is neither event construction nor emission"
                if bad:
                    rep.bad("C13.R4", f"{f.qname}:{where}", f"{f.module.rel}:{getattr(n, 'lineno', 0)}", bad)
                    return
        rep.ok("C13.R4", f"{f.qname}:{where}", f"{f.module.rel}:{stmts[0].lineno if stmts else 0}", "only event construction/emission under the flag")

    from .common import flag_locals

    _flags_cache: dict[str, set[str]] = {}

    def _is_active_test(t: ast.AST) -> bool:
        f_ = db.enclosing_func(t)
        flags = set()
        if f_ is not None:
            if f_.qname not in _flags_cache:
                _flags_cache[f_.qname] = flag_locals(f_, "active")
            flags = _flags_cache[f_.qname]
        return any(isinstance(x, ast.Name) and x.id in flags for x in ast.walk(t)) or any(isinstance(x, ast.Attribute) and x.attr == "active" for x in ast.walk(t))

    def _under_active(u: ast.AST) -> bool:
        from sa.db import ancestors, parent

        prev = u
        for a in ancestors(u):
            if isinstance(a, ast.If) and _is_active_test(a.test) and any(contains(s, prev) for s in a.body):
                return True
            prev = a
        return False

    targets = []
    for ss in superstep_funcs(db):
        targets.append(ss)
        targets += list(ss.children.values())
    for f in db.funcs_in("runners"):
        if f in targets:
            continue
        if any(isinstance(n, ast.If) and _is_active_test(n.test) for n in walk_local(f.node)) or any(
            isinstance(n, ast.If) and isinstance(n.test, ast.UnaryOp) and _is_active_test(n.test) for n in walk_local(f.node)
        ):
            targets.append(f)
    for f in targets:
        k = 0
        for n in walk_local(f.node):
            if isinstance(n, ast.If) and _is_active_test(n.test):
                neg = isinstance(n.test, ast.UnaryOp) and isinstance(n.test.op, ast.Not)
                k += 1
                if neg:
                    # early-return form: `if not dispatcher.active: return X`; the rest of the function is the guarded part
                    body_ok = len(n.body) == 1 and isinstance(n.body[0], ast.Return) and not n.orelse
                    parent_body = f.body
                    idx = parent_body.index(n) if n in parent_body else -1
                    rest = parent_body[idx + 1 :] if idx >= 0 else []
                    rets = [x for s in rest for x in [s] + list(walk_local(s)) if isinstance(x, ast.Return)]
                    same = all((r.value is None and n.body[0].value is None) or (r.value is not None and n.body[0].value is not None and ast.dump(r.value) == ast.dump(n.body[0].value)) for r in rets) if body_ok else False
                    if not (body_ok and idx >= 0 and same):
                        rep.bad("C13.R4", f"{f.qname}:if-not-active#{k}", f"{f.module.rel}:{n.lineno}", "inactive early return does not return the same expression as the active path")
                        continue
                    rest_wo_ret = [s for s in rest if not isinstance(s, ast.Return)]
                    # strip local imports
                    rest_wo_ret = [s for s in rest_wo_ret if not isinstance(s, (ast.Import, ast.ImportFrom))]
                    if f.name == "_emit_run_end" or f.name == "_emit_run_start":
                        # duration_ms = (time.time() - start_time) * 1000 is event payload only
                        pass
                    inert_block(f, rest_wo_ret, f"after-if-not-active#{k}")
                else:
                    inert_block(f, n.body, f"if-active#{k}")
                    if n.orelse:
                        inert_block(f, n.orelse, f"else-of-if-active#{k}")

    # ---- R5 -----------------------------------------------------------------
    for f in db.funcs_in("runners"):
        for c in db.calls_in(f):
            cals = db.resolve_call(c, f)
            if any(cal.func is not None and cal.func.name in ("_shutdown_dispatcher_sync", "_shutdown_dispatcher_async") for cal in cals):
                tr = enclosing(c, (ast.Try,))
                ok = tr is not None and any(contains(s, c) for s in tr.finalbody)
                rep.add("C13.R5", f"{f.qname}:shutdown", ok, f"{f.module.rel}:{c.lineno}", "shutdown in finally" if ok else "dispatcher shutdown is not in a finally block")


def check_delivery_guarded(ctx, rule: str, only_methods: set[str] | None = None) -> None:
    """Every call of a processor method in the dispatcher sits in its own try (handler catches Exception)
    inside the per-processor loop, nothing escapes in non-strict mode, and the loop goes on to the next
    processor after a failure."""
    from sa.summaries import NoRaise

    db, rep = ctx.db, ctx.rep
    disp = db.cls("events.dispatcher.EventDispatcher")
    strict_attr = None
    init = disp.methods.get("__init__")
    if init is not None and "strict" in init.param_names:
        for n in walk_local(init.node):
            if isinstance(n, ast.Assign) and isinstance(n.value, ast.Name) and n.value.id == "strict":
                for t in n.targets:
                    if isinstance(t, ast.Attribute):
                        strict_attr = src(t)
    if strict_attr is None:
        strict_attr = "self._strict"
    nr_pred = NoRaise(db, logging_no_raise).predicate()
    for m in disp.methods.values():
        sites = [c for c in db.calls_in(m) if is_processor_call(db, c, m)]
        if not sites or (only_methods is not None and m.name not in only_methods):
            continue
        cfg = ctx.cfg(m, nr_pred)
        ef = refine_constants(cfg, both(specialize({strict_attr: False}), exc_filter(_exc_only)))
        esc = reaches(cfg.entry, cfg.exit_raise, ef)
        for c in sites:
            inst = f"{m.qname}:{src(c.func)}"
            loc = f"{m.module.rel}:{c.lineno}"
            tr = enclosing(c, (ast.Try,))
            loop = enclosing(c, (ast.For, ast.AsyncFor))
            ok = True
            why = []
            if tr is None or not any(cfg.definitely_caught(G_EXC, cfg._handler_names(h)) for h in tr.handlers) or not any(contains(s, c) for s in tr.body):
                ok = False
                why.append("call is not inside a try whose handler catches Exception")
            if loop is None or (tr is not None and not contains(loop, tr)):
                ok = False
                why.append("the guarding try is not inside the per-processor loop (one failure would end delivery to the others)")
            if esc:
                p = find_path(cfg.entry, cfg.exit_raise, ef)
                ok = False
                why.append(f"an Exception can leave {m.name} in non-strict mode: {fmt_path(p)}")
            # an async processor method is awaited right here, inside its own guard: a coroutine that is
            # collected and awaited later (gather, tasks) runs outside the guard and its siblings are abandoned
            # when one of them fails
            if any(cal.func is not None and cal.func.is_async for cal in db.resolve_call(c, m)) or src(c.func).endswith("_async"):
                par = getattr(c, "_parent", None)
                if not isinstance(par, ast.Await):
                    ok = False
                    why.append("the processor's coroutine is created here but not awaited inside its guard (deferred to a later gather/task): delivery to the other processors is no longer completed before the call returns")
            if ok and tr is not None and loop is not None:
                # after a failure control must return to the loop header
                loop_nodes = cfg.nodes_for(loop)
                for h in tr.handlers:
                    for hn in cfg.nodes_for(h):
                        if not all_paths_pass(hn, cfg.exit_return, loop_nodes, ef):
                            ok = False
                            why.append("after a processor failure the delivery loop is left (return/break in the handler)")
                # no break in the loop body on the normal path either
                for cn in cfg.node_containing(c):
                    if not all_paths_pass(cn, cfg.exit_return, loop_nodes, ef):
                        ok = False
                        why.append("delivery loop can be left before all processors were served")
            rep.add(rule, inst, ok, loc, "guarded, contained and loop continues" if ok else "; ".join(why))



DISP = "src/hypergraph/events/dispatcher.py"
VARIANTS = [
    Variant("route-event-sorts-decision", "src/hypergraph/runners/_shared/event_helpers.py", replace_once("        decision=state.routing_decisions[node.name],", "        decision=sorted(set(state.routing_decisions[node.name])) if isinstance(state.routing_decisions[node.name], list) else state.routing_decisions[node.name],"), {"C13.R7"}),
    Variant("async-delivery-gathered", "src/hypergraph/events/dispatcher.py", chain(replace_once("from __future__ import annotations\n", "from __future__ import annotations\n\nimport asyncio\n"), replace_once("                    await processor.on_event_async(event)", "                    pending.append(processor.on_event_async(event))"), replace_once("    async def emit_async(self, event: Event) -> None:\n        \"\"\"Send *event* to every processor, using async when available.\"\"\"\n", "    async def emit_async(self, event: Event) -> None:\n        pending = []\n")), {"C13.R1"}),
    Variant("emit-shows-every-warning", DISP, chain(replace_once("from __future__ import annotations\n", "from __future__ import annotations\n\nimport warnings\n"), replace_once("    def emit(self, event: Event) -> None:\n", "    def emit(self, event: Event) -> None:\n        warnings.simplefilter(\"error\")\n")), {"C13.R8"}),
    Variant("twin-emit-warns-locally", DISP, chain(replace_once("from __future__ import annotations\n", "from __future__ import annotations\n\nimport warnings\n"), replace_once("    def emit(self, event: Event) -> None:\n", "    def emit(self, event: Event) -> None:\n        warnings.warn(\"delivering\", stacklevel=2) if False else None\n")), set()),
    Variant("emit-narrow-handler", DISP, sub_first(r"(processor\.on_event\(event\)\n            )except Exception:", r"\1except ValueError:"), {"C13.R1"}),
    Variant("emit-async-reraise-always", DISP, sub_once(r"(def emit_async.*?)if self\._strict:\n                    raise", r"\1if self._strict or event is not None:\n                    raise"), {"C13.R1"}),
    Variant("emit-break-after-failure", DISP, sub_once(r"(def emit\(.*?exc_info=True,\n                \))", r"\1\n                break"), {"C13.R1"}),
    Variant("shutdown-raises-first-error-nonstrict", DISP, sub_once(r"if self\._strict:\n                    if first_error is None:\n                        first_error = sys.exc_info\(\)", "if first_error is None:\n                    first_error = sys.exc_info()\n                if self._strict:\n                    pass"), {"C13.R1"}),
    Variant("twin-emit-extract-log", DISP, sub_once(r"(def emit\(.*?)logger\.warning\(\n                    \"EventProcessor %s failed on %s\",\n                    processor,\n                    type\(event\).__name__,\n                    exc_info=True,\n                \)", r'\1logger.warning("EventProcessor %s failed", processor, exc_info=True)'), set()),
    Variant("drop-failing-processor", DISP, sub_first(r"(def emit\(.*?exc_info=True,\n                \))", r"\1\n                self._processors = [p for p in self._processors if p is not processor]"), {"C13.R6"}),
    Variant("share-callers-list", DISP, replace_once("self._processors: list[EventProcessor] = list(processors) if processors else []", "self._processors: list[EventProcessor] = processors if processors else []"), {"C13.R6"}),
    Variant("twin-count-failures", DISP, chain(replace_once("        self._strict = strict\n", "        self._strict = strict\n        self._failed = 0\n"), sub_first(r"(def emit\(.*?exc_info=True,\n                \))", r"\1\n                self._failed += 1")), set()),
    Variant("runner-strict-dispatcher", "src/hypergraph/runners/sync/runner.py", replace_once("return EventDispatcher(processors)", "return EventDispatcher(processors, strict=True)"), {"C13.R2"}),
    Variant("superstep-direct-processor-call", "src/hypergraph/runners/sync/superstep.py", replace_once("            if active:\n                dispatcher.emit(start_evt)\n\n            node_start", "            if active:\n                for p in dispatcher._processors:\n                    p.on_event(start_evt)\n\n            node_start"), {"C13.R3", "C13.R4"}),
    Variant("active-guard-writes-state", "src/hypergraph/runners/sync/superstep.py", replace_once("                if active:\n                    route_evt = build_route_decision_event(run_id, run_span_id, node, graph, new_state)\n                    if route_evt is not None:\n                        dispatcher.emit(route_evt)\n                    dispatcher.emit(build_node_end_event(run_id, node_span_id, run_span_id, node, graph, duration_ms))", "                if active:\n                    route_evt = build_route_decision_event(run_id, run_span_id, node, graph, new_state)\n                    if route_evt is not None:\n                        dispatcher.emit(route_evt)\n                    dispatcher.emit(build_node_end_event(run_id, node_span_id, run_span_id, node, graph, duration_ms))\n                    new_state.routing_decisions.pop(node.name, None)"), {"C13.R4"}),
    Variant("shutdown-outside-finally", "src/hypergraph/runners/_shared/template_sync.py", sub_once(r"(            return results\n        except Exception as e:\n            self\._emit_run_end_sync\(\n                dispatcher,\n                map_run_id.*?raise\n)        finally:\n            if _parent_span_id is None and dispatcher\.active:\n                self\._shutdown_dispatcher_sync\(dispatcher\)", r"\1        if _parent_span_id is None and dispatcher.active:\n            self._shutdown_dispatcher_sync(dispatcher)"), {"C13.R5"}),
    Variant("span-ids-from-global-rng", "src/hypergraph/events/types.py", chain(replace_once("import uuid\n", "import random\nimport uuid\n"), replace_once("    return uuid.uuid4().hex[:16]", "    return f\"{random.getrandbits(64):016x}\"")), {"C13.R8"}),
    Variant("twin-span-ids-from-own-generator", "src/hypergraph/events/types.py", chain(replace_once("import uuid\n", "import os\nimport uuid\n"), replace_once("    return uuid.uuid4().hex[:16]", "    return os.urandom(8).hex()")), set()),
]

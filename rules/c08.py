"""C08 Input contract: reported input spec is exact; violations fail before execution."""

from __future__ import annotations

import ast

from sa.cfg import all_paths_pass, dominators, reachable, reaches, specialize, test_atoms
from sa.db import AnalysisError, ancestors, bind_args, dotted, src, walk_local
from sa.model import contains, enclosing, is_processor_call, is_user_func_call
from sa.variants import Variant, replace_once, sub_first, sub_once

from .c06 import check_qualifiers
from .c07 import check_cache_invalidation
from .c12 import check_validate_first
from sa.flow import defs_reaching, reaching_defs
from .common import call_names, norm_atom, template_methods, vars_from_call

ID = "C08"
EXPLANATION = (
    "Decides the ordering and shape clauses of the input contract: (R1) in run/map of both templates every validation step dominates dispatcher "
    "creation, emission and execution, so a rejected call has no observable effect; (R2) the transitive callee closure of the validation pipeline "
    "contains no invocation of user code (node functions, processor methods, dispatcher emission); (R3) in compute_input_spec each parameter is "
    "visited once, entry-point parameters are skipped before categorisation and on every path through the loop body at most one of the "
    "required/optional appends executes (disjoint by construction); (R4) categorisation and entry-point computation read the bound mapping, and "
    "bind/unbind drop the cached specification; (R5) a missing required input and an unsatisfied cycle entry are reported by raising "
    "MissingInputError on every path where the missing set is non-empty; (R6) bound values surfaced from nested graphs into the specification are "
    "keyed by inputs of the wrapper that carries them (nothing else of an inner graph can make an outer input count as provided); (R7) bypass "
    "detection marks a node as bypassed only when a *non-empty* set of its outputs is provided; (R8) reader/writer agreement between the validator "
    "and the reported specification about bound values (today they disagree for bound output names: open known finding F18). R4 also requires the existential over all consumers in _any_node_has_default; R6 that the graph's own bindings are carried into the resolved table in full; (R9) a run-time recomputation of the specification is fed the same raw graph state (nodes, nx graph, the graph's own bindings, entry points) as the cached Graph.inputs. (R10) the validator groups supplied entry points by the same decomposition (strongly connected components of the data-only graph) the specification lists them by."
    " R9 also requires that every computation of the active scope receives entry points and selection, and that an explicit run-time selection is never normalised to 'no narrowing'."
)
NOT_DECIDED = "Exactness (sufficiency and necessity) of the reported specification for every configuration — a statement about the computed sets; bypass and cycle-entry matching semantics."

VALIDATORS = [
    "runners._shared.validation.validate_inputs",
    "runners._shared.validation.validate_runner_compatibility",
    "runners._shared.validation.validate_node_types",
    "runners._shared.validation.validate_map_compatible",
    "runners._shared.validation.resolve_runtime_selected",
    "runners._shared.helpers._validate_on_missing",
    "runners._shared.helpers._validate_error_handling",
    "runners._shared.input_normalization.normalize_inputs",
]


def check_explicit_entry_params_checked(ctx, rule: str) -> None:
    """With an explicit run-time entry point, the cycle it belongs to is exempt from the 'exactly one entry satisfied'
    check only because the entry point's own parameters are checked against the provided values first: a rejection
    guarded by a test over (parameters of the named entry point, provided) exists in the validator."""
    db, rep = ctx.db, ctx.rep
    f = db.func("runners._shared.validation._validate_cycle_entry")
    # the explicit entry point is the parameter that may be None and is a plain string otherwise (whatever it is called)
    epar = next((p_ for p_ in f.param_names if src(f.param_annotation(p_) or ast.Constant("")).replace(" ", "") in ("str|None", "None|str", "Optional[str]")), None) or next((p_ for p_ in f.param_names if p_ == "entrypoint"), None)
    if epar is None:
        raise AnalysisError("_validate_cycle_entry: entrypoint parameter not found")
    own = {nm for nm, ds in db.local_defs(f).items() if any(f"[{epar}]" in src(getattr(d, "value", None) or ast.Constant("")) for d in ds)}
    skips = [x for x in walk_local(f.node) if isinstance(x, ast.Continue) and any(isinstance(a, ast.If) and isinstance(a.test, ast.Compare) for a in ancestors(x))]
    psets = {p_ for p_ in f.param_names if src(f.param_annotation(p_) or ast.Constant("")).replace(" ", "") == "set[str]"} or {"provided"}
    checks = [t for t in walk_local(f.node) if isinstance(t, ast.If) and any(isinstance(z, ast.Name) and z.id in psets for z in ast.walk(t.test)) and (any(nm in {z.id for z in ast.walk(t.test) if isinstance(z, ast.Name)} for nm in own) or f"[{epar}]" in src(t.test)) and any(isinstance(z, ast.Raise) for b in t.body for z in ast.walk(b))]
    ok = bool(checks) or not skips
    rep.add(rule, f"{f.qname}:explicit-entry-own-params-checked", ok, f.loc(), "the named entry point's own parameters are checked against the provided values before its cycle is exempted" if ok else "the cycle of an explicitly named entry point is skipped ('entry chosen by the caller') but nothing checks that the entry point's own parameters were provided: run(graph, {}, entrypoint='node_a') is accepted, no node ever becomes ready and the run completes with no values — an omitted needed parameter is not rejected")


def check_effective_spec_not_memoised(ctx, rule: str) -> None:
    """The specification a run is validated against is the graph's own (``graph.inputs``) or is recomputed for this call
    from this graph's current state: it never comes out of a table that outlives the call (any key short of the full
    graph state — bindings, nested bindings — serves one graph the contract of another)."""
    db, rep = ctx.db, ctx.rep
    f = db.func("runners._shared.validation._resolve_effective_input_spec")
    cfg = ctx.cfg(f)
    rd = reaching_defs(cfg)
    bad = None
    n = 0
    for r in [x for x in cfg.nodes if x.kind == "stmt" and isinstance(x.ast, ast.Return) and x.ast.value is not None]:
        n += 1
        vals = [r.ast.value]
        if isinstance(r.ast.value, ast.Name):
            vals = [v for d, v in defs_reaching(cfg, rd, r, r.ast.value.id) if v is not None]
        for v in vals:
            fresh = isinstance(v, ast.Call) and "compute_input_spec" in call_names(db, v, f)
            own = isinstance(v, ast.Attribute) and v.attr == "inputs" and isinstance(v.value, ast.Name) and v.value.id in f.param_names
            if not (fresh or own):
                bad = bad or (r, v)
    if n < 2:
        raise AnalysisError("_resolve_effective_input_spec: returns not found")
    rep.add(rule, f"{f.qname}:spec-not-memoised", bad is None, f"{f.module.rel}:{(bad[0] if bad else f.node).lineno}", f"{n} exits: the graph's own specification or a fresh computation" if bad is None else f"an exit returns '{src(bad[1])[:60]}', a specification that was not computed for this call: a memo keyed by graph structure, entry points and selection is shared by every bind()/unbind() variant of the graph, so after g.bind(x=1) ran, g.bind(x=1).unbind('x') accepts a run that omits x (and the reverse order demands a bound input)")


def run(ctx) -> None:
    db, rep = ctx.db, ctx.rep
    rep.rule("C08.R1", "validation dominates dispatcher creation, emission and execution", floor=4)
    rep.rule("C08.R2", "the validation pipeline never invokes user code", floor=8)
    rep.rule("C08.R3", "required/optional/entry-point categories are disjoint by construction", floor=3)
    rep.rule("C08.R4", "classification reads the bindings; bind/unbind invalidate the cached specification", floor=3)
    rep.rule("C08.R5", "missing inputs are reported by raising MissingInputError", floor=2)
    rep.rule("C08.R6", "inner bound values enter the specification only under inputs of their wrapper", floor=2)
    rep.rule("C08.R7", "a node counts as bypassed only if a non-empty set of its outputs is provided", floor=2)
    rep.rule("C08.R12", "order independence: no accumulator is both extended and reduced inside one pass over the nodes (validation results do not depend on the order nodes were listed in)", floor=15)
    rep.rule("C08.R11", "the active scope follows every kind of edge: what a selected producer waits for (ordering) or is routed by (control) is in scope like what it reads", floor=3)
    rep.rule("C08.R10", "validation matches supplied entry points per cycle with the same decomposition (strongly connected components of the data-only graph) that the reported specification lists them by", floor=2)
    rep.rule("C08.R9", "a run-time recomputation of the specification is fed the same raw graph state as the cached one", floor=1)
    rep.rule("C08.R8", "every reduction of the required set that validation derives from bound values alone is also made by the reported specification", floor=1)

    check_validate_first(ctx, "C08.R1")

    # ---- R2 ---------------------------------------------------------------------
    disp = db.cls("events.dispatcher.EventDispatcher")
    for q in VALIDATORS:
        f = db.func(q)
        clo = db.closure([f], property_reads=True)
        bad = None
        for g, path in clo.items():
            for c in db.calls_in(g):
                if is_user_func_call(db, c, g):
                    bad = (g, c, "calls a node function")
                elif is_processor_call(db, c, g):
                    bad = (g, c, "calls an event processor")
                elif any(cal.func is not None and cal.func.cls == disp for cal in db.resolve_call(c, g)):
                    bad = (g, c, "uses the event dispatcher")
                if bad:
                    break
            if bad:
                break
        rep.add("C08.R2", f"{f.qname}", bad is None, f.loc(), f"closure of {len(clo)} functions invokes no node function, processor or dispatcher" if bad is None else f"validation {bad[2]}: {bad[0].qname.split('hypergraph.')[-1]}:{bad[1].lineno}")

    # ---- R3 ---------------------------------------------------------------------
    cis = db.func("graph.input_spec.compute_input_spec")
    cfg = ctx.cfg(cis)
    loops = [n for n in cfg.nodes if n.kind == "for" and any("_categorize_param" in call_names(db, c, cis) for s in n.ast.body for c in ast.walk(s) if isinstance(c, ast.Call))]
    if len(loops) != 1:
        raise AnalysisError("compute_input_spec: categorisation loop not found")
    lp = loops[0]
    # the two lists that end up as InputSpec(required=..., optional=...)
    fields = {}
    for c in db.calls_in(cis):
        if "InputSpec" in src(c.func):
            for k in c.keywords:
                if k.arg in ("required", "optional"):
                    nm = [x.id for x in ast.walk(k.value) if isinstance(x, ast.Name) and x.id not in ("tuple", "list", "sorted")]
                    if nm:
                        fields[nm[0]] = k.arg
    apps = {}
    for n in cfg.nodes:
        for c in cfg.calls_at(n):
            if isinstance(c.func, ast.Attribute) and c.func.attr == "append" and isinstance(c.func.value, ast.Name) and c.func.value.id in fields and contains(lp.ast, c):
                apps.setdefault(fields[c.func.value.id], []).append(n)
    ok = set(apps) == {"required", "optional"}
    why = "required/optional appends not found"
    if ok:
        bad = any(reaches(a, b, avoid=[lp]) for a in apps["required"] for b in apps["optional"]) or any(reaches(b, a, avoid=[lp]) for a in apps["required"] for b in apps["optional"])
        ok = not bad
        why = "at most one of the required/optional appends executes per parameter" if ok else "one parameter can be appended to both required and optional"
        # appended value is the loop variable
        for lst in apps.values():
            for n in lst:
                c = [c for c in cfg.calls_at(n) if isinstance(c.func, ast.Attribute) and c.func.attr == "append"][0]
                if not (isinstance(c.args[0], ast.Name) and isinstance(lp.ast.target, ast.Name) and c.args[0].id == lp.ast.target.id):
                    ok, why = False, "the appended name is not the parameter being categorised"
    rep.add("C08.R3", f"{cis.qname}:one-category", ok, f"{cis.module.rel}:{lp.lineno}", why)
    # entry params skipped before categorisation
    cat_nodes = [n for n in cfg.nodes if any("_categorize_param" in call_names(db, c, cis) for c in cfg.calls_at(n))]
    val = {}
    for n in cfg.nodes:
        if n.kind == "test" and n.ast is not None and contains(lp.ast, n.ast):
            for a in test_atoms(n.ast):
                if isinstance(a, ast.Compare) and len(a.ops) == 1 and isinstance(a.ops[0], (ast.In, ast.NotIn)) and "entry" in src(a.comparators[0]) and isinstance(a.left, ast.Name) and isinstance(lp.ast.target, ast.Name) and a.left.id == lp.ast.target.id:
                    k, pos = norm_atom(a)
                    val[k] = True
                    val[src(ast.Compare(a.left, [ast.NotIn()], a.comparators))] = False
    ok = bool(val) and bool(cat_nodes)
    if ok:
        live = reachable(cfg.entry, specialize(val, cfg))
        ok = not any(c in live for c in cat_nodes)
    rep.add("C08.R3", f"{cis.qname}:entry-params-skipped", ok, f"{cis.module.rel}:{lp.lineno}", "entry-point parameters are skipped before categorisation" if ok else "an entry-point parameter can also be categorised as required/optional")
    up = db.func("graph.input_spec._unique_params")
    from sa.pattern import solve

    ok = bool(solve(["_S: set[str] = set()", "_P not in _S", "_S.add(_P)", "yield _P"], up.node) or solve(["_S = set()", "_P not in _S", "_S.add(_P)", "yield _P"], up.node)) and src(lp.ast.iter).startswith("_unique_params(")
    rep.add("C08.R3", f"{up.qname}:visited-once", ok, up.loc(), "each parameter name is yielded once (seen-set) and the loop iterates that generator" if ok else "a parameter shared by several nodes can be visited more than once")

    # ---- R4 ---------------------------------------------------------------------
    cis4 = db.func("graph.input_spec.compute_input_spec")

    def bound_param_of(callee):
        """The callee's parameter that receives compute_input_spec's bound mapping (by call-site binding)."""
        for c in db.calls_in(cis4):
            if any(cal.func is callee for cal in db.resolve_call(c, cis4)):
                for pn, a in (bind_args(c, callee) or {}).items():
                    if isinstance(a, ast.Name) and a.id == "bound":
                        return pn
        return None

    cat = db.func("graph.input_spec._categorize_param")
    bp = bound_param_of(cat)
    ok = bp is not None and any(isinstance(n, ast.Compare) and isinstance(n.ops[0], ast.In) and src(n.comparators[0]) == bp for n in walk_local(cat.node))
    rep.add("C08.R4", f"{cat.qname}:reads-bound", ok, cat.loc(), "a bound parameter is categorised optional (membership in the bound mapping)" if ok else "categorisation no longer consults the bound mapping")
    ce = db.func("graph.input_spec._compute_entrypoints")
    bp2 = bound_param_of(ce)
    ok = bp2 is not None and any(isinstance(x, ast.Name) and x.id == bp2 and isinstance(x.ctx, ast.Load) for x in walk_local(ce.node))
    rep.add("C08.R4", f"{ce.qname}:reads-bound", ok, ce.loc(), "entry-point computation receives and uses the bound mapping" if ok else "entry-point computation ignores the bound mapping")
    # required vs optional is decided from the defaults table, which is keyed through the forward rename map: renames
    # of one with_inputs call are applied in parallel (a swap a<->b must not move b's default onto a)
    from .c06 import check_batch_isolation

    check_batch_isolation(ctx, "C08.R4", (db.func("nodes._callable._build_forward_rename_map"),))
    # the category computed from the call is passed the graph's bound dict
    calls = [c for c in db.calls_in(cis) if "_categorize_param" in call_names(db, c, cis)]
    ok = bool(calls) and all(any(isinstance(a, ast.Name) and a.id == "bound" for a in c.args) for c in calls)
    rep.add("C08.R4", f"{cis.qname}:passes-bound", ok, cis.loc(), "compute_input_spec hands its bound mapping to the categoriser" if ok else "compute_input_spec does not hand the bound mapping to the categoriser")
    check_cache_invalidation(ctx, "C08.R4", families=("Graph",))
    check_default_existential(ctx, "C08.R4")

    # sufficiency: what the specification reports as optional because it is bound (the merged table: own bindings and
    # those surfaced from nested graphs) is also what the scheduler accepts as available — else supplying all required
    # inputs is accepted and a node is silently never ready
    from .c01 import check_readiness_vs_resolver

    check_readiness_vs_resolver(ctx, "C08.R4")

    # ---- R5 ---------------------------------------------------------------------
    vi = db.func("runners._shared.validation.validate_inputs")
    vcfg = ctx.cfg(vi)
    raises = [n for n in vcfg.nodes if n.kind == "stmt" and isinstance(n.ast, ast.Raise) and isinstance(n.ast.exc, ast.Call) and "MissingInputError" in src(n.ast.exc.func)]
    # the missing set: a local defined as <something> - <provided>, whose emptiness is tested
    miss_var = None
    shape = False
    for nm, ds in db.local_defs(vi).items():
        for d in ds:
            if isinstance(d, ast.Assign) and isinstance(d.value, ast.BinOp) and isinstance(d.value.op, ast.Sub) and isinstance(d.value.right, ast.Name):
                # the subtrahend must be the key set of (bound ∪ values)
                pdefs = [x for x in db.local_defs(vi).get(d.value.right.id, []) if isinstance(x, ast.Assign)]
                if pdefs and any("keys()" in src(x.value) or "set(" in src(x.value) for x in pdefs) and any(isinstance(t_, ast.Name) and t_.id == nm for n_ in vcfg.nodes if n_.kind == "test" and n_.ast is not None for t_ in ast.walk(n_.ast)):
                    if "required" in src(d.value.left) or any("required" in src(getattr(x, "value", x)) for x in db.local_defs(vi).get(getattr(d.value.left, "id", ""), [])):
                        miss_var, shape = nm, True
    tests = [n for n in vcfg.nodes if n.kind == "test" and miss_var is not None and any(isinstance(x, ast.Name) and x.id == miss_var for x in ast.walk(n.ast))]
    ok = bool(raises) and bool(tests)
    if ok:
        live = reachable(tests[0], specialize({miss_var: True}))
        ok = vcfg.exit_return not in live and any(r in live for r in raises)
    rep.add("C08.R5", f"{vi.qname}:raises-when-missing", ok and shape, vi.loc(), "a non-empty 'required - provided' set always ends in raise MissingInputError" if ok and shape else "validate_inputs can return normally although a required input is missing")
    cce = db.func("runners._shared.validation._check_cycle_entry")
    ccfg = ctx.cfg(cce)
    from sa.pattern import match

    t_nodes = [n for n in ccfg.nodes if n.kind == "test" and (match("len(_S) == 0", n.ast) is not None or match("not _S", n.ast) is not None)]
    ok = False
    if t_nodes:
        tgt = [x for x, l, _ in t_nodes[0].succ if l == "T"][0]
        live = reachable(tgt)
        ok = any(n.kind == "stmt" and isinstance(n.ast, ast.Raise) and "MissingInputError" in src(n.ast) for n in live) and not reaches(tgt, ccfg.exit_return)
    rep.add("C08.R5", f"{cce.qname}:raises-when-unsatisfied", ok, cce.loc(), "a cycle with no satisfied entry point always raises MissingInputError" if ok else "a cycle with no satisfied entry point is not reported as MissingInputError")

    # ---- R7 ---------------------------------------------------------------------
    fb = db.func("runners._shared.validation._find_bypassed_inputs")
    n7 = 0
    for n in walk_local(fb.node):
        if isinstance(n, ast.Call) and isinstance(n.func, ast.Attribute) and n.func.attr == "add" and isinstance(n.func.value, ast.Name) and "bypass" in n.func.value.id:
            g = enclosing(n, (ast.If,))
            if g is None:
                continue
            n7 += 1
            conj = g.test.values if isinstance(g.test, ast.BoolOp) and isinstance(g.test.op, ast.And) else [g.test]
            subs = [c for c in conj if (isinstance(c, ast.Compare) and isinstance(c.ops[0], ast.LtE)) or (isinstance(c, ast.Call) and isinstance(c.func, ast.Attribute) and c.func.attr == "issubset")]
            ok = bool(subs)
            for c in subs:
                x = c.left if isinstance(c, ast.Compare) else c.func.value
                nonempty = any(src(k) == src(x) or (isinstance(k, ast.Call) and dotted(k.func) in ("len", "bool") and k.args and src(k.args[0]) == src(x)) for k in conj if k is not c)
                if not nonempty:
                    ok = False
            rep.add("C08.R7", f"{fb.qname}:bypass#{n7}", ok, f"{fb.module.rel}:{g.lineno}", "'all outputs provided' is conjoined with 'has such outputs' (the empty set is a subset of anything)" if ok else f"'{src(g.test)[:70]}' holds vacuously for a node without (such) outputs: a gate or side-effect node is marked bypassed and its exclusive required inputs are silently waived")
    if n7 < 2:
        raise AnalysisError("bypass marking sites not found")

    # ---- R8 ---------------------------------------------------------------------
    vi2 = db.func("runners._shared.validation.validate_inputs")
    # validation: provided = keys(bound ∪ values); required := spec.required − bypass(provided)
    merged_has_bound = any(isinstance(n, ast.Assign) and isinstance(n.value, ast.Dict) and any(k is None and "bound" in src(v) for k, v in zip(n.value.keys, n.value.values)) for n in walk_local(vi2.node))
    uses_bypass = any("_find_bypassed_inputs" in call_names(db, c, vi2) for c in db.calls_in(vi2))
    spec_clo = db.closure([cis], property_reads=False)
    spec_knows_bypass = any(g.name == "_find_bypassed_inputs" or "bypass" in g.name for g in spec_clo)
    if merged_has_bound and uses_bypass:
        rep.add(
            "C08.R8",
            f"{cis.qname}:bound-outputs-bypass",
            spec_knows_bypass,
            cis.loc(),
            "the specification applies the validator's bypass reasoning to bound values" if spec_knows_bypass else "validation treats bound values as provided and waives the inputs of producers whose outputs are all provided, but compute_input_spec never consults that reasoning: with an output name bound (Graph([a(x)->y, b(y)]).bind(y=5)) the reported spec still requires 'x', yet run({}) is accepted and run({'x': 1}) is rejected",
        )
    else:
        rep.ok("C08.R8", f"{cis.qname}:bound-outputs-bypass", cis.loc(), "validation does not derive reductions of the required set from bound values")

    # ---- R6 ---------------------------------------------------------------------
    cb = db.func("graph.input_spec._collect_bound_values")
    check_qualifiers(ctx, "C08.R6", only=("_collect_bound_values",))
    rets = [n.value.id for n in walk_local(cb.node) if isinstance(n, ast.Return) and isinstance(n.value, ast.Name)]
    ok = bool(rets)
    why = "every key merged into the specification's bound mapping iterates the wrapper's own inputs"
    for tgt in set(rets):
        for n in walk_local(cb.node):
            key = None
            if isinstance(n, ast.Assign):
                for t in n.targets:
                    if isinstance(t, ast.Subscript) and isinstance(t.value, ast.Name) and t.value.id == tgt:
                        key = t.slice
            elif isinstance(n, ast.Call) and isinstance(n.func, ast.Attribute) and isinstance(n.func.value, ast.Name) and n.func.value.id == tgt and n.func.attr in ("setdefault", "update", "__setitem__"):
                key = n.args[0] if n.args else None
            if key is None:
                continue
            good = False
            if isinstance(key, ast.Name):
                for a in ancestors(n):
                    if isinstance(a, ast.For) and isinstance(a.target, ast.Name) and a.target.id == key.id and isinstance(a.iter, ast.Attribute) and a.iter.attr == "inputs":
                        good = True
            if not good:
                ok, why = False, f"'{src(key)}' at line {n.lineno} is merged into the bound mapping without being one of the wrapper's inputs: an inner binding outside the wrapper's interface makes an unrelated outer input count as provided"
    rep.add("C08.R6", f"{cb.qname}:keys-are-wrapper-inputs", ok, cb.loc(), why)
    check_inner_bound_merge_complete(ctx, "C08.R6")
    check_spec_recomputation_inputs(ctx, "C08.R9")
    check_scope_recomputation_inputs(ctx, "C08.R9")
    check_validation_read_only(ctx, "C08.R9")
    check_effective_spec_not_memoised(ctx, "C08.R9")
    check_explicit_entry_params_checked(ctx, "C08.R10")
    # 'no narrowing' (None) is what "**" and an unset select without a graph selection mean — an explicit list of names
    # is a narrowing even when it names every output (nodes no output depends on, with their private inputs, drop out
    # of the scope and of the reported spec): under 'select was given and is not "**"' no return of the resolver is None
    rrs9 = db.func("runners._shared.validation.resolve_runtime_selected")
    p_sel9 = (rrs9.positional_params + ["select"])[0]
    r9 = ctx.cfg(rrs9)
    val9 = {f"{p_sel9} is _UNSET_SELECT": False, f"{p_sel9} is not _UNSET_SELECT": True, f"{p_sel9} == '**'": False, f"{p_sel9} != '**'": True}
    live9 = reachable(r9.entry, specialize(val9, r9))
    none_rets = [n for n in live9 if n.kind == "stmt" and isinstance(n.ast, ast.Return) and (n.ast.value is None or isinstance(n.ast.value, ast.Constant) and n.ast.value.value is None)]
    rep.add("C08.R9", f"{rrs9.qname}:explicit-selection-narrows", not none_rets, f"{rrs9.module.rel}:{none_rets[0].lineno if none_rets else rrs9.lineno}", "an explicit list of names is always returned as a selection" if not none_rets else f"an explicit run-time selection can be normalised to 'no narrowing' (line {none_rets[0].lineno}): validation then uses the un-narrowed graph.inputs although g.select(...).inputs reports a narrower spec — supplying every reported required input is rejected for a private input of an output-less node")
    check_cycle_decomposition_agrees(ctx, "C08.R10")
    check_single_pass_accumulators(ctx, "C08.R12")
    # ---- R11 --------------------------------------------------------------------
    scope_fs = [db.func("graph.input_spec._compute_active_scope")] + [g_ for g_ in db.closure([db.func("graph.input_spec._compute_active_scope")], property_reads=False) if g_.module.name == "hypergraph.graph.input_spec"]
    seen11 = set()
    for f11 in scope_fs:
        if f11.qname in seen11:
            continue
        seen11.add(f11.qname)
        filt = [x for x in walk_local(f11.node) if isinstance(x, ast.Constant) and x.value in ("edge_type", "ordering", "control", "data")]
        rep.add("C08.R11", f"{f11.qname}:all-edge-kinds", not filt, f"{f11.module.rel}:{filt[0].lineno if filt else f11.lineno}", "reachability over the whole graph (no edge kind is skipped)" if not filt else f"the scope computation distinguishes edge kinds ('{filt[0].value}'): a node the selected producer only waits for drops out of scope, its inputs vanish from the reported specification, and the run with exactly the reported inputs never produces the selected output")


def check_single_pass_accumulators(ctx, rule: str, modules: tuple[str, ...] = ("hypergraph.runners._shared.validation", "hypergraph.graph.input_spec", "hypergraph.graph.validation", "hypergraph.graph._conflict")) -> None:
    """A set/list that one ``for`` loop over the nodes both grows and shrinks ends up depending on the iteration
    order: 'add the inputs of bypassed nodes, remove those other nodes also consume' gives different answers for
    [consumer, bypassed] and [bypassed, consumer].  Two passes (grow, then shrink) are order-independent.
    ``while`` worklists (append + pop until empty) are fixpoint computations and exempt."""
    db, rep = ctx.db, ctx.rep
    GROW = {"add", "update", "append", "extend", "setdefault", "insert"}
    SHRINK = {"discard", "remove", "difference_update", "pop", "clear", "intersection_update", "popitem"}
    n = 0
    for f in db.all_funcs():
        if f.module.name not in modules:
            continue
        n += 1
        bad = []
        for lp in walk_local(f.node):
            if not isinstance(lp, (ast.For, ast.AsyncFor)):
                continue
            g, s_ = {}, {}
            for x in ast.walk(lp):
                if isinstance(x, ast.Call) and isinstance(x.func, ast.Attribute) and isinstance(x.func.value, ast.Name):
                    if x.func.attr in GROW:
                        g.setdefault(x.func.value.id, x)
                    if x.func.attr in SHRINK:
                        s_.setdefault(x.func.value.id, x)
                if isinstance(x, ast.AugAssign) and isinstance(x.target, ast.Name):
                    if isinstance(x.op, (ast.BitOr, ast.Add)):
                        g.setdefault(x.target.id, x)
                    if isinstance(x.op, (ast.Sub, ast.BitAnd)):
                        s_.setdefault(x.target.id, x)
            for v in sorted(set(g) & set(s_)):
                # a nested while-worklist inside the for loop is still exempt
                if any(isinstance(w, ast.While) and any(isinstance(y, ast.Name) and y.id == v for y in ast.walk(w.test)) for w in ast.walk(lp)):
                    continue
                bad.append((lp, v))
        rep.add(rule, f"{f.qname}:no-grow-and-shrink-in-one-pass", not bad, f"{f.module.rel}:{bad[0][0].lineno if bad else f.lineno}", "no accumulator is both extended and reduced within one loop" if not bad else f"'{bad[0][1]}' is both extended and reduced inside the loop at line {bad[0][0].lineno}: the result depends on the order the nodes were listed in (a required input shared with a node listed earlier is waived)")
    if n < 15:
        raise AnalysisError(f"only {n} functions scanned")


def check_cycle_decomposition_agrees(ctx, rule: str) -> None:
    """Writer (graph/input_spec._compute_entrypoints) and reader (validation._group_entrypoints_by_scc) of the
    entry-point table use the same partition of the graph into cycles: nx.strongly_connected_components of
    _data_only_subgraph(...).  With any finer partition (simple cycles) two loops sharing a node form two groups
    and supplying one listed entry point's parameters is rejected for the other group."""
    db, rep = ctx.db, ctx.rep
    w = db.func("graph.input_spec._compute_entrypoints")
    r = db.func("runners._shared.validation._group_entrypoints_by_scc")

    def scc_vars(f):
        dvars = set(vars_from_call(db, f, {"_data_only_subgraph"}))
        out = set()
        for nm, ds in db.local_defs(f).items():
            for d in ds:
                v = getattr(d, "value", None)
                if v is None:
                    continue
                for c in ast.walk(v):
                    if isinstance(c, ast.Call) and (dotted(c.func) or "").endswith("strongly_connected_components") and c.args and isinstance(c.args[0], ast.Name) and c.args[0].id in dvars:
                        out.add(nm)
        return out

    wv, rv = scc_vars(w), scc_vars(r)
    okw = bool(wv) and any(isinstance(lp, ast.For) and any(isinstance(x, ast.Name) and x.id in wv for x in ast.walk(lp.iter)) for lp in walk_local(w.node))
    rep.add(rule, f"{w.qname}:per-scc", okw, w.loc(), "entry points are listed per strongly connected component of the data-only graph" if okw else "the specification no longer lists entry points per strongly connected component of the data-only graph")
    okr = bool(rv)
    if okr:
        # the node -> group index is filled from that decomposition
        fills = [lp for lp in walk_local(r.node) if isinstance(lp, ast.For) and any(isinstance(x, ast.Name) and x.id in rv for x in ast.walk(lp.iter))]
        other = [c for c in db.calls_in(r) if (dotted(c.func) or "").split(".")[-1] in ("simple_cycles", "cycle_basis", "find_cycle", "weakly_connected_components", "condensation")]
        okr = bool(fills) and not other
    rep.add(rule, f"{r.qname}:same-decomposition", okr, r.loc(), "supplied entry points are grouped by the same strongly connected components" if okr else "supplied entry points are grouped by a different decomposition than the one the specification lists them by (e.g. simple cycles): for two loops sharing a node, one listed entry point's parameters no longer satisfy 'one entry point per cycle' — a sufficient input set is rejected")


def check_default_existential(ctx, rule: str) -> None:
    """A parameter is optional iff *some* consumer offers a default (a wrapper counts inner bound values
    as defaults, so the all-or-none rule of signature defaults does not make consumers interchangeable):
    the test quantifies over every consuming node."""
    db, rep = ctx.db, ctx.rep
    f = db.func("graph.input_spec._any_node_has_default")
    pn = (f.param_names + ["", ""])
    p_param, p_nodes = pn[0], pn[1]

    def over_all_nodes(it: ast.AST) -> bool:
        t = src(it)
        return t in (f"{p_nodes}.values()", p_nodes, f"{p_nodes}.items()")

    def mentions_default(e: ast.AST) -> bool:
        return any(isinstance(x, ast.Call) and isinstance(x.func, ast.Attribute) and x.func.attr == "has_default_for" for x in ast.walk(e))

    ok, why = False, "the test does not quantify over all consuming nodes"
    rets = [n for n in walk_local(f.node) if isinstance(n, ast.Return) and n.value is not None]
    for r in rets:
        v = r.value
        if isinstance(v, ast.Call) and dotted(v.func) in ("any", "bool") and len(v.args) == 1 and isinstance(v.args[0], (ast.GeneratorExp, ast.ListComp)):
            g = v.args[0]
            if len(g.generators) == 1 and over_all_nodes(g.generators[0].iter) and (mentions_default(g.elt) or any(mentions_default(c) for c in g.generators[0].ifs)):
                ok, why = True, "any(... for node in nodes.values()): some consumer has a default"
    if not ok:
        for lp in [n for n in walk_local(f.node) if isinstance(n, ast.For) and over_all_nodes(n.iter)]:
            inner_true = [x for x in ast.walk(lp) if isinstance(x, ast.Return) and isinstance(x.value, ast.Constant) and x.value.value is True]
            has_break = any(isinstance(x, ast.Break) for x in ast.walk(lp))
            tail_false = any(isinstance(r.value, ast.Constant) and r.value.value is False and not contains(lp, r) for r in rets)
            if inner_true and tail_false and not has_break and any(mentions_default(x) for x in ast.walk(lp)) and all(isinstance(r.value, ast.Constant) for r in rets):
                ok, why = True, "loop over all nodes returning True at the first consumer with a default"
    rep.add(rule, f"{f.qname}:some-consumer-has-default", ok, f.loc(), why if ok else f"{why} (e.g. only the first consumer is asked): a nested graph that binds the parameter counts as a default, so required/optional would depend on node order and differ from the flat graph")


def check_spec_recomputation_inputs(ctx, rule: str) -> None:
    """Every call of compute_input_spec is fed the graph's own raw state — the same attributes the
    cached Graph.inputs passes (nodes, nx graph, the graph's *own* bindings, entry points)."""
    db, rep = ctx.db, ctx.rep
    cis = db.func("graph.input_spec.compute_input_spec")
    g = db.cls("graph.core.Graph")
    ref_f = g.methods["inputs"]
    ref = None
    sites = []
    for f in db.all_funcs():
        for c in db.calls_in(f):
            if cis.name in call_names(db, c, f):
                b = bind_args(c, cis)
                sites.append((f, c, b))
                if f is ref_f:
                    ref = b
    if ref is None or len(sites) < 2:
        raise AnalysisError("compute_input_spec call sites not found")
    def attr_of(e):
        return e.attr if isinstance(e, ast.Attribute) else None
    for f, c, b in sites:
        if f is ref_f:
            continue
        diffs = []
        for p in ("nodes", "nx_graph", "bound", "entrypoints"):
            pa = [k for k in ref if k == p or k.startswith(p)]
            for k in pa:
                if k in b and attr_of(ref[k]) is not None and attr_of(b[k]) != attr_of(ref[k]):
                    diffs.append(f"{k}: '{src(b[k])}' (Graph.inputs passes '.{attr_of(ref[k])}')")
        ok = not diffs
        rep.add(rule, f"{f.qname}:compute_input_spec-arguments", ok, f"{f.module.rel}:{c.lineno}", "recomputation receives the graph's own nodes, nx graph, direct bindings and entry points" if ok else f"the specification is recomputed from different state than the cached one — {'; '.join(diffs)}: e.g. the merged inputs.bound contains bindings of nested graphs that are outside a narrower selection, so an omitted required input is accepted")


def check_validation_read_only(ctx, rule: str) -> None:
    """Validation has no write or mutation effect on the graph it validates against (effects engine, followed through
    call results that alias the graph's cached input spec)."""
    db, rep = ctx.db, ctx.rep
    # validation reads the reported specification, it never writes it: what one run was given must not end up in the
    # graph's cached input spec (the next run would find its required inputs 'provided' and be accepted without them)
    from sa.effects import Effects, fmt_effect

    E9 = Effects(db)
    vi9 = db.func("runners._shared.validation.validate_inputs")
    gp9 = (vi9.positional_params + ["graph"])[0]
    ws9 = [e for e in E9.writes(vi9, gp9, include_unknown=False) if not (e.kind == "write" and len(e.path) == 1 and "via property hypergraph.graph.core.Graph." in e.detail)]
    rep.add(rule, f"{vi9.qname}:read-only-on-graph", not ws9, vi9.loc(), "validation has no write or mutation effect on the graph or its cached input spec" if not ws9 else f"validation changes the graph it validates against: {fmt_effect(ws9[0])} — run-time values accumulate in graph.inputs.bound, and a later run that omits a required input is accepted (and silently reuses the earlier value)")


def check_scope_recomputation_inputs(ctx, rule: str) -> None:
    """Every computation of the active scope receives both configuration dimensions on every call: the entry points
    (the graph's own, or the ones handed to compute_input_spec) and the selection.  A scope computed without the
    entry points re-activates the nodes upstream of them: their outputs — the true required inputs — then look
    edge-produced and their own inputs look required."""
    db, rep = ctx.db, ctx.rep
    cas = db.func("graph.input_spec._compute_active_scope")
    n = 0
    for f in db.all_funcs():
        for c in db.calls_in(f):
            if cas.name not in call_names(db, c, f) or f is cas:
                continue
            n += 1
            b = bind_args(c, cas) or {}
            miss = []
            ep = b.get("entrypoints")
            if ep is None or not ("entrypoints" in src(ep)):
                miss.append("entry points")
            from .common import enclosing_facts, is_none_fact

            none_here = {src(x) for a_, pol in enclosing_facts(c) for x in [is_none_fact(a_, pol)] if x is not None}
            if ep is None and any("entrypoints" in t_ for t_ in none_here):
                miss = []  # no entry points are configured on this path
            sel_names = [p_ for p_ in f.param_names if "select" in p_]
            if b.get("selected") is None and not (set(sel_names) & none_here):
                miss.append("selection")
            rep.add(rule, f"{f.qname}:active-scope-arguments#{n}", not miss, f"{f.module.rel}:{c.lineno}", "the scope is computed from the entry points and the selection" if not miss else f"this computation of the active scope is not given the {' and the '.join(miss)}: with with_entrypoint(...) plus a run-time select the nodes upstream of the entry points count as active again — the reported required inputs are rejected ('cannot mix compute and inject') and omitting one is accepted")
    if n < 2:
        raise AnalysisError(f"only {n} active-scope computations found")


def check_inner_bound_merge_complete(ctx, rule: str) -> None:
    """Every GraphNode's inherited bound values are merged: the merge is guarded by the node kind only."""
    from .common import must_reach_in_iteration

    db, rep = ctx.db, ctx.rep
    cb = db.func("graph.input_spec._collect_bound_values")
    cfg = ctx.cfg(cb)
    outer = [n for n in cfg.nodes if n.kind == "for" and "nodes" in src(n.ast.iter) and enclosing(n.ast, (ast.For,)) is None]
    inner = [n for n in cfg.nodes if n.kind == "for" and isinstance(n.ast.iter, ast.Attribute) and n.ast.iter.attr == "inputs"]
    val = {}
    for t in cfg.nodes:
        if t.kind == "test" and t.ast is not None:
            for c in ast.walk(t.ast):
                if isinstance(c, ast.Call) and dotted(c.func) == "isinstance" and "GraphNode" in src(c):
                    val[src(c)] = True
    ok = bool(outer) and bool(inner) and bool(val) and must_reach_in_iteration(cfg, outer[0], inner, val)
    # the inner bound mapping consulted is the inherited one (inputs.bound), not the wrapper graph's direct bindings
    uses_spec = any(isinstance(n, ast.Attribute) and n.attr == "bound" and isinstance(n.value, ast.Attribute) and n.value.attr == "inputs" for n in walk_local(cb.node))
    # the graph's own bound values are carried over in full: the returned mapping starts as an
    # unfiltered copy of the `bound` parameter and nothing is ever removed from it
    bp = (cb.param_names + ["", ""])[1]
    rets = [n.value for n in walk_local(cb.node) if isinstance(n, ast.Return) and n.value is not None]
    full = False
    why_full = "the result does not start as a full copy of the graph's own bound values"
    if rets and all(isinstance(r, ast.Name) for r in rets):
        acc = rets[0].id
        defs = db.local_defs(cb).get(acc, [])
        inits = [d.value for d in defs if isinstance(d, (ast.Assign, ast.AnnAssign)) and d.value is not None]
        def is_full_copy(v: ast.AST) -> bool:
            if isinstance(v, ast.Call) and dotted(v.func) in ("dict", "copy.copy") and len(v.args) == 1 and src(v.args[0]) == bp and not v.keywords:
                return True
            if isinstance(v, ast.Call) and isinstance(v.func, ast.Attribute) and v.func.attr == "copy" and src(v.func.value) == bp:
                return True
            if isinstance(v, ast.Dict) and any(k is None and src(x) == bp for k, x in zip(v.keys, v.values)):
                return True
            if isinstance(v, ast.DictComp) and len(v.generators) == 1 and not v.generators[0].ifs and src(v.generators[0].iter) == f"{bp}.items()" and isinstance(v.generators[0].target, ast.Tuple) and [src(e) for e in v.generators[0].target.elts] == [src(v.key), src(v.value)]:
                return True
            return False
        full = len(inits) == 1 and is_full_copy(inits[0])
        removed = [x for x in walk_local(cb.node) if (isinstance(x, ast.Delete) and any(isinstance(t, ast.Subscript) and src(t.value) == acc for t in x.targets)) or (isinstance(x, ast.Call) and isinstance(x.func, ast.Attribute) and x.func.attr in ("pop", "popitem", "clear") and src(x.func.value) == acc)]
        if full and removed:
            full, why_full = False, "entries are removed from the merged bound mapping"
    rep.add(rule, f"{cb.qname}:own-bound-values-complete", full, cb.loc(), "every value bound on the graph itself is in the mapping the runners resolve BOUND values from (scope narrowing by select/entry points never drops a binding)" if full else f"{why_full}: a node outside the default selection still runs, but would no longer see its bound value (signature default wins, or the node never becomes ready)")
    rep.add(rule, f"{cb.qname}:every-wrapper-merged", ok and uses_spec, cb.loc(), "for every nested-graph node the inherited bound values (inner inputs.bound) are merged — the only guard is the node kind" if ok and uses_spec else "inner bound values are merged only under an additional condition (or from the wrapper graph's direct bindings): bindings inherited from deeper nesting levels stop surfacing and a ready node finds no value")


IS = "src/hypergraph/graph/input_spec.py"
VA = "src/hypergraph/runners/_shared/validation.py"
TS = "src/hypergraph/runners/_shared/template_sync.py"
TA = "src/hypergraph/runners/_shared/template_async.py"
CORE = "src/hypergraph/graph/core.py"
VARIANTS = [
    Variant("first-consumer-decides-default", IS, replace_once("    return any(param in node.inputs and node.has_default_for(param) for node in nodes.values())", "    consumer = next((node for node in nodes.values() if param in node.inputs), None)\n    return consumer is not None and consumer.has_default_for(param)"), {"C08.R4"}),
    Variant("twin-default-existential-as-loop", IS, replace_once("    return any(param in node.inputs and node.has_default_for(param) for node in nodes.values())", "    for node in nodes.values():\n        if param in node.inputs and node.has_default_for(param):\n            return True\n    return False"), set()),
    Variant("dispatcher-before-validate-async", TA, sub_first(r"(        validate_runner_compatibility\(graph, self\.capabilities\)\n        validate_node_types\(graph, self\.supported_node_types\)\n        effective_selected = resolve_runtime_selected\(select, graph\)\n        validate_inputs\(.*?\n        \)\n        _validate_on_missing\(on_missing\)\n        _validate_error_handling\(error_handling\)\n\n        max_iter = max_iterations or self\.default_max_iterations\n)        dispatcher = self\._create_dispatcher\(event_processors\)\n", r"        dispatcher = self._create_dispatcher(event_processors)\n\1"), {"C08.R1"}),
    Variant("validation-probes-node-function", VA, replace_once("    _validate_on_internal_override(on_internal_override)\n", "    _validate_on_internal_override(on_internal_override)\n    for _n in graph._nodes.values():\n        if not _n.inputs and hasattr(_n, \"func\"):\n            _n.func()\n"), {"C08.R2"}),
    Variant("both-categories", IS, replace_once("        if category == \"required\":\n            required.append(param)\n        elif category == \"optional\":\n            optional.append(param)", "        if category == \"required\":\n            required.append(param)\n        if category is not None:\n            optional.append(param)"), {"C08.R3"}),
    Variant("entry-params-not-skipped", IS, replace_once("        if param in all_entry_params:\n            continue  # Handled by entrypoints\n", ""), {"C08.R3"}),
    Variant("categorise-ignores-bound", IS, replace_once("    if param in bound or _any_node_has_default(param, nodes):", "    if _any_node_has_default(param, nodes):"), {"C08.R4"}),
    Variant("unbind-keeps-spec", CORE, replace_once("        new_graph.__dict__.pop(\"inputs\", None)\n        # _selected and _entrypoints", "        # _selected and _entrypoints"), {"C08.R4"}),
    Variant("missing-only-warns", VA, replace_once("    raise MissingInputError(\n        missing=sorted(missing_required),\n        provided=list(provided),\n        message=message,\n    )\n\n\ndef _validate_cycle_entry", "    import warnings\n\n    warnings.warn(message, stacklevel=3)\n\n\ndef _validate_cycle_entry"), {"C08.R5"}),
    Variant("bypass-vacuous-subset", VA, replace_once("        non_cycle_outputs = set(node.outputs) - cycle_ep_params\n        if non_cycle_outputs and non_cycle_outputs <= provided:", "        non_cycle_outputs = set(node.outputs) - cycle_ep_params\n        if non_cycle_outputs <= provided:"), {"C08.R7"}),
    Variant("inner-bound-by-inner-keys", IS, replace_once("            for outer_name in node.inputs:\n                key = node._resolve_original_input_name(outer_name)\n                if key in inner_bound and outer_name not in all_bound:\n                    all_bound[outer_name] = inner_bound[key]", "            for key, value in inner_bound.items():\n                all_bound.setdefault(key, value)"), {"C08.R6"}),
]

"""C12 Events of every terminated run form a complete, well-nested span tree."""

from __future__ import annotations

import ast

from sa.cfg import ALL_GROUPS, CFG, G_BASE, G_EXC, G_PAUSE, N, all_paths_pass, both, dominators, eval_test, find_path, fmt_path, reachable, reaches, specialize, test_atoms
from sa.db import AnalysisError, FuncInfo, bind_args, dotted, src, walk_local
from sa.flow import _Proj, assigned_names, defs_reaching, forward_states, reaching_defs
from sa.model import contains, enclosing, execute_impl_funcs, superstep_funcs, template_classes
from sa.summaries import NoRaise
from sa.variants import Variant, replace_once, sub_first, sub_once

from .common import RUNNER_NO_RAISE_TEXT, call_names, flag_locals, runner_no_raise, template_methods

ID = "C12"
EXPLANATION = (
    "Decides span pairing as a typestate property over all CFG paths (with exception edges): (R1) in both supersteps, with a processor registered, "
    "every path through a node's region emits NodeStart first and exactly one NodeEnd/NodeError carrying the span id produced by that path's start "
    "builder before the region is left normally or by an Exception, and cache-hit/route events only inside the open span; (R2) in run/map of both "
    "templates every return and every Exception exit after the run-start emission passes exactly one run-end emission, the error path passes the "
    "handled error and the normal path does not; (R3) dispatcher shutdown sits in a finally guarded by 'top-level call', and every internal run/map "
    "call hands down a parent span; (R4) the node span id is published to the executor closure with no suspension point in between, in both runners; "
    "(R5) nothing observable happens before input validation; (R6) a step's gather waits for all siblings. R5 also requires that every option check run() applies up front to a parameter map() forwards unchanged is applied by map() itself before the map-level span is opened; R6 extends to every gather of the runners: it collects exceptions, or no explicit raise escapes from the gathered coroutines (followed into sibling closures)."
    " R2 also requires that every builder of a RunEnd event decides the status by the presence of the handed-in exception (the parameter itself, or 'is None' tests on it, looked through single-assignment locals) — not by its message or anything else derived from it."
    " R1 also requires that span ids are not drawn from the process-global random generator."
    " (R7) every event leaves through the channel that reaches every processor: inside a coroutine the dispatcher's async methods are used and awaited, inside a plain function the sync ones (the sync emit calls on_event only, so an async-only processor would never see the event that closes a span)."
)
NOT_DECIDED = "Timestamps and payload fields of events beyond span ids/status; that processors see events in wall-clock order across concurrently running siblings; paused runs (emit no RunEnd by design)."


def _builder_of(db, cfg: CFG, rd, n: N, e: ast.AST) -> str | None:
    if isinstance(e, ast.Call):
        names = call_names(db, e, cfg.func)
        return sorted(names)[0] if names else None
    if isinstance(e, ast.Name):
        found = set()
        for d, v in defs_reaching(cfg, rd, n, e.id):
            if isinstance(v, _Proj):
                v = v.value
            if isinstance(v, ast.Call):
                found |= call_names(db, v, cfg.func)
            else:
                found.add("?")
        if len(found) == 1:
            return found.pop()
    return None


NODE_EVENTS = {
    "build_node_start_event": "START",
    "build_node_end_event": "CLOSE",
    "build_node_error_event": "CLOSE",
    "build_cache_hit_event": "INSIDE",
    "build_route_decision_event": "INSIDE",
}


def _emit_events(db, cfg: CFG, rd, n: N, table: dict[str, str]) -> list[tuple[str, ast.Call, str]]:
    disp = db.cls("events.dispatcher.EventDispatcher")
    out = []
    for c in cfg.calls_at(n):
        if any(cal.func is not None and cal.func.cls == disp and cal.func.name in ("emit", "emit_async") for cal in db.resolve_call(c, cfg.func)) and c.args:
            b = _builder_of(db, cfg, rd, n, c.args[0])
            if b in table:
                out.append((table[b], c, b))
            else:
                out.append(("UNKNOWN", c, b or src(c.args[0])))
    return out


def _typestate(cfg: CFG, start: N, ef, events_at):
    def transfer(n: N, s: frozenset) -> frozenset:
        if n.kind == "handler" and any(h.split(".")[-1] == "PauseExecution" for h in n.handler_names):
            return frozenset()  # a paused run is outside the property
        cur = set(s)
        for ev in events_at(n):
            nxt = set()
            for st in cur:
                if st.startswith("ERR"):
                    nxt.add(st)
                elif ev == "START":
                    nxt.add("started" if st == "idle" else f"ERR:second start event at line {n.lineno} in state {st}")
                elif ev == "CLOSE":
                    nxt.add("closed" if st == "started" else f"ERR:end/error event at line {n.lineno} in state {st}")
                elif ev == "INSIDE":
                    nxt.add(st if st == "started" else f"ERR:event at line {n.lineno} outside an open span (state {st})")
                else:
                    nxt.add(st)
            cur = nxt
        return frozenset(cur)

    IN: dict[N, frozenset] = {start: frozenset({"idle"})}
    work = [start]
    while work:
        n = work.pop()
        s_in = IN[n]
        s_out = transfer(n, s_in)
        for t, l, i in n.succ:
            if ef is not None and not ef(n, t, l, i):
                continue
            s = s_in if l == "exc" else s_out
            if n.kind == "handler" and not s_out:
                s = frozenset()
            old = IN.get(t)
            new = s if old is None else (old | s)
            if old is None or new != old:
                IN[t] = new
                work.append(t)
    return IN, transfer


def _exc_edge_states(cfg: CFG, IN, ef, target: N):
    """(source node, atoms, states) for exception edges into ``target``."""
    out = []
    for p, l, i in target.pred:
        if p not in IN or (ef is not None and not ef(p, target, l, i)):
            continue
        if l == "exc":
            out.append((p, i, IN[p]))
    return out


def _is_exc(atoms) -> bool:
    return G_EXC in atoms or any(a.startswith("cls:") for a in atoms)


def check_delivery_channel(ctx, rule: str) -> None:
    """The dispatcher's sync method calls on_event only, the async one calls on_event_async where a processor has it:
    an event sent through the sync method from a coroutine never reaches an async-only processor, so its span is never
    closed for that processor (and the other way round a coroutine would never be awaited)."""
    db, rep = ctx.db, ctx.rep
    disp = db.cls("events.dispatcher.EventDispatcher")
    pairs = {"emit": "emit_async", "shutdown": "shutdown_async"}
    n = 0
    for f in db.funcs_in("runners"):
        per: dict[str, int] = {}
        for c in db.calls_in(f):
            tg = [cal.func for cal in db.resolve_call(c, f) if cal.func is not None and cal.func.cls == disp and cal.func.name in set(pairs) | set(pairs.values())]
            if not tg:
                continue
            name = tg[0].name
            n += 1
            k = per[name] = per.get(name, 0) + 1
            # the coroutine context is that of the innermost function holding the call
            in_async = f.is_async
            awaited = isinstance(getattr(c, "_parent", None), ast.Await)
            if in_async:
                ok = name in pairs.values() and awaited
                why = "awaited async delivery inside a coroutine" if ok else (f"'{src(c)[:70]}' inside 'async def {f.name}' uses the sync method, which calls on_event only: a processor that implements only on_event_async never receives this event — its node/run span stays open while the run ends" if name in pairs else f"'{src(c)[:70]}' is not awaited: the delivery coroutine is never run")
            else:
                ok = name in pairs
                why = "sync delivery inside a plain function" if ok else f"'{src(c)[:70]}' in the plain function '{f.name}' creates a coroutine nobody awaits: the event is never delivered"
            rep.add(rule, f"{f.qname}:{name}#{k}", ok, f"{f.module.rel}:{c.lineno}", why)
    if n < 20:
        raise AnalysisError(f"only {n} dispatcher deliveries found in the runners")


def run(ctx) -> None:
    db, rep = ctx.db, ctx.rep
    rep.rule("C12.R1", "node span typestate: start first, exactly one end/error with the same span id on every normal/Exception exit of a node's region", floor=6)
    rep.rule("C12.R2", "run span typestate: after run-start every return / Exception exit passes exactly one run-end; error path passes the handled error", floor=8)
    rep.rule("C12.R3", "shutdown once: in finally, guarded by top-level; internal run/map calls pass a parent span", floor=8)
    rep.rule("C12.R4", "node span id is published to the executor closure without an intervening suspension point", floor=4)
    rep.rule("C12.R5", "run/map emit nothing before validation has accepted the call", floor=4)
    rep.rule("C12.R6", "a gather collects exceptions, or no explicit raise escapes from the gathered coroutines (all siblings are awaited before an error surfaces)", floor=3)
    rep.rule("C12.R7", "every event leaves through the channel that reaches every processor: coroutines deliver with the awaited async method, plain functions with the sync one", floor=20)
    check_delivery_channel(ctx, "C12.R7")
    # ... and each processor's delivery of an event is complete before the next event (and before shutdown) goes out:
    # every processor call is awaited inside its own guard, one after the other (a gathered fan-out returns at the first
    # failure while a healthy processor's delivery is still running — its RunEnd arrives after shutdown)
    from .c13 import check_delivery_guarded

    check_delivery_guarded(ctx, "C12.R7")
    rep.assume(RUNNER_NO_RAISE_TEXT)
    base = runner_no_raise(db)
    nr = NoRaise(db, base)
    pred = nr.predicate()

    # ---- R1 -------------------------------------------------------------------
    collect = db.func("runners._shared.helpers.collect_inputs_for_node")
    for ss in superstep_funcs(db):
        # the per-node region: the closure that collects inputs, or the loop body that does
        region_f = ss
        for ch in ss.children.values():
            if any(cal.func == collect for _, cal in db.callees(ch)):
                region_f = ch
        cfg = ctx.cfg(region_f, pred)
        rd = reaching_defs(cfg)
        flags = flag_locals(region_f, "active")
        if not flags:
            raise AnalysisError(f"{ss.qname}: the flag that guards emission (a local read from <dispatcher>.active) was not found")
        ef = specialize({fl: True for fl in flags})
        cache = {}

        def events_at(n: N, cfg=cfg, rd=rd, cache=cache):
            if n.id not in cache:
                cache[n.id] = [e for e, _, _ in _emit_events(db, cfg, rd, n, NODE_EVENTS)]
            return cache[n.id]

        if region_f is ss:
            loop = None
            for n in cfg.nodes:
                if n.kind == "for" and any(any(cal.func == collect for cal in db.resolve_call(c, ss)) for st in n.ast.body for c in ast.walk(st) if isinstance(c, ast.Call)):
                    loop = n
            if loop is None:
                raise AnalysisError(f"{ss.qname}: per-node loop not found")
            start = [t for t, l, _ in loop.succ if l == "T"][0]
            normal_exit = loop
        else:
            start = cfg.entry
            normal_exit = cfg.exit_return
            loop = None
        # restrict to the region: do not flow through the loop header again
        def region_ef(a, b, l, i, ef=ef, loop=loop):
            if loop is not None and a is loop:
                return False
            return ef(a, b, l, i)

        IN, transfer = _typestate(cfg, start, region_ef, events_at)
        inst_base = region_f.qname
        # normal exit
        st_norm = IN.get(normal_exit, frozenset())
        bad = [s for s in st_norm if s != "closed"]
        n_events = sum(len(events_at(n)) for n in cfg.nodes)
        if n_events < 4:
            raise AnalysisError(f"{inst_base}: only {n_events} node-event emissions recognised")
        rep.add(
            "C12.R1",
            f"{inst_base}:normal-exit",
            not bad and bool(st_norm),
            f"{region_f.module.rel}:{region_f.lineno}",
            "every normal path through the node region ends with the span closed" if not bad and st_norm else f"node region can be left normally in state(s) {sorted(bad) or 'unreachable'}",
        )
        badx = []
        for p, atoms, states in _exc_edge_states(cfg, IN, region_ef, cfg.exit_raise):
            if not _is_exc(atoms):
                continue
            for s in states:
                if s not in ("idle", "closed"):
                    badx.append((p, s))
        rep.add(
            "C12.R1",
            f"{inst_base}:exception-exit",
            not badx,
            f"{region_f.module.rel}:{badx[0][0].lineno if badx else region_f.lineno}",
            "every Exception exit leaves the span closed or never opened" if not badx else f"an Exception can leave the node region at line {badx[0][0].lineno} in state {badx[0][1]} ({len(badx)} exit(s))",
        )
        # span identity of each closing / inside event
        start_defs = [n for n in cfg.nodes if any("build_node_start_event" in call_names(db, c, region_f) for c in cfg.calls_at(n))]
        for n in cfg.nodes:
            for ev, call, b in _emit_events(db, cfg, rd, n, NODE_EVENTS):
                if ev == "UNKNOWN":
                    rep.bad("C12.R1", f"{inst_base}:emit:{b}", f"{region_f.module.rel}:{n.lineno}", "emission of an event this check cannot classify inside a node region")
                    continue
                if b in ("build_node_start_event", "build_route_decision_event"):
                    continue
                bcall = call.args[0]
                if isinstance(bcall, ast.Name):
                    for d, v in defs_reaching(cfg, rd, n, bcall.id):
                        if isinstance(v, ast.Call):
                            bcall = v
                okid = False
                detail = "span id argument not found"
                if isinstance(bcall, ast.Call):
                    g = db.resolve_call(bcall, region_f)
                    tgt = next((c.func for c in g if c.func is not None), None)
                    if tgt is not None:
                        a = bind_args(bcall, tgt).get("node_span_id")
                        if isinstance(a, ast.Name):
                            ds = defs_reaching(cfg, rd, n, a.id)
                            okid = bool(ds) and all(d in start_defs for d, _ in ds)
                            detail = f"span id {a.id} defined at line(s) {[d.lineno for d, _ in ds]}"
                rep.add("C12.R1", f"{inst_base}:span-id:{b}@{_pos(cfg, n)}", okid, f"{region_f.module.rel}:{n.lineno}", "event carries the span id of this path's NodeStart" if okid else f"event does not carry this path's NodeStart span id ({detail})")

    # ---- R2 -------------------------------------------------------------------
    RUN_EVENTS = {"START": {"_emit_run_start_sync", "_emit_run_start_async"}, "CLOSE": {"_emit_run_end_sync", "_emit_run_end_async"}}
    for name in ("run", "map"):
        for m in template_methods(db, name):
            cfg = ctx.cfg(m, pred)

            def events_at(n: N, cfg=cfg, m=m):
                evs = []
                for c in cfg.calls_at(n):
                    nm = call_names(db, c, m)
                    if nm & RUN_EVENTS["START"]:
                        evs.append("START")
                    elif nm & RUN_EVENTS["CLOSE"]:
                        evs.append("CLOSE")
                return evs

            IN, _ = _typestate(cfg, cfg.entry, None, events_at)
            n_start = sum(1 for n in cfg.nodes if "START" in events_at(n))
            n_close = sum(1 for n in cfg.nodes if "CLOSE" in events_at(n))
            if n_start < 1 or n_close < 2:
                raise AnalysisError(f"{m.qname}: run-start/run-end emission sites not recognised ({n_start}/{n_close})")
            st_ret = IN.get(cfg.exit_return, frozenset())
            bad = [s for s in st_ret if s not in ("closed", "idle")]
            rep.add("C12.R2", f"{m.qname}:return", not bad, f"{m.module.rel}:{m.lineno}", "every return after run-start has passed exactly one run-end" if not bad else f"a return is reachable in state(s) {sorted(bad)}")
            badx = []
            for p, atoms, states in _exc_edge_states(cfg, IN, None, cfg.exit_raise):
                if not _is_exc(atoms):
                    continue
                for s in states:
                    if s not in ("idle", "closed"):
                        badx.append((p, s))
            if not badx:
                rep.ok("C12.R2", f"{m.qname}:exception-exit", f"{m.module.rel}:{m.lineno}", "every Exception exit after run-start has passed exactly one run-end")
            seen_x = set()
            for p, s in badx:
                what = "+".join(sorted({nm for c in cfg.calls_at(p) for nm in call_names(db, c, m)})) or p.kind
                if (what, s) in seen_x:
                    continue
                seen_x.add((what, s))
                rep.bad(
                    "C12.R2",
                    f"{m.qname}:exception-exit:{what}",
                    f"{m.module.rel}:{p.lineno}",
                    f"an Exception raised by '{what}' (line {p.lineno}) leaves {m.name}() in state '{s}': RunStart was emitted, no RunEnd follows",
                    witness=fmt_path(find_path(cfg.entry, p)),
                )
            # start dominates execution
            dom = dominators(cfg.entry)
            starts = {n for n in cfg.nodes if "START" in events_at(n)}
            exec_names = {"_execute_graph_impl", "_execute_graph_impl_async"} if name == "run" else {"run", "_run_map_item"}
            for n in cfg.nodes:
                for c in cfg.calls_at(n):
                    if call_names(db, c, m) & exec_names and n in dom:
                        ok = bool(dom[n] & starts)
                        rep.add("C12.R2", f"{m.qname}:start-before:{sorted(call_names(db, c, m) & exec_names)[0]}", ok, f"{m.module.rel}:{n.lineno}", "run-start emission dominates execution" if ok else "execution can begin without a run-start emission")
            # error= on the handler path only
            for n in cfg.nodes:
                for c in cfg.calls_at(n):
                    if call_names(db, c, m) & RUN_EVENTS["CLOSE"]:
                        h = enclosing(c, (ast.ExceptHandler,))
                        kw = {k.arg: k.value for k in c.keywords}
                        if h is None:
                            ok = "error" not in kw or (isinstance(kw["error"], ast.Constant) and kw["error"].value is None)
                            rep.add("C12.R2", f"{m.qname}:end-status:normal@{_pos(cfg, n)}", ok, f"{m.module.rel}:{n.lineno}", "normal path reports completed" if ok else "normal path passes an error to run-end")
                        else:
                            ok = False
                            if "error" in kw and h.name:
                                rd = reaching_defs(cfg)
                                names = {h.name}
                                e = kw["error"]
                                if isinstance(e, ast.Name):
                                    if e.id == h.name:
                                        ok = True
                                    else:
                                        ok = True
                                        for d, v in defs_reaching(cfg, rd, n, e.id):
                                            if v is None or not any(isinstance(x, ast.Name) and x.id == h.name for x in ast.walk(v)):
                                                ok = False
                            rep.add("C12.R2", f"{m.qname}:end-status:error@{_pos(cfg, n)}", ok, f"{m.module.rel}:{n.lineno}", "error path reports the handled exception" if ok else "run-end on the error path does not carry the handled exception")

    # the status a RunEnd carries is decided by whether an exception was handed in, not by anything derived
    # from it (its message, its args): a failure whose exception has an empty message is still a failure
    from sa.cfg import single_defs

    n_builders = 0
    for f in db.funcs_in("hypergraph.runners"):
        for c in db.calls_in(f):
            if (dotted(c.func) or "").split(".")[-1] != "RunEndEvent":
                continue
            kw = {k.arg: k.value for k in c.keywords}
            if "status" not in kw:
                continue
            n_builders += 1
            defs = single_defs(ctx.cfg(f))

            def look(e, depth=0):
                while isinstance(e, ast.Name) and e.id in defs and depth < 4:
                    e, depth = defs[e.id], depth + 1
                return e

            st = look(kw["status"])
            why = None
            if not isinstance(st, ast.IfExp):
                why = f"status is not chosen by a conditional on the handed-in exception ('{src(st)[:50]}')"
            else:
                def atoms_of(e, depth=0):
                    out_ = []
                    for a_ in test_atoms(look(e)):
                        if isinstance(a_, ast.Name) and a_.id in defs and depth < 4:
                            out_ += atoms_of(a_, depth + 1)
                        else:
                            out_.append(a_)
                    return out_

                for a in atoms_of(st.test):
                    subj = a.left if isinstance(a, ast.Compare) and len(a.ops) == 1 and isinstance(a.ops[0], (ast.Is, ast.IsNot)) and isinstance(a.comparators[0], ast.Constant) and a.comparators[0].value is None else a
                    subj = look(subj)
                    if isinstance(subj, ast.Name) and subj.id in f.param_names and subj is a:
                        why = f"status is decided by the truth value of '{subj.id}': an exception object that is falsy (one that defines __len__ or __bool__) is reported as a completed run"
                        break
                    if not (isinstance(subj, ast.Name) and subj.id in f.param_names):
                        why = f"status is decided by '{src(subj)[:50]}', a value derived from the exception rather than its presence: a failure with an empty message is reported as completed"
                        break
                if why is None:
                    pname = next((x.id for a_ in atoms_of(st.test) for x in ast.walk(a_) if isinstance(x, ast.Name) and x.id in f.param_names), None)
                    present = eval_test(st.test, {pname: True, f"{pname} is None": False, f"{pname} is not None": True}, defs)
                    chosen = st.body if present else st.orelse
                    if present is None or "fail" not in src(chosen).lower():
                        why = f"with an exception present the status is '{src(chosen)[:40]}'"
            rep.add("C12.R2", f"{f.qname}:status-by-presence", why is None, f"{f.module.rel}:{c.lineno}", "RunEnd status is failed exactly when an exception was handed in" if why is None else why)
    if n_builders < 2:
        raise AnalysisError(f"RunEndEvent builders not recognised ({n_builders})")

    # span ids identify a span only if they do not repeat within a trace: they are not drawn from the process-global
    # random generator, which a node function may re-seed (per-item seeding in a map makes every item's ids repeat)
    from .c13 import check_no_global_rng

    check_no_global_rng(ctx, "C12.R1")

    # ---- R3 -------------------------------------------------------------------
    tmpl_methods = template_methods(db, "run") + template_methods(db, "map")
    for m in tmpl_methods:
        for c in db.calls_in(m):
            if call_names(db, c, m) & {"_shutdown_dispatcher_sync", "_shutdown_dispatcher_async"}:
                tr = enclosing(c, (ast.Try,))
                iff = enclosing(c, (ast.If,))
                in_fin = tr is not None and any(contains(s, c) for s in tr.finalbody)
                guarded = False
                if iff is not None and any(contains(s, c) for s in iff.body):
                    for a in ast.walk(iff.test):
                        if isinstance(a, ast.Compare) and isinstance(a.left, ast.Name) and a.left.id == "_parent_span_id" and len(a.ops) == 1 and isinstance(a.ops[0], ast.Is) and isinstance(a.comparators[0], ast.Constant) and a.comparators[0].value is None:
                            guarded = True
                    if isinstance(iff.test, ast.BoolOp) and isinstance(iff.test.op, ast.Or):
                        guarded = False
                # the START of this function covers the finally: try must start after START (dispatcher exists)
                ok = in_fin and guarded
                rep.add("C12.R3", f"{m.qname}:shutdown", ok, f"{m.module.rel}:{c.lineno}", "shutdown in finally, only for the top-level call" if ok else f"shutdown is not (in finally={in_fin}, guarded by '_parent_span_id is None'={guarded})")
    # internal calls pass a parent span
    run_map = set(tmpl_methods)
    n_internal = 0
    for f in db.funcs_in("runners"):
        for call, cal in db.callees(f):
            if cal.func in run_map:
                n_internal += 1
                kw = {k.arg: k.value for k in call.keywords}
                v = kw.get("_parent_span_id")
                ok = v is not None and not (isinstance(v, ast.Constant) and v.value is None)
                detail = ""
                if ok and isinstance(v, ast.Name):
                    # must derive from a span id: a run-start result, or the parent_span_id parameter
                    owner = db.enclosing_func(call) or f
                    okn = v.id in ("parent_span_id",) and v.id in owner.param_names
                    g = owner
                    while g is not None and not okn:
                        for d in db.local_defs(g).get(v.id, []):
                            if isinstance(d, ast.Assign) and isinstance(d.value, (ast.Call, ast.Await)):
                                inner = d.value.value if isinstance(d.value, ast.Await) else d.value
                                if isinstance(inner, ast.Call) and call_names(db, inner, g) & {"_emit_run_start_sync", "_emit_run_start_async"}:
                                    okn = True
                        g = g.parent
                    ok = okn
                    detail = f" (value {v.id})"
                rep.add("C12.R3", f"{f.qname}:{cal.func.cls.name}.{cal.func.name}@{_pos_ast(f, call)}", ok, f"{f.module.rel}:{call.lineno}", "nested call hands down its parent span" if ok else f"internal {cal.func.name}() call without a parent span{detail}: it would be treated as a top-level call (second shutdown, detached span)")
    if n_internal < 4:
        raise AnalysisError(f"only {n_internal} internal run/map calls recognised")

    # ---- R4 -------------------------------------------------------------------
    for impl in execute_impl_funcs(db):
        owner_cls = impl.cls
        mk = owner_cls.find_method("_make_execute_node") if owner_cls else None
        if mk is None:
            raise AnalysisError(f"{impl.qname}: executor closure factory not found")
        closure = next(iter(mk.children.values()), None)
        if closure is None:
            raise AnalysisError(f"{mk.qname}: executor closure not found")
        # holder attached?
        attached = [n for n in walk_local(mk.node) if isinstance(n, ast.Assign) and any(isinstance(t, ast.Attribute) and isinstance(t.value, ast.Name) and t.value.id == closure.name for t in n.targets)]
        holder_attr = attached[0].targets[0].attr if attached else None
        rep.add("C12.R4", f"{mk.qname}:holder-attached", bool(attached), f"{mk.module.rel}:{mk.lineno}", f"span holder '{holder_attr}' attached to the executor closure" if attached else "no span holder is attached to the executor closure: nested runs lose their parent span")
        if not attached:
            continue
        holder_local = attached[0].value.id if isinstance(attached[0].value, ast.Name) else None
        # closure reads holder before its first suspension point and passes it as parent_span_id
        ccfg = ctx.cfg(closure, pred)
        reads = [n for n in ccfg.nodes if any(isinstance(x, ast.Name) and x.id == holder_local for e in ccfg.header_exprs(n) for x in ast.walk(e))]
        ok = bool(reads)
        for r in reads:
            for n in reachable(ccfg.entry):
                if n is r:
                    continue
                if any(isinstance(x, ast.Await) for e in ccfg.header_exprs(n) for x in ast.walk(e)) and reaches(n, r):
                    ok = False
        passes = any(isinstance(c, ast.Call) and any(k.arg == "parent_span_id" and any(isinstance(x, ast.Name) and x.id == holder_local for x in ast.walk(k.value)) for k in c.keywords) for c in db.calls_in(closure))
        rep.add("C12.R4", f"{closure.qname}:reads-holder-first", ok and passes, f"{closure.module.rel}:{closure.lineno}", "closure reads the holder before suspending and passes it as parent span" if ok and passes else "closure may suspend before reading the span holder, or does not pass it on")
    for ss in superstep_funcs(db):
        region_f = ss
        for ch in ss.children.values():
            if any(cal.func == collect for _, cal in db.callees(ch)):
                region_f = ch
        cfg = ctx.cfg(region_f, pred)
        stores = [n for n in cfg.nodes if n.kind == "stmt" and isinstance(n.ast, ast.Assign) and any("current_span_id" in src(t) for t in n.ast.targets)]
        execs = [n for n in cfg.nodes if any(isinstance(c.func, ast.Name) and c.func.id == "execute_node" for c in cfg.calls_at(n))]
        ok = bool(stores) and bool(execs)
        why = "span id stored into the holder right before the executor call"
        if ok:
            rd = reaching_defs(cfg)
            start_defs = [n for n in cfg.nodes if any("build_node_start_event" in call_names(db, c, region_f) for c in cfg.calls_at(n))]
            for s in stores:
                v = s.ast.value
                if not (isinstance(v, ast.Name) and all(d in start_defs for d, _ in defs_reaching(cfg, rd, s, v.id))):
                    ok, why = False, "the value stored into the holder is not this node's span id"
                for e in execs:
                    # no await strictly between store and the executor call
                    for n in reachable(s):
                        if n is s or n is e:
                            continue
                        if any(isinstance(x, ast.Await) for ex in cfg.header_exprs(n) for x in ast.walk(ex)) and reaches(n, e, avoid=[s]) and reaches(s, n, avoid=[e]):
                            ok, why = False, f"suspension point at line {n.lineno} between publishing the span id and the executor call: a concurrently running sibling can overwrite it"
            # every executor call is preceded by a store on all paths where the holder exists
            for e in execs:
                if not all_paths_pass(cfg.entry, e, stores, specialize({"hasattr(execute_node, 'current_span_id')": True})):
                    ok, why = False, "executor call reachable without publishing the span id"
        else:
            why = "span-id publication or executor call not found"
        rep.add("C12.R4", f"{region_f.qname}:publish-span", ok, f"{region_f.module.rel}:{stores[0].lineno if stores else region_f.lineno}", why)

    # shutdown reaches every processor: each processor's shutdown call is guarded on its own inside the loop
    from .c13 import check_delivery_guarded

    check_delivery_guarded(ctx, "C12.R3", only_methods={"shutdown", "shutdown_async"})

    # ---- R5 -------------------------------------------------------------------
    check_validate_first(ctx, "C12.R5")

    # ---- R6 -------------------------------------------------------------------
    for ss in superstep_funcs(db):
        if not ss.is_async:
            continue
        for c in db.calls_in(ss):
            if dotted(c.func) == "asyncio.gather":
                kw = {k.arg: k.value for k in c.keywords}
                ok = "return_exceptions" in kw and isinstance(kw["return_exceptions"], ast.Constant) and kw["return_exceptions"].value is True
                rep.add("C12.R6", f"{ss.qname}:gather", ok, f"{ss.module.rel}:{c.lineno}", "gather(return_exceptions=True)" if ok else "gather without return_exceptions=True: a failing node surfaces while siblings still run (their spans close after RunEnd)")
            if dotted(c.func) in ("asyncio.wait", "asyncio.as_completed"):
                rep.bad("C12.R6", f"{ss.qname}:{dotted(c.func)}", f"{ss.module.rel}:{c.lineno}", "completion-ordered waiting in a superstep")
    # every other gather of the runners that does not collect exceptions gathers only coroutines
    # from which no explicit raise escapes (else the first failure surfaces while siblings still emit)
    def escaping_raises(f: FuncInfo, depth: int = 0) -> list[ast.Raise]:
        fcfg = ctx.cfg(f, pred)
        out = []
        for n in fcfg.nodes:
            if not (n.kind == "stmt" and isinstance(n.ast, ast.Raise)):
                continue
            todo = [t for t, l, _ in n.succ if l == "exc"]
            seen = set()
            esc = False
            while todo:
                x = todo.pop()
                if x in seen:
                    continue
                seen.add(x)
                if x is fcfg.exit_raise:
                    esc = True
                    break
                if x.kind == "handler" or x is fcfg.exit_return:
                    continue
                todo += [t for t, _, _ in x.succ]
            if esc:
                out.append(n.ast)
        if depth < 2:
            for c_ in db.calls_in(f):
                for cal in db.resolve_call(c_, f):
                    g = cal.func
                    if g is not None and g.parent is not None and g.parent is f.parent and g is not f:
                        # a sibling closure awaited from here: its escaping raises escape from here too unless handled
                        sub = escaping_raises(g, depth + 1)
                        if sub:
                            cn = fcfg.node_containing(c_)
                            for n_ in cn:
                                todo = [t for t, l, _ in n_.succ if l == "exc"]
                                seen = set()
                                while todo:
                                    x = todo.pop()
                                    if x in seen:
                                        continue
                                    seen.add(x)
                                    if x is fcfg.exit_raise:
                                        out += sub
                                        todo = []
                                        break
                                    if x.kind == "handler" and fcfg.definitely_caught("Exception", fcfg._handler_names(x.ast)):
                                        continue
                                    todo += [t for t, _, _ in x.succ]
        return out

    n_g = 0
    for f in db.funcs_in("runners"):
        if not f.is_async or f in superstep_funcs(db):
            continue
        gi = -1
        for c in sorted(db.calls_in(f), key=lambda c_: (c_.lineno, c_.col_offset)):
            if dotted(c.func) != "asyncio.gather":
                continue
            gi += 1
            kw = {k.arg: k.value for k in c.keywords}
            if "return_exceptions" in kw and isinstance(kw["return_exceptions"], ast.Constant) and kw["return_exceptions"].value is True:
                n_g += 1
                rep.ok("C12.R6", f"{f.qname}:gather#{gi}", f"{f.module.rel}:{c.lineno}", "gather(return_exceptions=True)")
                continue
            n_g += 1
            coros: list[FuncInfo] = []
            for a in c.args:
                v = a.value if isinstance(a, ast.Starred) else a
                exprs = [v]
                if isinstance(v, ast.Name):
                    exprs = [d.value for d in db.local_defs(f).get(v.id, []) if getattr(d, "value", None) is not None]
                for e in exprs:
                    for x in ast.walk(e):
                        if isinstance(x, ast.Call):
                            for cal in db.resolve_call(x, f):
                                if cal.func is not None and cal.func.is_async and cal.func not in coros:
                                    coros.append(cal.func)
            bad = [(g, r) for g in coros for r in escaping_raises(g)]
            ok = bool(coros) and not bad
            rep.add("C12.R6", f"{f.qname}:gather#{gi}", ok, f"{f.module.rel}:{c.lineno}", f"gathered coroutines ({', '.join(g.name for g in coros)}) have no escaping raise" if ok else (f"'{src(bad[0][1])}' at line {bad[0][1].lineno} escapes from {bad[0][0].name}() into a gather that does not collect exceptions: the call ends (RunEnd, shutdown) while sibling tasks still run and emit" if bad else "gathered coroutines not resolved"))
    if n_g < 2:
        raise AnalysisError(f"only {n_g} gather calls found outside the supersteps")


def check_validate_first(ctx, rule: str) -> None:
    """Nothing observable (dispatcher creation, emission, execution) before the validation calls."""
    db, rep = ctx.db, ctx.rep
    observable = {"_create_dispatcher", "_emit_run_start_sync", "_emit_run_start_async", "_execute_graph_impl", "_execute_graph_impl_async", "_run_map_item"}
    for name in ("run", "map"):
        for m in template_methods(db, name):
            cfg = ctx.cfg(m)
            dom = dominators(cfg.entry)
            req = {"validate_inputs", "validate_runner_compatibility", "validate_node_types", "_validate_error_handling"} if name == "run" else {"validate_runner_compatibility", "validate_node_types", "validate_map_compatible", "_validate_error_handling", "generate_map_inputs"}
            if name == "run":
                req |= {"_validate_on_missing", "normalize_inputs"}
            have = {}
            for n in cfg.nodes:
                for c in cfg.calls_at(n):
                    for r in call_names(db, c, m) & req:
                        have.setdefault(r, set()).add(n)
            missing = req - set(have)
            if missing:
                rep.bad(rule, f"{m.qname}:validations", f"{m.module.rel}:{m.lineno}", f"validation call(s) {sorted(missing)} are gone from {name}()")
                continue
            if name == "map":
                # option validators run() applies up front to a parameter that map() forwards unchanged
                # must be applied by map() up front as well (else the rejection happens inside the map span)
                run_m = [r_ for r_ in template_methods(db, "run") if r_.is_async == m.is_async][0]
                # (validator name, run parameter): V(p) or V(p, graph) called by run() itself or, one level down,
                # by a validation function run() hands the parameter to
                opt: list[tuple[str, str]] = []

                def option_calls(f_, back):  # back: local name -> run parameter
                    for c_ in db.calls_in(f_):
                        pos = [a for a in c_.args if isinstance(a, ast.Name)]
                        if len(pos) != len(c_.args) or c_.keywords or not pos:
                            continue
                        ps = [a.id for a in pos if a.id in back]
                        others = [a.id for a in pos if a.id not in back]
                        if len(ps) == 1 and all(o == "graph" for o in others):
                            for cal in db.resolve_call(c_, f_):
                                g_ = cal.func
                                if g_ is not None and any(isinstance(x, ast.Raise) for x in ast.walk(g_.node)) and g_.module.name.startswith("hypergraph.runners"):
                                    opt.append((g_.name, back[ps[0]]))

                option_calls(run_m, {p_: p_ for p_ in run_m.param_names if p_ not in ("graph", "self", "values")})
                for c_ in db.calls_in(run_m):
                    for cal in db.resolve_call(c_, run_m):
                        g_ = cal.func
                        if g_ is None or not g_.name.startswith("validate_"):
                            continue
                        b_ = bind_args(c_, g_)
                        back = {k_: v_.id for k_, v_ in b_.items() if isinstance(v_, ast.Name) and v_.id in run_m.param_names and v_.id not in ("graph", "values")}
                        if back:
                            option_calls(g_, back)
                for vname, prm in sorted(set(opt)):
                    if prm not in m.param_names:
                        continue
                    forwarded = any(isinstance(k.value, ast.Name) and k.value.id == prm and k.arg == prm for c2 in ast.walk(m.node) if isinstance(c2, ast.Call) and isinstance(c2.func, ast.Attribute) and c2.func.attr == "run" for k in c2.keywords)
                    if not forwarded:
                        continue
                    mine = {n for n in cfg.nodes for c3 in cfg.calls_at(n) if vname in call_names(db, c3, m) and c3.args and isinstance(c3.args[0], ast.Name) and c3.args[0].id == prm}
                    if mine:
                        have.setdefault(f"{vname}({prm})", set()).update(mine)
                        rep.ok(rule, f"{m.qname}:forwarded-option:{prm}", m.loc(), f"{vname}({prm}) is applied by map() itself")
                    else:
                        rep.bad(rule, f"{m.qname}:forwarded-option:{prm}", m.loc(), f"map() forwards '{prm}' to every item's run() but does not apply {vname}({prm}) itself: an invalid value is rejected only inside the map-level span (RunStart/RunEnd are emitted for a rejected call)")
            first_obs = []
            for n in cfg.nodes:
                for c in cfg.calls_at(n):
                    if call_names(db, c, m) & observable or (name == "map" and isinstance(c.func, ast.Attribute) and c.func.attr == "run" and isinstance(c.func.value, ast.Name) and c.func.value.id == "self"):
                        first_obs.append((n, c))
            if not first_obs:
                raise AnalysisError(f"{m.qname}: no observable actions recognised")
            # the call's own rejections (exceptions it constructs itself from its arguments) all happen before
            # anything observable: none is reachable from dispatcher creation / emission / execution
            own = [n for n in cfg.nodes if n.kind == "stmt" and isinstance(n.ast, ast.Raise) and isinstance(n.ast.exc, ast.Call)]
            late = [r_ for r_ in own if any(reaches(o, r_) for o, _ in first_obs)]
            rep.add(rule, f"{m.qname}:own-rejections-before-observable", not late, f"{m.module.rel}:{late[0].lineno if late else m.lineno}", f"every exception {name}() constructs itself ({len(own)}) is raised before anything observable" if not late else f"'{src(late[0].ast)[:70]}' is raised after the dispatcher exists / run-start was emitted: a call rejected for its arguments delivers RunStart/RunEnd to the processors")
            bad = []
            for n, c in first_obs:
                if n not in dom:
                    continue
                for r, ns in have.items():
                    if not (dom[n] & ns):
                        bad.append((n, r, c))
            rep.add(
                rule,
                f"{m.qname}:validate-before-observable",
                not bad,
                f"{m.module.rel}:{bad[0][0].lineno if bad else m.lineno}",
                f"all {len(req)} validation steps dominate dispatcher creation, emission and execution" if not bad else f"'{src(bad[0][2].func)}' at line {bad[0][0].lineno} can happen before {bad[0][1]}() has accepted the call",
            )


def _pos(cfg: CFG, n: N) -> str:
    """Position key that survives reformatting: ordinal of the statement kind among same-text statements."""
    same = [x for x in cfg.nodes if x.kind == n.kind and x.ast is not None and n.ast is not None and x.ast is not n.ast and ast.dump(x.ast) == ast.dump(n.ast) and x.lineno < n.lineno]
    seen = []
    for x in same:
        if id(x.ast) not in seen:
            seen.append(id(x.ast))
    return f"#{len(seen)}"


def _pos_ast(f, call: ast.Call) -> str:
    k = 0
    for c in ast.walk(f.node):
        if isinstance(c, ast.Call) and c is not call and ast.dump(c.func) == ast.dump(call.func) and (c.lineno, c.col_offset) < (call.lineno, call.col_offset):
            k += 1
    return f"#{k}"


SS = "src/hypergraph/runners/sync/superstep.py"
AS = "src/hypergraph/runners/async_/superstep.py"
TS = "src/hypergraph/runners/_shared/template_sync.py"
TA = "src/hypergraph/runners/_shared/template_async.py"
VARIANTS = [
    Variant("map-forwards-on-missing-unvalidated", TS, replace_once("        _validate_on_internal_override(on_internal_override)\n        _validate_on_missing(on_missing)\n", "        _validate_on_internal_override(on_internal_override)\n"), {"C12.R5"}),
    Variant("sync-no-error-event", SS, replace_once("                if active:\n                    dispatcher.emit(build_node_error_event(run_id, node_span_id, run_span_id, node, graph))\n", "                pass\n"), {"C12.R1"}),
    Variant("async-runner-shuts-down-through-sync-method", "src/hypergraph/runners/async_/runner.py", replace_once("        await dispatcher.shutdown_async()", "        dispatcher.shutdown()"), {"C12.R7"}),
    Variant("async-node-end-not-awaited", AS, lambda s_: s_.replace("                await dispatcher.emit_async(build_node_end_event(", "                dispatcher.emit_async(build_node_end_event(", 1), {"C12.R7"}),
    Variant("async-error-event-narrow", AS, replace_once("        except Exception:\n            if active:\n                await dispatcher.emit_async(build_node_error_event", "        except ValueError:\n            if active:\n                await dispatcher.emit_async(build_node_error_event"), {"C12.R1"}),
    Variant("async-store-outside-try", AS, replace_once("            # Store result in cache\n            if cache is not None and cache_key:\n                store_in_cache(node, outputs, new_state, cache, cache_key)\n\n            if active:\n                route_evt = build_route_decision_event(run_id, run_span_id, node, graph, new_state)\n                if route_evt is not None:\n                    await dispatcher.emit_async(route_evt)\n                await dispatcher.emit_async(build_node_end_event(run_id, node_span_id, run_span_id, node, graph, duration_ms))\n\n            return node, outputs, input_versions, wait_for_versions\n        except Exception:\n            if active:\n                await dispatcher.emit_async(build_node_error_event(run_id, node_span_id, run_span_id, node, graph))\n            raise\n", "        except Exception:\n            if active:\n                await dispatcher.emit_async(build_node_error_event(run_id, node_span_id, run_span_id, node, graph))\n            raise\n        # Store result in cache\n        if cache is not None and cache_key:\n            store_in_cache(node, outputs, new_state, cache, cache_key)\n\n        if active:\n            route_evt = build_route_decision_event(run_id, run_span_id, node, graph, new_state)\n            if route_evt is not None:\n                await dispatcher.emit_async(route_evt)\n            await dispatcher.emit_async(build_node_end_event(run_id, node_span_id, run_span_id, node, graph, duration_ms))\n\n        return node, outputs, input_versions, wait_for_versions\n"), {"C12.R1"}),
    Variant("sync-cachehit-wrong-span", SS, replace_once("dispatcher.emit(build_node_end_event(run_id, node_span_id, run_span_id, node, graph, duration_ms=0.0, cached=True))", "dispatcher.emit(build_node_end_event(run_id, run_span_id, run_span_id, node, graph, duration_ms=0.0, cached=True))"), {"C12.R1"}),
    Variant("sync-cache-hit-before-start", SS, replace_once("                dispatcher.emit(start_evt)\n                dispatcher.emit(build_cache_hit_event(run_id, node_span_id, run_span_id, node, graph, cache_key))", "                dispatcher.emit(build_cache_hit_event(run_id, node_span_id, run_span_id, node, graph, cache_key))\n                dispatcher.emit(start_evt)"), {"C12.R1"}),
    Variant("run-filter-after-end", TS, sub_once(r"(            output_values = filter_outputs\(state, graph, select, on_missing\)\n            result = RunResult\(\n                values=output_values,\n                status=RunStatus.COMPLETED,\n                run_id=run_id,\n            \)\n)(            self\._emit_run_end_sync\(\n                dispatcher,\n                run_id,\n                run_span_id,\n                graph,\n                start_time,\n                _parent_span_id,\n            \)\n)", r"\2\1"), {"C12.R2"}),
    Variant("run-end-missing-on-continue", TA, sub_once(r"(        except Exception as e:\n            error = e\n            partial_state = getattr\(e, \"_partial_state\", None\)\n            if isinstance\(e, ExecutionError\):\n                error = e.__cause__ if e.__cause__ is not None else e\n                partial_state = e.partial_state\n\n)(            await self\._emit_run_end_async\(.*?error=error,\n            \)\n\n)(            if error_handling == \"raise\":\n                raise error from error\.__cause__\n)", r"\1\3\2"), {"C12.R2"}),
    Variant("map-end-no-error", TS, sub_once(r"(map_run_id,\n                map_span_id,\n                graph,\n                start_time,\n                _parent_span_id,\n)                error=e,\n", r"\1"), {"C12.R2"}),
    Variant("shutdown-always", TS, replace_once("            if _parent_span_id is None and dispatcher.active:\n                self._shutdown_dispatcher_sync(dispatcher)\n\n    def map(", "            if dispatcher.active:\n                self._shutdown_dispatcher_sync(dispatcher)\n\n    def map("), {"C12.R3"}),
    Variant("nested-run-no-parent", "src/hypergraph/runners/sync/executors/graph_node.py", replace_once("            event_processors=event_processors,\n            _parent_span_id=parent_span_id,\n        )\n        return node.map_outputs_from_original(result.values)", "            event_processors=event_processors,\n        )\n        return node.map_outputs_from_original(result.values)"), {"C12.R3"}),
    Variant("async-await-between-publish-and-call", AS, replace_once("        node_start = time.time()\n        try:\n            # Pass new_state", "        node_start = time.time()\n        await asyncio.sleep(0)\n        try:\n            # Pass new_state"), {"C12.R4", "C12.R1"}),
    Variant("dispatcher-before-validate", TS, sub_first(r"(        validate_runner_compatibility\(graph, self\.capabilities\)\n        validate_node_types\(graph, self\.supported_node_types\)\n        effective_selected = resolve_runtime_selected\(select, graph\)\n        validate_inputs\(.*?\n        \)\n        _validate_on_missing\(on_missing\)\n        _validate_error_handling\(error_handling\)\n\n        max_iter = max_iterations or self\.default_max_iterations\n)        dispatcher = self\._create_dispatcher\(event_processors\)\n        run_id, run_span_id = self\._emit_run_start_sync\(dispatcher, graph, _parent_span_id\)\n", r"        dispatcher = self._create_dispatcher(event_processors)\n        run_id, run_span_id = self._emit_run_start_sync(dispatcher, graph, _parent_span_id)\n\1"), {"C12.R5"}),
    Variant("gather-no-return-exceptions", AS, replace_once("results = await asyncio.gather(*tasks, return_exceptions=True)", "results = await asyncio.gather(*tasks)"), {"C12.R6"}),
    Variant("twin-rename-local-span", SS, lambda s: s.replace("node_span_id", "nspan"), set()),
    Variant("twin-extract-emit-end", SS, replace_once("                    dispatcher.emit(build_node_end_event(run_id, node_span_id, run_span_id, node, graph, duration_ms))\n\n            except BaseException as e:", "                    end_evt = build_node_end_event(run_id, node_span_id, run_span_id, node, graph, duration_ms)\n                    dispatcher.emit(end_evt)\n\n            except BaseException as e:"), set()),
    Variant("status-from-message", "src/hypergraph/runners/sync/runner.py", replace_once('            status="failed" if error is not None else "completed",', '            status="failed" if str(error or "") else "completed",'), {"C12.R2"}),
    Variant("status-inverted", "src/hypergraph/runners/async_/runner.py", replace_once('            status="failed" if error is not None else "completed",', '            status="failed" if error is None else "completed",'), {"C12.R2"}),
    Variant("twin-status-is-not-none", "src/hypergraph/runners/sync/runner.py", replace_once('            status="failed" if error is not None else "completed",', '            status="completed" if error is None else "failed",'), set()),
    Variant("twin-status-local", "src/hypergraph/runners/_shared/event_helpers.py", replace_once("    return RunEndEvent(\n        run_id=run_id,\n        span_id=span_id,\n        parent_span_id=parent_span_id,\n        graph_name=graph.name,\n        status=RunStatus.FAILED if error is not None else RunStatus.COMPLETED,", "    failed = error is not None\n    return RunEndEvent(\n        run_id=run_id,\n        span_id=span_id,\n        parent_span_id=parent_span_id,\n        graph_name=graph.name,\n        status=RunStatus.FAILED if failed else RunStatus.COMPLETED,"), set()),
]

"""C10 Map: one result per input combination, in input order, equal to a single run."""

from __future__ import annotations

import ast

from sa.cfg import all_paths_pass, dominators, reachable, reaches, specialize, test_atoms
from sa.db import AnalysisError, ancestors, dotted, src, walk_local
from sa.flow import backward_slice, defs_reaching, reaching_defs
from sa.model import contains, enclosing
from sa.variants import Variant, replace_once, sub_first, sub_once

from .common import call_names, template_methods, vars_from_call

ID = "C10"
EXPLANATION = (
    "Decides alignment and order restoration structurally: (R1) in the per-output collector every path through one item's iteration appends "
    "exactly once to every output's list (unconditional append inside exactly one loop over the node's outputs) or raises; (R2) in the bounded "
    "async map the completion-ordered result list and the list of input indices are appended as one atomic pair (no suspension point between "
    "the two appends, both after the item finished) and the returned results pass through a sort keyed by that index; the unbounded branch returns "
    "the gather result of tasks built by iterating the variations in order; (R3) the sync map runs and appends in iteration order and, like the "
    "collectors, raises the first failed item's own error object; (R4) zip expansion indexes every mapped list with the same increasing index after "
    "an equal-length check, product expansion is itertools.product over the lists in map_over order. (R7) every option map() shares with run() (select, on_missing, on_internal_override, entrypoint, max_concurrency, event_processors) is forwarded to the per-item run under its own name and is not rebound in map(); (R6) clone: the copy helper returns copy.deepcopy(value) on every normal path (no type-based shortcut), clone=True passes every broadcast value and clone=[names] exactly the listed ones through it, and the copies are made inside the per-item loops; (R5) a mapping graph node's executor forwards every translated input to the nested map unchanged, dropping exactly the values that *are* the inner graph's own bound objects (truth table of the comprehension filter over 'key bound' x 'same object'). R1 also requires that under 'item FAILED and mode is not raise' every reachable append stores the constant None (partial values of a failed item are not results)."
    " R6 also requires (qualifier inference over the mapping executors) that the names in clone=[...] reach the nested map in the inner graph's name space; R5's filter table has a third dimension: a mapped parameter is always forwarded."
)
NOT_DECIDED = "That each item's result equals the single run on that combination, and the values produced by zip/product expansion (statements about computed data)."


def run(ctx) -> None:
    db, rep = ctx.db, ctx.rep
    rep.rule("C10.R1", "collector appends exactly once per output per item on every path", floor=2)
    rep.rule("C10.R2", "bounded async map restores input order from an atomically paired index list", floor=3)
    rep.rule("C10.R3", "sync map keeps iteration order; first failing item's own error is raised", floor=3)
    rep.rule("C10.R4", "zip/product expansion enumerate combinations in input order", floor=3)
    rep.rule("C10.R7", "each item is a single run under the caller's options: map forwards every option it shares with run unchanged", floor=10)
    rep.rule("C10.R6", "clone: every cloned broadcast value is a fresh deep copy per item, whatever its type", floor=4)
    rep.rule("C10.R5", "a mapping graph node forwards every supplied input to the nested map (only the inner graph's own bound objects are left to be resolved inside)", floor=2)

    # ---- R1 ---------------------------------------------------------------------
    coll = db.func("runners._shared.helpers.collect_as_lists")
    cfg = ctx.cfg(coll)
    outer = [n for n in cfg.nodes if n.kind == "for" and isinstance(n.ast.iter, ast.Name) and n.ast.iter.id == "results"]
    if len(outer) != 1:
        raise AnalysisError("collect_as_lists: loop over results not found")
    outer = outer[0]
    inner = [n for n in cfg.nodes if n.kind == "for" and n is not outer and contains(outer.ast, n.ast) and "outputs" in src(n.ast.iter)]
    appends = [n for n in cfg.nodes if any(isinstance(c.func, ast.Attribute) and c.func.attr == "append" and isinstance(c.func.value, ast.Subscript) for c in cfg.calls_at(n))]
    start = [t for t, l, _ in outer.succ if l == "T"][0]

    def no_exc(a, b, l, i):
        return l != "exc"

    ok = bool(inner) and bool(appends)
    why = "per-output append loops not found"
    if ok:
        # (a) every normal path through one item iteration passes an inner loop
        if not all_paths_pass(start, outer, inner, no_exc):
            ok, why = False, "an item can be processed without appending to the per-output lists (lists fall behind the input order)"
        # (b) never two inner loops on one path
        for a in inner:
            exits = [t for t, l, _ in a.succ if l == "F"]
            for e in exits:
                if e is outer:
                    continue
                for b in inner:
                    if e is b or reaches(e, b, no_exc, avoid=[outer]):
                        ok, why = False, "one item can append twice to the per-output lists"
        # (c) inside each inner loop the append is unconditional: every path body-start -> header passes exactly one append
        for a in inner:
            body = [t for t, l, _ in a.succ if l == "T"][0]
            mine = [x for x in appends if contains(a.ast, x.ast)]
            if not mine or not all_paths_pass(body, a, mine, no_exc):
                ok, why = False, f"the append at line {a.lineno} is conditional: an item that did not produce an output leaves that list short (positions no longer match the input order)"
            for x in mine:
                for y in mine:
                    if x is not y and reaches(x, y, no_exc, avoid=[a]):
                        ok, why = False, "two appends for one output in one item"
            # key of the appended list is the loop variable
            for x in mine:
                c = [c for c in cfg.calls_at(x) if isinstance(c.func, ast.Attribute) and c.func.attr == "append"][0]
                key = c.func.value.slice
                if not (isinstance(key, ast.Name) and isinstance(a.ast.target, ast.Name) and key.id == a.ast.target.id):
                    ok, why = False, "append does not target the list of the output being iterated"
        if ok:
            why = "every item appends exactly once to every output's list (or raises)"
    rep.add("C10.R1", f"{coll.qname}:balanced-append", ok, coll.loc(), why)
    # a failed item (continue mode) contributes None for every output: under 'item FAILED, mode is not raise'
    # every reachable append stores the constant None (partial values of the failed run are not data)
    fval = {}
    for t in cfg.nodes:
        if t.kind == "test" and t.ast is not None:
            for a in test_atoms(t.ast):
                txt = src(a).replace('"', "'")
                if isinstance(a, ast.Compare) and len(a.ops) == 1 and isinstance(a.ops[0], (ast.Eq, ast.Is)):
                    if "FAILED" in txt and ".status" in txt:
                        fval[src(a)] = True
                    if "error_handling" in txt and "'raise'" in txt:
                        fval[src(a)] = False
    live = reachable(cfg.entry, specialize(fval, cfg))
    live_app = [x for x in appends if x in live]
    okf = bool(fval) and bool(live_app)
    whyf = "failed-item handling not recognised"
    if okf:
        whyf = "a failed item appends None to every output list"
        for x in live_app:
            c = [c for c in cfg.calls_at(x) if isinstance(c.func, ast.Attribute) and c.func.attr == "append"][0]
            if not (len(c.args) == 1 and isinstance(c.args[0], ast.Constant) and c.args[0].value is None):
                okf, whyf = False, f"for a failed item '{src(c)[:60]}' is reachable: the partial values its run completed before failing are collected as if they were results (the list must hold None where the item failed)"
    rep.add("C10.R1", f"{coll.qname}:failed-item-is-None", okf, coll.loc(), whyf)
    # initialised with one list per output
    init = [n for n in walk_local(coll.node) if isinstance(n, (ast.Assign, ast.AnnAssign)) and isinstance(n.value, ast.DictComp) and "outputs" in src(n.value.generators[0].iter) and isinstance(n.value.value, ast.List) and not n.value.value.elts]
    rep.add("C10.R1", f"{coll.qname}:one-list-per-output", bool(init), coll.loc(), "collector starts with an empty list for every output of the node" if init else "collector is not initialised with one empty list per node output")

    # ---- R2 ---------------------------------------------------------------------
    check_async_map_order(ctx, "C10.R2")
    check_map_over_order_kept(ctx, "C10.R4")
    # each entry is what a single run on that combination returns, under the mapping node's current output names: the
    # collector hands every item's values to the node's own translator and builds no rename table of its own
    from .c06 import check_every_item_translated, check_inversions_over_current_names

    check_every_item_translated(ctx, "C10.R1")
    check_inversions_over_current_names(ctx, "C10.R1")
    amap = [m for m in template_methods(db, "map") if m.is_async][0]

    # ---- R3 ---------------------------------------------------------------------
    smap = [m for m in template_methods(db, "map") if not m.is_async][0]
    svars = {v for v in db.local_defs(smap) if any(isinstance(d, ast.Assign) and "generate_map_inputs" in src(d.value) for d in db.local_defs(smap).get(v, []))}
    loops = [n for n in walk_local(smap.node) if isinstance(n, ast.For) and isinstance(n.iter, ast.Name) and n.iter.id in svars]
    ok = len(loops) == 1
    why = "sync map does not iterate the variations directly"
    if ok:
        lp = loops[0]
        body_calls = [c for c in ast.walk(lp) if isinstance(c, ast.Call)]
        runs = [c for c in body_calls if isinstance(c.func, ast.Attribute) and c.func.attr == "run"]
        apps = [c for c in body_calls if isinstance(c.func, ast.Attribute) and c.func.attr == "append" and c.args and isinstance(c.args[0], ast.Name)]
        ok = len(runs) == 1 and len(apps) == 1 and isinstance(runs[0].args[1] if len(runs[0].args) > 1 else None, ast.Name) and runs[0].args[1].id == lp.target.id
        why = "sync map runs each variation in order and appends its result" if ok else "sync map loop does not run the loop's own variation and append exactly one result"
    rep.add("C10.R3", f"{smap.qname}:iteration-order", ok, smap.loc(), why)
    idefs = [d for m_ in (smap, amap) for v, ds in db.local_defs(m_).items() for d in ds if isinstance(d, ast.Assign) and "generate_map_inputs" in src(d.value)]
    once = all(len(db.local_defs(m_).get(v, [])) == 1 for m_ in (smap, amap) for v, ds in db.local_defs(m_).items() if any(isinstance(d, ast.Assign) and "generate_map_inputs" in src(d.value) for d in ds))
    ok = len(idefs) == 2 and once and all("list(generate_map_inputs(" in src(d.value) for d in idefs)
    rep.add("C10.R3", "map:variations-materialised-once", ok, smap.loc(), "variations = list(generate_map_inputs(...)), bound once in each map" if ok else "the list of variations is rebound or not taken from generate_map_inputs")
    check_first_failure(ctx, "C10.R3")

    # ---- R7 ---------------------------------------------------------------------
    check_map_forwards_options(ctx, "C10.R7")

    # ---- R6 ---------------------------------------------------------------------
    cv = db.func("runners._shared.helpers._clone_value")
    rets = [n for n in walk_local(cv.node) if isinstance(n, ast.Return)]
    p0 = cv.positional_params[0]
    ok = bool(rets) and all(isinstance(r.value, ast.Call) and dotted(r.value.func) == "copy.deepcopy" and r.value.args and src(r.value.args[0]) == p0 for r in rets)
    rep.add("C10.R6", f"{cv.qname}:always-deepcopy", ok, cv.loc(), "every normal return is copy.deepcopy(value)" if ok else f"a value can be returned without a deep copy ('{[src(r.value) for r in rets if not (isinstance(r.value, ast.Call) and dotted(r.value.func) == 'copy.deepcopy')][:1]}'): e.g. a tuple/NamedTuple holding a list is shared by all items, item i sees the mutations of items 0..i-1")
    mcb = db.func("runners._shared.helpers._maybe_clone_broadcast")
    mcfg = ctx.cfg(mcb)
    cp = (mcb.param_names + ["", ""])[1]
    # clone is True: every value goes through _clone_value; clone is a list: exactly the listed ones
    def comp_of(live):
        return [r.ast.value for r in live if r.kind == "stmt" and isinstance(r.ast, ast.Return) and isinstance(r.ast.value, ast.DictComp)]
    live_true = reachable(mcfg.entry, specialize({f"{cp} is False": False, f"{cp} is True": True}, mcfg))
    ct = comp_of(live_true)
    ok = len(ct) == 1 and isinstance(ct[0].value, ast.Call) and "_clone_value" in call_names(db, ct[0].value, mcb) and not ct[0].generators[0].ifs and src(ct[0].key) == src(ct[0].generators[0].target.elts[0])
    rep.add("C10.R6", f"{mcb.qname}:clone-all", ok, mcb.loc(), "clone=True copies every broadcast value" if ok else "with clone=True some broadcast value is not passed through the copy helper")
    live_list = reachable(mcfg.entry, specialize({f"{cp} is False": False, f"{cp} is True": False}, mcfg))
    cl = comp_of(live_list)
    ok = len(cl) == 1 and isinstance(cl[0].value, ast.IfExp) and isinstance(cl[0].value.body, ast.Call) and "_clone_value" in call_names(db, cl[0].value.body, mcb) and isinstance(cl[0].value.test, ast.Compare) and isinstance(cl[0].value.test.ops[0], ast.In) and src(cl[0].value.test.comparators[0]) == cp and not cl[0].generators[0].ifs
    rep.add("C10.R6", f"{mcb.qname}:clone-listed", ok, mcb.loc(), "clone=[names] copies exactly the listed broadcast values and forwards the others" if ok else "with clone=[names] the listed values are not exactly the ones copied")
    for g_ in (db.func("runners._shared.helpers._generate_zip_inputs"), db.func("runners._shared.helpers._generate_product_inputs")):
        loops = [n for n in walk_local(g_.node) if isinstance(n, ast.For)]
        calls = [c for c in db.calls_in(g_) if "_maybe_clone_broadcast" in call_names(db, c, g_)]
        ok = bool(calls) and all(any(contains(lp, c) for lp in loops) for c in calls)
        # ... for every item: the yielded mapping unpacks the clone helper's result itself, not a conditional that hands
        # some item (the last, the only one) the caller's own broadcast objects
        cond = [c for c in calls if isinstance(getattr(c, "_parent", None), ast.IfExp) or any(isinstance(a, ast.If) for a in ancestors(c) if any(contains(lp, a) for lp in loops))]
        raw = [x for y in walk_local(g_.node) if isinstance(y, (ast.Yield, ast.Return)) and isinstance(y.value, ast.Dict) for k_, x in zip(y.value.keys, y.value.values) if k_ is None and not (isinstance(x, ast.Call) and "_maybe_clone_broadcast" in call_names(db, x, g_)) and any(isinstance(z, ast.Name) and z.id in g_.param_names and z.id != g_.positional_params[0] for z in ast.walk(x) if not isinstance(x, ast.DictComp))]
        rep.add("C10.R6", f"{g_.qname}:every-item-cloned", ok and not cond and not raw, g_.loc(), "every item's broadcast values come out of the clone helper" if ok and not cond and not raw else f"an item can receive the caller's own broadcast values ('{src((cond or raw)[0])[:60]}' is conditional / unpacks them directly): that item mutates the caller's object, so a later map over the same object clones an already-dirty value and its entries differ from single runs")
        rep.add("C10.R6", f"{g_.qname}:cloned-per-item", ok, g_.loc(), "broadcast values are cloned inside the per-item loop (a fresh copy for every item)" if ok else "broadcast values are cloned once outside the per-item loop: all items share one copy")
    # the names in clone=[...] reach the nested map in the inner graph's name space (the broadcast dict the clone
    # helper matches them against is keyed by the inner graph's own input names): qualifier inference over the
    # mapping executors — a name list taken from the wrapper's current (renamed) space matches nothing and the
    # value is silently shared by all items
    from .c06 import check_qualifiers

    check_qualifiers(ctx, "C10.R6", only=("executors.graph_node",))

    # ---- R5 ---------------------------------------------------------------------
    from .c18 import check_nested_map_inputs

    check_nested_map_inputs(ctx, "C10.R5")
    from .c06 import check_map_lists_follow_renames

    check_map_lists_follow_renames(ctx, "C10.R5")
    from .c18 import check_no_broadcast_defaults

    check_no_broadcast_defaults(ctx, "C10.R5")

    # ---- R4 ---------------------------------------------------------------------
    gz = db.func("runners._shared.helpers._generate_zip_inputs")
    gp = db.func("runners._shared.helpers._generate_product_inputs")
    gm = db.func("runners._shared.helpers.generate_map_inputs")
    t = src(gz.node)
    loops = [n for n in walk_local(gz.node) if isinstance(n, ast.For) and isinstance(n.iter, ast.Call) and dotted(n.iter.func) == "range" and len(n.iter.args) == 1]
    ok = len(loops) == 1 and any(isinstance(x, ast.Subscript) and isinstance(x.slice, ast.Name) and x.slice.id == loops[0].target.id for x in ast.walk(loops[0]))
    from sa.pattern import find_all, solve

    eq = any(isinstance(n, ast.If) and find_all("len(set(_L)) > 1", n.test) and any(isinstance(x, ast.Raise) for x in ast.walk(n)) for n in walk_local(gz.node))
    rep.add("C10.R4", f"{gz.qname}:position-wise", ok and eq, gz.loc(), "zip: equal-length check, then one dict per increasing index with v[i] for every mapped list" if ok and eq else "zip expansion is not position-wise over an increasing index after an equal-length check")
    ok = any(isinstance(n, ast.For) and isinstance(n.iter, ast.Call) and "product" in (dotted(n.iter.func) or "") and n.iter.args and isinstance(n.iter.args[0], ast.Starred) for n in walk_local(gp.node))
    keys_ok = bool(solve(["_K = list(_M.keys())", "[_M[_X] for _X in _K]"], gp.node)) or bool(solve(["_K = list(_M)", "[_M[_X] for _X in _K]"], gp.node))
    rep.add("C10.R4", f"{gp.qname}:row-major", ok and keys_ok, gp.loc(), "product: itertools.product(*lists) with lists in key order (row-major)" if ok and keys_ok else "product expansion is not itertools.product over the value lists in key order")
    ok = any(isinstance(n, (ast.Assign, ast.AnnAssign)) and isinstance(n.value, ast.DictComp) and isinstance(n.value.generators[0].iter, ast.Name) and n.value.generators[0].iter.id == "map_over" for n in walk_local(gm.node))
    rep.add("C10.R4", f"{gm.qname}:key-order", ok, gm.loc(), "mapped values are collected in map_over order" if ok else "mapped values are not collected in map_over order (product order would follow dict/set order)")


def _k(f, n) -> int:
    rs = [x for x in walk_local(f.node) if isinstance(x, ast.Raise)]
    return rs.index(n)


def check_first_failure(ctx, rule: str) -> None:
    """In raise mode a map (and the per-output collector) raises the first FAILED item's own error, found by
    scanning the results in input order — never the first to *complete* failing."""
    db, rep = ctx.db, ctx.rep
    coll = db.func("runners._shared.helpers.collect_as_lists")
    smap = [m for m in template_methods(db, "map") if not m.is_async][0]
    amap = [m for m in template_methods(db, "map") if m.is_async][0]
    for f in (smap, amap, coll):
        for n in walk_local(f.node):
            if isinstance(n, ast.Raise) and n.exc is not None and isinstance(n.exc, ast.Attribute) and n.exc.attr == "error":
                lp = enclosing(n, (ast.For,))
                fcfg = ctx.cfg(f)
                rn = [x for x in fcfg.nodes if x.kind == "stmt" and x.ast is n]
                atoms_failed, atoms_mode = set(), set()
                for t in fcfg.nodes:
                    if t.kind == "test" and t.ast is not None:
                        for a in test_atoms(t.ast):
                            if isinstance(a, ast.Compare) and len(a.ops) == 1 and isinstance(a.ops[0], (ast.Eq, ast.Is)):
                                txt = src(a).replace('"', "'")
                                if "FAILED" in txt and ".status" in txt:
                                    atoms_failed.add(src(a))
                                if "error_handling" in txt and "'raise'" in txt:
                                    atoms_mode.add(src(a))

                def dead_when_false(atoms) -> bool:
                    return bool(atoms) and bool(rn) and not any(x in reachable(fcfg.entry, specialize({a: False for a in atoms}, fcfg)) for x in rn)

                okf = lp is not None and dead_when_false(atoms_failed) and not any(isinstance(x, ast.Call) and dotted(x.func) in ("reversed", "sorted") for x in ast.walk(lp.iter))
                if f is smap:
                    okf = okf and dead_when_false(atoms_mode)
                rep.add(rule, f"{f.qname}:first-failure@{_k(f, n)}", okf, f"{f.module.rel}:{n.lineno}", "raises the first FAILED item's own error, scanning in input order" if okf else "the raised error is not the first failed item's in input order")



def check_map_forwards_options(ctx, rule: str, only: set[str] | None = None) -> None:
    """Each item of a map is a single run under the caller's options: every option map shares with run reaches the per-item
    run unchanged (as a keyword, or as a key of the one dict literal that is unpacked into the call)."""
    db, rep = ctx.db, ctx.rep
    REBOUND = {"error_handling": "items always collect their error (the map applies the caller's mode itself)", "_parent_span_id": "items are parented to the map span", "input_values": "keyword inputs are merged into the variations", "values": "replaced by the item's variation", "graph": "positional"}
    for mp_ in template_methods(db, "map"):
        run_ = [r_ for r_ in template_methods(db, "run") if r_.is_async == mp_.is_async][0]
        calls = [c for c in ast.walk(mp_.node) if isinstance(c, ast.Call) and isinstance(c.func, ast.Attribute) and c.func.attr == "run" and src(c.func.value) == "self"]
        if not calls:
            raise AnalysisError(f"{mp_.qname}: per-item run call not found")
        for c in calls:
            kw = {k.arg: k.value for k in c.keywords if k.arg is not None}
            # options handed over as one dict literal built in the map (``**item_options``) count key by key
            for k in c.keywords:
                if k.arg is None and isinstance(k.value, ast.Name):
                    ds_ = [d_ for d_ in db.local_defs(mp_).get(k.value.id, []) if isinstance(d_, (ast.Assign, ast.AnnAssign))]
                    if len(ds_) == 1 and isinstance(ds_[0].value, ast.Dict) and all(isinstance(kk, ast.Constant) and isinstance(kk.value, str) for kk in ds_[0].value.keys):
                        for kk, vv in zip(ds_[0].value.keys, ds_[0].value.values):
                            kw.setdefault(kk.value, vv)
            okg = bool(c.args) and src(c.args[0]) == "graph" and len(c.args) >= 2
            if only is None:
              rep.add(rule, f"{mp_.qname}:item-run:graph-and-variation", okg, f"{mp_.module.rel}:{c.lineno}", "items run the same graph on their own variation" if okg else "the per-item run does not receive (graph, <variation>)")
            for p_ in mp_.param_names:
                if p_ == "self" or p_ not in run_.param_names or p_ in REBOUND or (only is not None and p_ not in only):
                    continue
                v = kw.get(p_)
                ok = isinstance(v, ast.Name) and v.id == p_ and len(db.local_defs(mp_).get(p_, [])) == 0
                rep.add(rule, f"{mp_.qname}:item-run:{p_}", ok, f"{mp_.module.rel}:{c.lineno}", f"'{p_}' reaches every item unchanged" if ok else f"'{p_}' is {'not forwarded' if v is None else 'forwarded as ' + src(v)} to the per-item run: a mapped item no longer equals the single run with the caller's options")



def check_map_over_order_kept(ctx, rule: str) -> None:
    """The order in which the caller lists the mapped parameters is the order of the product axes: every place that stores,
    copies, renames or translates a graph node's map_over list keeps its element order (an element-wise image of the
    source sequence — never a re-enumeration of the node's or the inner graph's inputs, a set, or a sort)."""
    db, rep = ctx.db, ctx.rep
    gn = db.cls("nodes.graph_node.GraphNode")

    def order_kept(v: ast.AST, f) -> tuple[bool, str]:
        if isinstance(v, ast.Constant) and v.value is None:
            return True, "none"
        if isinstance(v, ast.Name):
            ds = db.local_defs(f).get(v.id, [])
            if len(ds) == 1 and getattr(ds[0], "value", None) is not None:
                return order_kept(ds[0].value, f)
            return (v.id in f.param_names or v.id == (f.args.vararg.arg if f.args.vararg else None)), f"'{v.id}'"
        if isinstance(v, ast.Attribute) and v.attr == "_map_over":
            return True, "the stored list"
        if isinstance(v, ast.Starred):
            return order_kept(v.value, f)
        if isinstance(v, ast.List) and len(v.elts) == 1 and isinstance(v.elts[0], ast.Starred):
            return order_kept(v.elts[0].value, f)
        if isinstance(v, ast.Call) and (dotted(v.func) or "") in ("list", "tuple") and len(v.args) == 1:
            a = v.args[0]
            if isinstance(a, ast.Call) and (dotted(a.func) or "") == "dict.fromkeys" and len(a.args) == 1:
                a = a.args[0]
            return order_kept(a, f)
        if isinstance(v, ast.ListComp) and len(v.generators) == 1 and not v.generators[0].ifs:
            return order_kept(v.generators[0].iter, f)
        if isinstance(v, ast.ListComp) and len(v.generators) == 1:
            ok_, why_ = order_kept(v.generators[0].iter, f)
            return ok_, why_
        if isinstance(v, ast.IfExp):
            a, b = order_kept(v.body, f), order_kept(v.orelse, f)
            return (a[0] and b[0]), (a[1] if not a[0] else b[1])
        return False, f"'{src(v)[:60]}'"

    n = 0
    for m in gn.methods.values():
        sites = [(x, x.value) for x in walk_local(m.node) if isinstance(x, ast.Assign) and any(isinstance(t, ast.Attribute) and t.attr == "_map_over" for t in x.targets)]
        if m.name == "_original_map_params":
            sites += [(r, r.value) for r in walk_local(m.node) if isinstance(r, ast.Return) and r.value is not None]
        for k, (st, v) in enumerate(sites):
            n += 1
            ok, what = order_kept(v, m)
            # an iteration source that is a parameter/the stored list is fine; anything else re-enumerates
            rep.add(rule, f"{m.qname}:map-over-order#{k}", ok, f"{m.module.rel}:{st.lineno}", "the list is an element-wise image of the caller's list (order kept)" if ok else f"the mapped-parameter list is rebuilt from {what} instead of element by element from the caller's list: the order the caller gave to map_over() is lost, so in product mode the axes (slow/fast parameter) swap and entry i no longer belongs to combination i — e.g. map_over('b', 'a', mode='product') on inner inputs (a, b)")
    if n < 5:
        raise AnalysisError(f"only {n} map_over list sites found in GraphNode")


def check_async_map_order(ctx, rule: str) -> None:
    """Bounded and unbounded async map both return their results in input order."""
    db, rep = ctx.db, ctx.rep
    amap = [m for m in template_methods(db, "map") if m.is_async][0]
    worker = None
    for ch in amap.children.values():
        apps = [c for c in db.calls_in(ch) if isinstance(c.func, ast.Attribute) and c.func.attr == "append"]
        if len(apps) >= 2:
            worker = ch
    if worker is None:
        rep.bad(rule, f"{amap.qname}:worker", amap.loc(), "bounded-map worker closure not found")
    else:
        wcfg = ctx.cfg(worker)
        apps = [(n, c) for n in wcfg.nodes for c in wcfg.calls_at(n) if isinstance(c.func, ast.Attribute) and c.func.attr == "append" and isinstance(c.func.value, ast.Name)]
        lists = {c.func.value.id for _, c in apps}
        # which pair is zipped and sorted in the enclosing function?
        zipped = None
        for c in db.calls_in(amap):
            if dotted(c.func) == "sorted" and c.args and isinstance(c.args[0], ast.Call) and dotted(c.args[0].func) == "zip":
                names = [a.id for a in c.args[0].args if isinstance(a, ast.Name)]
                if len(names) == 2 and set(names) <= lists:
                    zipped = (names[0], names[1], c)
        ok = zipped is not None
        why = "results of the bounded map are not restored by sorted(zip(<index list>, <result list>))"
        if ok:
            idx_list, res_list, sort_call = zipped
            an = {c.func.value.id: n for n, c in apps}
            a_idx, a_res = an.get(idx_list), an.get(res_list)
            # index appended is the queue index of the item just run
            runs = [n for n in wcfg.nodes if any(isinstance(x, ast.Await) for e in wcfg.header_exprs(n) for x in ast.walk(e)) and any("_run_map_item" in call_names(db, c, worker) for c in wcfg.calls_at(n))]
            if not runs or a_idx is None or a_res is None:
                ok, why = False, "worker structure not recognised"
            else:
                r = runs[0]
                dom = dominators(wcfg.entry)
                # both appends after the item finished
                if not (r in dom.get(a_idx, set()) and r in dom.get(a_res, set())):
                    ok, why = False, "an index/result append can happen before the item has finished: the index list then records dispatch order while the result list records completion order"
                # no await between the two appends
                first, second = (a_idx, a_res) if reaches(a_idx, a_res, avoid=[r]) else (a_res, a_idx)
                for n in reachable(first):
                    if n in (first, second):
                        continue
                    if reaches(n, second, avoid=[first]) and reaches(first, n, avoid=[second]) and any(isinstance(x, ast.Await) for e in wcfg.header_exprs(n) for x in ast.walk(e)):
                        ok, why = False, f"suspension point at line {n.lineno} between appending the result and its index: another worker can interleave and the pairs no longer match"
                # sorted result is what is returned
                if ok:
                    why = "result and index are appended as an atomic pair after the item finished; results = sorted by index"
        rep.add(rule, f"{amap.qname}:bounded-order", ok, f"{amap.module.rel}:{worker.lineno}", why)
        # returned list derives from the sort
        mcfg = ctx.cfg(amap)
        rd = reaching_defs(mcfg)
        rets = [n for n in mcfg.nodes if n.kind == "stmt" and isinstance(n.ast, ast.Return) and isinstance(n.ast.value, ast.Name)]
        okr = bool(rets)
        for r in rets:
            vals = [v for d, v in defs_reaching(mcfg, rd, r, r.ast.value.id) if v is not None]
            for v in vals:
                t = src(v)
                if not (("sorted(" in t and "zip(" in t) or t == "[]" or isinstance(v, ast.List)):
                    okr = False
            # the unbounded list is filled by iterating the gather result
        rep.add(rule, f"{amap.qname}:returned-results", okr, amap.loc(), "returned list is either the index-sorted list or the list filled from the gather result" if okr else "map returns a list that is neither index-sorted nor built from the gather result in order")
        # raise mode: the error that leaves the map is that of the first failed item in input order, in both branches —
        # every 'raise <item>.error' scans the input-ordered list that is returned
        ret_names = {r.ast.value.id for r in rets}
        err_raises = [n for n in walk_local(amap.node) if isinstance(n, ast.Raise) and isinstance(n.exc, ast.Attribute) and n.exc.attr == "error"]
        bad_raise = None
        for rz in err_raises:
            base = rz.exc.value
            loop = next((a for a in ancestors(rz) if isinstance(a, ast.For)), None)
            if not (isinstance(base, ast.Name) and loop is not None and isinstance(loop.target, ast.Name) and loop.target.id == base.id and isinstance(loop.iter, ast.Name) and loop.iter.id in ret_names):
                bad_raise = rz
                break
        okz = bool(err_raises) and bad_raise is None
        rep.add(rule, f"{amap.qname}:raise-mode-first-failure-in-input-order", okz, f"{amap.module.rel}:{(bad_raise or amap.node).lineno}", f"{len(err_raises)} raise site(s): each scans the input-ordered result list and raises its first failure" if okz else (f"'{src(bad_raise)[:60]}' does not come from a scan of the input-ordered result list: the bounded map raises the failure that happened to complete first, the unbounded one the failure with the lowest index — with two failing items in flight the limited run ends with another error than the unlimited run" if bad_raise is not None else "no raise of an item's error found in the async map"))
        # unbounded branch: tasks by iterating variations; gathered iterated directly
        var_names = set(vars_from_call(db, amap, {"generate_map_inputs", "list"}))
        var_names = {v for v in var_names if any(isinstance(d, ast.Assign) and "generate_map_inputs" in src(d.value) for d in db.local_defs(amap).get(v, []))}
        oku = False
        for c in db.calls_in(amap):
            if dotted(c.func) != "asyncio.gather":
                continue
            stars = [a.value.id for a in c.args if isinstance(a, ast.Starred) and isinstance(a.value, ast.Name)]
            if len(stars) != 1:
                continue
            tdefs = [d for d in db.local_defs(amap).get(stars[0], []) if isinstance(d, ast.Assign)]
            built = len(tdefs) == 1 and isinstance(tdefs[0].value, ast.ListComp) and isinstance(tdefs[0].value.generators[0].iter, ast.Name) and tdefs[0].value.generators[0].iter.id in var_names and not tdefs[0].value.generators[0].ifs
            if not built:
                continue
            # the gather result is iterated directly and appended
            p_ = getattr(c, "_parent", None)
            while p_ is not None and not isinstance(p_, ast.stmt):
                p_ = getattr(p_, "_parent", None)
            gv = p_.targets[0].id if isinstance(p_, ast.Assign) and isinstance(p_.targets[0], ast.Name) else None
            loops = [n for n in walk_local(amap.node) if isinstance(n, ast.For) and isinstance(n.iter, ast.Name) and n.iter.id == gv]
            oku = gv is not None and len(loops) == 1 and any(isinstance(x, ast.Call) and isinstance(x.func, ast.Attribute) and x.func.attr == "append" for x in ast.walk(loops[0]))
        rep.add(rule, f"{amap.qname}:unbounded-order", oku, amap.loc(), "unbounded map: tasks built in variation order, results appended by iterating the gather result" if oku else "unbounded map does not build tasks / collect results in variation order")



HP = "src/hypergraph/runners/_shared/helpers.py"
TA = "src/hypergraph/runners/_shared/template_async.py"
TS = "src/hypergraph/runners/_shared/template_sync.py"
VARIANTS = [
    Variant("map-over-list-sorted", "src/hypergraph/nodes/graph_node.py", replace_once("        new._map_over = list(params)", "        new._map_over = sorted(set(params))"), {"C10.R4"}),
    Variant("twin-map-over-list-unpacked", "src/hypergraph/nodes/graph_node.py", replace_once("        new._map_over = list(params)", "        new._map_over = [*params]"), set()),
    Variant("twin-map-over-list-deduplicated-in-order", "src/hypergraph/nodes/graph_node.py", replace_once("        new._map_over = list(params)", "        new._map_over = list(dict.fromkeys(params))"), set()),
    Variant("map-drops-entrypoint", "src/hypergraph/runners/_shared/template_sync.py", sub_first(r"(                    on_internal_override=on_internal_override,\n)                    entrypoint=entrypoint,\n", r"\1"), {"C10.R7"}),
    Variant("clone-once-for-all-items", "src/hypergraph/runners/_shared/helpers.py", sub_first(r"(\n    for [^\n]*:\n(?:        [^\n]*\n)*?        yield \{\n(?:            [^\n]*\n)*?)            \*\*_maybe_clone_broadcast\(broadcast_values, clone\),", r"\1            **broadcast_values,"), {"C10.R6"}),
    Variant("failed-item-partial-values", "src/hypergraph/runners/_shared/helpers.py", replace_once("            # Continue mode: use None placeholders to preserve list length\n            for name in node.outputs:\n                collected[name].append(None)\n            continue\n", ""), {"C10.R1"}),
    Variant("nested-map-drops-overriding-broadcast", "src/hypergraph/runners/sync/executors/graph_node.py", replace_once("if k in original_params or not (k in inner_bound and v is inner_bound[k])}", "if k in original_params or k not in inner_bound}"), {"C10.R5"}),
    Variant("nested-map-drops-mapped-inner-bound", "src/hypergraph/runners/sync/executors/graph_node.py", replace_once("if k in original_params or not (k in inner_bound and v is inner_bound[k])}", "if not (k in inner_bound and v is inner_bound[k])}"), {"C10.R5"}),
    Variant("twin-nested-map-filter-demorgan", "src/hypergraph/runners/async_/executors/graph_node.py", replace_once("if k in original_params or not (k in inner_bound and v is inner_bound[k])}", "if k in original_params or k not in inner_bound or v is not inner_bound[k]}"), set()),
    Variant("collector-conditional-append", HP, replace_once("            collected[name].append(renamed_values.get(name))", "            if name in renamed_values:\n                collected[name].append(renamed_values[name])"), {"C10.R1"}),
    Variant("collector-skip-failed-item", HP, replace_once("            # Continue mode: use None placeholders to preserve list length\n            for name in node.outputs:\n                collected[name].append(None)\n            continue", "            continue"), {"C10.R1"}),
    Variant("collector-double-append", HP, replace_once("            for name in node.outputs:\n                collected[name].append(None)\n            continue", "            for name in node.outputs:\n                collected[name].append(None)"), {"C10.R1"}),
    Variant("worker-order-at-dequeue", TA, replace_once("                        result = await _run_map_item(v)\n                        results_list.append(result)\n                        order.append(idx)", "                        order.append(idx)\n                        result = await _run_map_item(v)\n                        results_list.append(result)"), {"C10.R2"}),
    Variant("worker-await-between-appends", TA, replace_once("                        results_list.append(result)\n                        order.append(idx)", "                        results_list.append(result)\n                        await asyncio.sleep(0)\n                        order.append(idx)"), {"C10.R2"}),
    Variant("bounded-no-sort", TA, replace_once("                results = [r for _, r in sorted(zip(order, results_list, strict=False))]", "                results = list(results_list)"), {"C10.R2"}),
    Variant("unbounded-reversed-tasks", TA, replace_once("                tasks = [_run_map_item(v) for v in input_variations]", "                tasks = [_run_map_item(v) for v in reversed(input_variations)]"), {"C10.R2"}),
    Variant("sync-map-raises-last", TS, replace_once("                if error_handling == \"raise\" and result.status == RunStatus.FAILED:\n                    raise result.error  # type: ignore[misc]\n", "").__call__ and (lambda s: s.replace("                if error_handling == \"raise\" and result.status == RunStatus.FAILED:\n                    raise result.error  # type: ignore[misc]\n", "").replace("            self._emit_run_end_sync(\n                dispatcher,\n                map_run_id,\n                map_span_id,\n                graph,\n                start_time,\n                _parent_span_id,\n            )\n            return results", "            for result in reversed(results):\n                if error_handling == \"raise\" and result.status == RunStatus.FAILED:\n                    raise result.error\n            self._emit_run_end_sync(\n                dispatcher,\n                map_run_id,\n                map_span_id,\n                graph,\n                start_time,\n                _parent_span_id,\n            )\n            return results")), {"C10.R3"}),
    Variant("zip-no-length-check", HP, sub_once(r"    if len\(set\(lengths\)\) > 1:\n        raise ValueError\(\n.*?\n        \)\n", ""), {"C10.R4"}),
    Variant("product-sorted-keys", HP, replace_once("    keys = list(mapped_values.keys())", "    keys = sorted(mapped_values.keys())"), {"C10.R4"}),
    Variant("twin-worker-rename", TA, lambda s: s.replace("results_list", "done").replace("order", "positions"), set()),
]

"""C07 Immutability: derivation operations never change the object they are called on."""

from __future__ import annotations

import ast

from sa.cfg import all_paths_pass, reachable, reaches
from sa.db import AnalysisError, ClassInfo, FuncInfo, ancestors, dotted, src, walk_local
from sa.effects import Effects, fmt_effect
from sa.model import contains, enclosing, node_classes
from sa.variants import Variant, replace_once, sub_first, sub_once

ID = "C07"
EXPLANATION = (
    "Aliasing is the only way one Python object can influence another, so these rules decide most of the property for all operation sequences at "
    "once: (R1) no derivation method (bind, unbind, select, with_entrypoint, add_nodes, as_node; with_name, with_inputs, with_outputs, map_over and "
    "every override) nor any helper it reaches writes or mutates anything through 'self', except memoisation of values that depend only on "
    "attributes no derivation ever changes; (R2) for every attribute that __init__ initialises with a mutable container, the copy helper of each "
    "concrete class gives the copy a fresh container, or no in-place mutation of that attribute exists anywhere in the package outside construction; "
    "(R3) for every cached_property / lazy memo C of a class and every attribute a derivation writes on the copy, if C reads that attribute the "
    "copy's cached C is dropped on that path, and the invalidation helper resolves cached properties through the MRO (inherited ones included); "
    "(R4) every derivation returns the clone or a newly constructed object, never the receiver (sole exemption: add_nodes() with no arguments)."
    ' (R6) values handed out by process-wide memo tables (functools.lru_cache/cache functions, module-level containers in nodes/ and graph/) are immutable, or no caller edits them in place, returns them as its own or stores them in another object: a memoised dict shared by every node over one function would let a derived object change its receiver and its siblings.'
)
NOT_DECIDED = "Equality of run results before/after as such; objects reachable only through user-supplied values (bound objects are shared intentionally)."

GRAPH_DERIVATIONS = ["bind", "unbind", "select", "with_entrypoint", "add_nodes", "as_node"]
NODE_DERIVATIONS = ["with_name", "with_inputs", "with_outputs", "map_over"]
COPY_HELPERS = {"_shallow_copy", "_copy", "_with_renamed"}


def _cached_props(ci: ClassInfo) -> dict[str, FuncInfo]:
    out: dict[str, FuncInfo] = {}
    for c in reversed(ci.mro()):
        for m in c.methods.values():
            if any(d.endswith("cached_property") for d in m.decorators):
                out[m.name] = m
    return out


def _memo_attrs(ci: ClassInfo) -> dict[str, FuncInfo]:
    """``if self._x is None: self._x = <expr>`` inside a property: lazily memoised attribute."""
    out: dict[str, FuncInfo] = {}
    for c in ci.mro():
        for m in c.methods.values():
            if not m.is_property:
                continue
            for n in walk_local(m.node):
                if isinstance(n, ast.If) and isinstance(n.test, ast.Compare) and isinstance(n.test.left, ast.Attribute) and isinstance(n.test.left.value, ast.Name) and n.test.left.value.id == "self" and isinstance(n.test.ops[0], ast.Is) and isinstance(n.test.comparators[0], ast.Constant) and n.test.comparators[0].value is None:
                    for s in n.body:
                        if isinstance(s, ast.Assign) and isinstance(s.targets[0], ast.Attribute) and src(s.targets[0]) == src(n.test.left):
                            out.setdefault(n.test.left.attr, m)
    return out


def _top_reads(E: Effects, f: FuncInfo) -> set[str]:
    return {p[0] for p in E.reads(f, "self") if p}


def _derivations(db) -> list[tuple[ClassInfo, FuncInfo]]:
    out = []
    g = db.cls("graph.core.Graph")
    for n in GRAPH_DERIVATIONS:
        m = g.methods.get(n)
        if m is None:
            raise AnalysisError(f"Graph.{n} vanished")
        out.append((g, m))
    seen = set()
    for ci in node_classes(db):
        for n in NODE_DERIVATIONS:
            m = ci.find_method(n)
            if m is not None and (ci.qname, m.qname) not in seen:
                seen.add((ci.qname, m.qname))
                out.append((ci, m))
    return out


def _attr_written_on_copies(db, f: FuncInfo, owner: ClassInfo) -> list[tuple[str, ast.AST, str]]:
    """(attribute, statement, object name) for ``X.attr = ...`` / setattr(X, attr, ...) where X is a local (a copy)."""
    out = []
    locs = db.local_defs(f)
    for n in walk_local(f.node):
        if isinstance(n, (ast.Assign, ast.AnnAssign, ast.AugAssign)):
            tg = n.targets if isinstance(n, ast.Assign) else [n.target]
            for t in tg:
                if isinstance(t, ast.Attribute) and isinstance(t.value, ast.Name) and t.value.id != "self" and t.value.id in locs:
                    out.append((t.attr, n, t.value.id))
        elif isinstance(n, ast.Call) and dotted(n.func) == "setattr" and len(n.args) >= 2 and isinstance(n.args[0], ast.Name) and n.args[0].id in locs:
            names = _const_strings(db, f, n.args[1])
            for nm in names:
                out.append((nm, n, n.args[0].id))
        elif isinstance(n, ast.Call) and isinstance(n.func, ast.Attribute) and n.func.attr in ("append", "extend", "update", "add", "insert", "setdefault", "pop", "remove", "clear") and isinstance(n.func.value, ast.Attribute) and isinstance(n.func.value.value, ast.Name) and n.func.value.value.id in locs and n.func.value.value.id != "self":
            out.append((n.func.value.attr, n, n.func.value.value.id))
    return out


def _const_strings(db, f: FuncInfo, e: ast.AST) -> list[str]:
    if isinstance(e, ast.Constant) and isinstance(e.value, str):
        return [e.value]
    if isinstance(e, ast.Name) and e.id in f.param_names:
        vals = []
        for g, call in db.callers_of(f):
            from sa.db import bind_args

            a = bind_args(call, f).get(e.id)
            if isinstance(a, ast.Constant) and isinstance(a.value, str):
                vals.append(a.value)
            elif a is not None:
                vals.append("?")
        return sorted(set(vals))
    return ["?"]


def run(ctx) -> None:
    db, rep = ctx.db, ctx.rep
    E = Effects(db)
    rep.rule("C07.R1", "derivation methods and their helpers never write through the receiver (memoisation of derivation-invariant values excepted)", floor=10)
    rep.rule("C07.R2", "every mutable-container attribute is fresh on the copy or never mutated in place after construction", floor=8)
    rep.rule("C07.R3", "cached values that depend on an attribute a derivation writes are dropped from the copy; invalidation resolves through the MRO", floor=6)
    rep.rule("C07.R5", "computing a graph's specification or validating it has no side effect on the nodes and graphs it is computed from", floor=25)
    rep.rule("C07.R4", "derivations return the clone / a new object, never the receiver", floor=10)
    rep.rule("C07.R6", "nothing shared process-wide lets derived objects influence one another: memo tables (lru_cache/cache functions, module-level containers) hand out immutable values or are never modified/escaped by a caller; the node cache tells a receiver from its with_inputs() derivative", floor=2)

    derivs = _derivations(db)
    graph_cls = db.cls("graph.core.Graph")
    classes = [graph_cls] + [c for c in node_classes(db) if not c.node.name.startswith("_")]

    # attributes any derivation writes on a copy (per class family)
    written: dict[str, set[str]] = {}
    for ci, m in derivs:
        fam = "Graph" if ci is graph_cls else "Node"
        clo = db.closure([m], property_reads=False, stop=lambda f: f.name == "__init__")
        for f in clo:
            if f.cls is None or f.name == "__init__":
                continue
            for a, _, _ in _attr_written_on_copies(db, f, ci):
                written.setdefault(fam, set()).add(a)
    rep.extra["attributes_written_on_copies"] = {k: sorted(v) for k, v in written.items()}

    # ---- R1 ---------------------------------------------------------------------
    for ci, m in derivs:
        fam = "Graph" if ci is graph_cls else "Node"
        memo = _memo_attrs(ci)
        effs = E.writes(m, "self", include_unknown=False)
        bad = []
        for e in effs:
            top = e.path[0] if e.path else ""
            if top in memo and e.func == memo[top].qname:
                # memoised value must depend only on attributes that no derivation writes
                deps = _top_reads(E, memo[top]) - {top}
                # follow one level: the compute helper
                for _, cal in db.callees(memo[top]):
                    if cal.func is not None and cal.func.cls is not None:
                        deps |= _top_reads(E, cal.func)
                deps -= {top}
                if not (deps & written.get(fam, set())):
                    continue
                bad.append((e, f"memoised '{top}' depends on {sorted(deps & written.get(fam, set()))}, which derivations change"))
                continue
            if len(e.path) >= 2 and e.path[0] in ("_nodes", "nodes") and e.path[1] == "[*]":
                # memoisation inside contained nodes (their own cached state), not the receiver's attributes
                sub = e.path[2] if len(e.path) > 2 else ""
                if sub.startswith("_") or sub == "":
                    continue
            bad.append((e, ""))
        rep.add("C07.R1", f"{ci.name}.{m.name}", not bad, m.loc(), f"no write through the receiver ({len(effs)} memo site(s) allowed)" if not bad else f"the receiver is modified: {fmt_effect(bad[0][0])} {bad[0][1]}")

    # ---- R2 ---------------------------------------------------------------------
    check_copy_freshness(ctx, "C07.R2")

    # ---- R3 ---------------------------------------------------------------------
    check_cache_invalidation(ctx, "C07.R3", E=E)

    # ---- R4 ---------------------------------------------------------------------
    for ci, m in derivs:
        rets = [n for n in walk_local(m.node) if isinstance(n, ast.Return)]
        ok = bool(rets)
        why = "returns the clone / a new object"
        for r in rets:
            v = r.value
            if isinstance(v, ast.Name) and v.id == "self":
                # exemption: add_nodes() with no arguments
                g = enclosing(r, (ast.If,))
                if m.name == "add_nodes" and g is not None and src(g.test) == "not nodes":
                    continue
                ok, why = False, f"returns the receiver itself at line {r.lineno}"
            elif isinstance(v, ast.Name):
                defs = db.local_defs(m).get(v.id, [])
                if not defs or not all(isinstance(d, ast.Assign) and isinstance(d.value, ast.Call) for d in defs):
                    ok, why = False, f"returned value '{v.id}' is not the result of a copy/constructor call"
            elif not isinstance(v, ast.Call):
                ok, why = False, f"returns '{src(v)[:40]}'"
        rep.add("C07.R4", f"{ci.name}.{m.name}", ok, m.loc(), why)
    for ci in classes:
        h = _copy_helper(db, ci)
        if h is None:
            continue
        cc = [n for n in walk_local(h.node) if isinstance(n, ast.Assign) and isinstance(n.value, ast.Call) and dotted(n.value.func) == "copy.copy" and n.value.args and src(n.value.args[0]) == "self"]
        rets = [n for n in walk_local(h.node) if isinstance(n, ast.Return)]
        ok = len(cc) == 1 and all(isinstance(r.value, ast.Name) and r.value.id == cc[0].targets[0].id for r in rets)
        rep.add("C07.R4", f"{ci.name}:{h.cls.name}.{h.name}", ok, h.loc(), "copy helper returns copy.copy(self)" if ok else "copy helper does not return a fresh copy.copy(self)")




    # ---- R6 ---------------------------------------------------------------------
    check_process_memos(ctx, "C07.R6")
    # a node derived with with_inputs differs from its receiver only by its rename history; with a shared node cache the
    # two must not answer for each other: the history enters the key (each value is filed under the parameter it reaches)
    # a node and all its clones share one function object, hence one default object: whatever name a clone gives the
    # parameter, a run hands the function a deep copy of the default, never the shared object itself
    from .c18 import check_default_copy_is_deep, check_default_always_copied

    check_default_copy_is_deep(ctx, "C07.R6")
    check_default_always_copied(ctx, "C07.R6")
    from .c09 import cache_key_attrs

    used7 = cache_key_attrs(ctx)
    if used7 is None:
        raise AnalysisError("compute_cache_key call not recognised")
    cc7 = db.func("runners._shared.caching.check_cache")
    rep.add("C07.R6", f"{cc7.qname}:derived-node-does-not-share-entries", "map_inputs_to_params" in used7, cc7.loc(), "the cache key files each value under the function parameter it reaches, so a receiver and its with_inputs() derivative never share an entry" if "map_inputs_to_params" in used7 else "the cache key is built under the node's current input names: n and n.with_inputs(a='b', b='a') get one key for equal values although they call the function with swapped arguments — on a cache-enabled runner the receiver's run result changes after a derived node was created and run (and the other way round)")

    # ---- R5 ---------------------------------------------------------------------
    n5 = 0
    for f5 in db.all_funcs():
        if f5.module.name not in ("hypergraph.graph.input_spec", "hypergraph.graph.validation", "hypergraph.graph._conflict") or f5.parent is not None or f5.name == "__init__":
            continue
        n5 += 1
        eff = [(p_, e) for p_ in f5.param_names for e in E.writes(f5, p_, include_unknown=False)]
        rep.add("C07.R5", f"{f5.qname}:pure", not eff, f5.loc(), "neither writes nor mutates anything reachable from its parameters" if not eff else f"{fmt_effect(eff[0][1])} through parameter '{eff[0][0]}': building or inspecting one graph rewrites an object that belongs to another (e.g. the cached inputs.bound of a nested graph) — the receiver of as_node()/with_inputs() changes after the fact")
    if n5 < 25:
        raise AnalysisError(f"only {n5} specification/validation functions found")

_IMMUTABLE_CTORS = {"tuple", "frozenset", "str", "int", "float", "bool", "bytes", "MappingProxyType", "types.MappingProxyType"}
_COPYING = {"dict", "list", "set", "tuple", "frozenset", "sorted", "len", "any", "all", "sum", "min", "max", "iter", "enumerate", "zip", "copy.copy", "copy.deepcopy", "str", "repr", "bool"}
_READ_METHODS = {"get", "items", "keys", "values", "copy", "index", "count", "union", "intersection", "difference", "issubset", "issuperset", "__contains__"}


def _immutable_value(db, f: FuncInfo, v: ast.AST | None, depth: int = 0) -> bool:
    if v is None or isinstance(v, (ast.Constant, ast.Tuple, ast.JoinedStr, ast.Compare, ast.BoolOp)) and not (isinstance(v, ast.Tuple) and any(isinstance(e, (ast.Dict, ast.List, ast.Set, ast.DictComp, ast.ListComp, ast.SetComp)) for e in v.elts)):
        return True
    if isinstance(v, ast.Call) and (dotted(v.func) or "") in _IMMUTABLE_CTORS:
        return True
    if isinstance(v, ast.Name) and depth < 3:
        defs = db.local_defs(f).get(v.id, [])
        return bool(defs) and all(isinstance(d, ast.Assign) and _immutable_value(db, f, d.value, depth + 1) for d in defs)
    return False


def check_process_memos(ctx, rule: str) -> None:
    """A value memoised per function / per module is one object shared by every node and graph that asks for it:
    a caller that edits it, or hands it out as its own, lets one object change what another sees."""
    db, rep = ctx.db, ctx.rep
    from sa.effects import MUTATORS

    memo = [f for f in db.all_funcs() if f.module.name.startswith("hypergraph.") and any(d.split("(")[0].split(".")[-1] in ("lru_cache", "cache") for d in f.decorators)]
    n_sites = 0
    for g in memo:
        rets = [n for n in walk_local(g.node) if isinstance(n, ast.Return)]
        if rets and all(_immutable_value(db, g, r.value) for r in rets):
            rep.ok(rule, f"{g.qname}:immutable-result", g.loc(), "memoised function returns an immutable value")
            continue
        for caller, call in db.callers_of(g):
            n_sites += 1
            key = f"{g.name}@{caller.qname}"
            par = getattr(call, "_parent", None)
            bad = ""
            names: set[str] = set()
            if isinstance(par, ast.Assign) and all(isinstance(t, ast.Name) for t in par.targets):
                names = {t.id for t in par.targets}
            elif isinstance(par, ast.Call) and call in par.args and (dotted(par.func) or "") in _COPYING:
                pass
            elif isinstance(par, ast.Attribute) and par.attr in _READ_METHODS:
                pass
            elif isinstance(par, ast.Subscript) and isinstance(par.ctx, ast.Load):
                pass
            elif isinstance(par, (ast.For, ast.comprehension)) and par.iter is call:
                pass
            elif isinstance(par, ast.Compare):
                pass
            elif isinstance(par, ast.Starred) or isinstance(par, ast.Dict):
                pass  # unpacked into a new container
            else:
                bad = f"the shared result is used as '{src(par)[:60]}' (returned, stored or modified in place)"
            for n in walk_local(caller.node):
                if bad or not names:
                    break
                if isinstance(n, ast.Call) and isinstance(n.func, ast.Attribute) and isinstance(n.func.value, ast.Name) and n.func.value.id in names and n.func.attr in MUTATORS:
                    bad = f"'{src(n)[:60]}' at line {n.lineno} edits the memoised object in place"
                elif isinstance(n, (ast.Subscript, ast.Attribute)) and isinstance(n.ctx, (ast.Store, ast.Del)) and isinstance(n.value, ast.Name) and n.value.id in names:
                    bad = f"'{src(n)[:60]}' at line {n.lineno} writes into the memoised object"
                elif isinstance(n, ast.AugAssign) and isinstance(n.target, ast.Name) and n.target.id in names:
                    bad = f"augmented assignment to '{n.target.id}' at line {n.lineno} edits the memoised object in place"
                elif isinstance(n, ast.Return) and isinstance(n.value, ast.Name) and n.value.id in names:
                    bad = f"'return {n.value.id}' at line {n.lineno} hands the memoised object itself to the caller, who owns and may edit it"
                elif isinstance(n, ast.Assign) and isinstance(n.value, ast.Name) and n.value.id in names and any(isinstance(t, (ast.Attribute, ast.Subscript)) for t in n.targets):
                    bad = f"'{src(n)[:60]}' at line {n.lineno} stores the memoised object itself in another object"
            rep.add(rule, key, not bad, caller.loc(), "the result of the process-wide memo is only read or copied" if not bad else f"{g.qname} memoises one {('mutable ' if True else '')}object per argument for the whole process; {bad}: every node/graph over the same function shares it, so a derived object changes its receiver and its siblings")
    # module-level containers edited from node/graph code
    n_glob = 0
    for f in db.all_funcs():
        if not (f.module.name.startswith("hypergraph.nodes") or f.module.name.startswith("hypergraph.graph")):
            continue
        tops = {t.id: st for st in f.module.tree.body if isinstance(st, (ast.Assign, ast.AnnAssign)) for t in (st.targets if isinstance(st, ast.Assign) else [st.target]) if isinstance(t, ast.Name) and isinstance(st.value, (ast.Dict, ast.List, ast.Set, ast.DictComp, ast.ListComp, ast.SetComp, ast.Call)) and (not isinstance(st.value, ast.Call) or (dotted(st.value.func) or "").split(".")[-1] in ("dict", "list", "set", "defaultdict", "OrderedDict", "WeakValueDictionary", "WeakKeyDictionary"))}
        tops.pop("__all__", None)
        if not tops:
            continue
        locals_ = set(db.local_defs(f)) | set(f.param_names)
        for n in walk_local(f.node):
            tgt = None
            if isinstance(n, ast.Call) and isinstance(n.func, ast.Attribute) and isinstance(n.func.value, ast.Name) and n.func.attr in MUTATORS:
                tgt = n.func.value.id
            elif isinstance(n, ast.Subscript) and isinstance(n.ctx, (ast.Store, ast.Del)) and isinstance(n.value, ast.Name):
                tgt = n.value.id
            if tgt in tops and tgt not in locals_:
                n_glob += 1
                rep.bad(rule, f"{f.qname}:module-state:{tgt}", f.loc(), f"'{src(n)[:60]}' at line {n.lineno} edits the module-level container '{tgt}', which every node and graph in the process shares")
    rep.ok(rule, "inventory", "src/hypergraph", f"{len(memo)} process-wide memo function(s) ({', '.join(g.qname for g in memo) or 'none'}), {n_sites} call site(s) judged, {n_glob} edit(s) of module-level containers in nodes/ and graph/")


def _copy_helper(db, ci: ClassInfo) -> FuncInfo | None:
    if ci is db.cls("graph.core.Graph"):
        return ci.methods.get("_shallow_copy")
    return ci.find_method("_copy")


def check_copy_freshness(ctx, rule: str, only_attrs: tuple[str, ...] | None = None) -> None:
    """R2 of C07, reusable (C06 uses it for the rename history)."""
    db, rep = ctx.db, ctx.rep
    graph_cls = db.cls("graph.core.Graph")
    classes = [graph_cls] + [c for c in node_classes(db) if not c.node.name.startswith("_")]
    # ---- R2 ---------------------------------------------------------------------
    # in-place mutation sites by attribute name, whole package
    mut_sites: dict[str, list[tuple[FuncInfo, ast.AST]]] = {}
    scope = db.all_funcs()
    for f in scope:
        for n in walk_local(f.node):
            attr = None
            if isinstance(n, ast.Call) and isinstance(n.func, ast.Attribute) and n.func.attr in ("append", "extend", "update", "add", "insert", "setdefault", "pop", "popitem", "remove", "discard", "clear", "sort", "reverse", "add_edge", "add_node", "remove_node", "remove_edge", "add_edges_from", "add_nodes_from") and isinstance(n.func.value, ast.Attribute):
                attr = n.func.value.attr
                obj = n.func.value.value
            elif isinstance(n, (ast.Assign, ast.AugAssign, ast.Delete)):
                tg = n.targets if isinstance(n, (ast.Assign, ast.Delete)) else [n.target]
                for t in tg:
                    if isinstance(t, ast.Subscript) and isinstance(t.value, ast.Attribute):
                        attr = t.value.attr
                        obj = t.value.value
            if attr is None:
                continue
            mut_sites.setdefault(attr, []).append((f, n))

    def copy_helper(ci: ClassInfo) -> FuncInfo | None:
        if ci is graph_cls:
            return ci.methods.get("_shallow_copy")
        return ci.find_method("_copy")

    def fresh_attrs(h: FuncInfo) -> set[str]:
        out = set()
        for n in walk_local(h.node):
            if isinstance(n, ast.Assign):
                for t in n.targets:
                    if isinstance(t, ast.Attribute) and isinstance(t.value, ast.Name) and t.value.id != "self" and _fresh(n.value):
                        out.add(t.attr)
            if isinstance(n, ast.Call) and dotted(n.func) == "setattr" and len(n.args) == 3 and _fresh(n.args[2]):
                for nm in ([n.args[1].value] if isinstance(n.args[1], ast.Constant) else _loop_consts(n)):
                    out.add(nm)
        return out

    def mutable_attrs(ci: ClassInfo) -> dict[str, str]:
        out: dict[str, str] = {}
        for c in ci.mro():
            for nm, ann in c.class_attrs.items():
                if any(k in src(ann) for k in ("list[", "dict[", "set[", "List[", "Dict[")) and "ClassVar" not in src(ann):
                    out.setdefault(nm, f"declared {src(ann)}")
            init = c.methods.get("__init__")
            if init is None:
                continue
            for n in walk_local(init.node):
                tgt = val = ann = None
                if isinstance(n, ast.Assign) and len(n.targets) == 1:
                    tgt, val = n.targets[0], n.value
                elif isinstance(n, ast.AnnAssign):
                    tgt, val, ann = n.target, n.value, n.annotation
                if not (isinstance(tgt, ast.Attribute) and isinstance(tgt.value, ast.Name) and tgt.value.id == "self"):
                    continue
                why = None
                if ann is not None and any(k in src(ann) for k in ("list[", "dict[", "set[", "List[", "Dict[")):
                    why = f"annotated {src(ann)}"
                elif val is not None and isinstance(val, (ast.List, ast.Dict, ast.Set, ast.ListComp, ast.DictComp, ast.SetComp)):
                    why = "container display"
                elif val is not None and isinstance(val, ast.Call) and dotted(val.func) in ("list", "dict", "set"):
                    why = f"{dotted(val.func)}(...)"
                elif val is not None:
                    t = db.type_of(val, init)
                    if t is not None and (t.kind in ("dict", "list", "set") or (t.kind == "ext" and "Graph" in str(t.cls))):
                        why = f"type {t.kind}"
                if why:
                    out.setdefault(tgt.attr, why)
        return out

    n_r2 = 0
    for ci in classes:
        h = copy_helper(ci)
        if h is None:
            continue
        fresh = fresh_attrs(h)
        for a, why in sorted(mutable_attrs(ci).items()):
            if only_attrs is not None and a not in only_attrs:
                continue
            n_r2 += 1
            if a in fresh:
                rep.ok(rule, f"{ci.name}.{a}", h.loc(), f"{why}: {h.cls.name}.{h.name} gives the copy a fresh container")
                continue
            sites = [(f, n) for f, n in mut_sites.get(a, []) if not (f.name == "__init__" or f.name.startswith("_build") or f.name.startswith("_add_"))]
            # sites that mutate a container which was just made fresh on that object are fine only if fresh (handled above)
            if not sites:
                rep.ok(rule, f"{ci.name}.{a}", h.loc(), f"{why}: shared by copies, but never mutated in place after construction")
            else:
                f, n = sites[0]
                rep.bad(rule, f"{ci.name}.{a}", h.loc(), f"{why}: {h.cls.name}.{h.name} shares this container between receiver and copy, and {f.qname.split('hypergraph.')[-1]}:{n.lineno} mutates it in place — a derived object changes its ancestor and siblings")
    if n_r2 < (8 if only_attrs is None else 1):
        raise AnalysisError(f"only {n_r2} mutable attributes enumerated for {rule}")



def check_cache_invalidation(ctx, rule: str, families: tuple[str, ...] = ("Graph", "Node"), only_classes: tuple[str, ...] | None = None, E: Effects | None = None) -> None:
    """R3 of C07, reusable by properties whose mechanism reads cached views (C05, C16, C19)."""
    db, rep = ctx.db, ctx.rep
    E = E or Effects(db)
    derivs = _derivations(db)
    graph_cls = db.cls("graph.core.Graph")
    classes = [graph_cls] + [c for c in node_classes(db) if not c.node.name.startswith("_")]
    if "Graph" not in families:
        classes = [c for c in classes if c is not graph_cls]
    if "Node" not in families:
        classes = [graph_cls]
    if only_classes is not None:
        classes = [c for c in classes if c.name in only_classes]

    def copy_helper(ci: ClassInfo) -> FuncInfo | None:
        if ci is graph_cls:
            return ci.methods.get("_shallow_copy")
        return ci.find_method("_copy")

    # ---- R3 ---------------------------------------------------------------------
    inv = db.func("nodes.base._invalidate_cached_properties")
    t = src(inv.node)
    mro_ok = "getattr(cls" in t.replace(" ", "") or "getattr(type(obj)" in t.replace(" ", "") or "__mro__" in t or "inspect.getmro" in t
    if "vars(cls)" in t or "cls.__dict__" in t:
        mro_ok = "__mro__" in t or "getmro" in t
    rep.add(rule, f"{inv.qname}:mro-aware", mro_ok, inv.loc(), "cached properties are looked up through the MRO (inherited ones are invalidated too)" if mro_ok else "the invalidation helper only sees cached properties defined on the concrete class: inherited ones (defaults, parameter_annotations) survive a copy and describe the ancestor")

    def invalidates(h: FuncInfo, cname: str, depth: int = 0) -> bool:
        """Does helper ``h`` drop cached value ``cname`` from the object it returns?"""
        if depth > 3:
            return False
        for n in walk_local(h.node):
            if isinstance(n, ast.Call):
                if any(cal.func == inv for cal in db.resolve_call(n, h)):
                    return True
                if isinstance(n.func, ast.Attribute) and n.func.attr == "pop" and ("__dict__" in src(n.func.value) or src(n.func.value).startswith("vars(")) and n.args and isinstance(n.args[0], ast.Constant) and n.args[0].value == cname:
                    return True
                for cal in db.resolve_call(n, h):
                    if cal.func is not None and cal.func.name in COPY_HELPERS and cal.func is not h and invalidates(cal.func, cname, depth + 1):
                        return True
            if isinstance(n, ast.Delete) and any("__dict__" in src(tt) and cname in src(tt) for tt in n.targets):
                return True
        return False

    n_pairs = 0
    for ci in classes:
        cps = dict(_cached_props(ci))
        for a, m in _memo_attrs(ci).items():
            cps.setdefault(a, m)
        if not cps:
            continue
        fam = "Graph" if ci is graph_cls else "Node"
        for cname, cprop in sorted(cps.items()):
            reads = _top_reads(E, cprop)
            for _, cal in db.callees(cprop):
                if cal.func is not None and cal.func.cls is not None and cal.func.positional_params[:1] == ["self"]:
                    reads |= _top_reads(E, cal.func)
            reads.discard(cname)
            for dci, m in derivs:
                if not (ci is dci or (ci is not graph_cls and dci is not graph_cls and (dci in ci.mro() or ci in dci.mro()))):
                    continue
                if m.cls is not None and ci is not graph_cls and m is not ci.find_method(m.name):
                    continue
                # all functions of this derivation that write attributes on copies
                clo = [f for f in db.closure([m], property_reads=False, stop=lambda f: f.name == "__init__") if f.cls is not None and f.name != "__init__"]
                for f in clo:
                    # the effective helper for this concrete class
                    if f.name in ("_copy", "_shallow_copy") and f is not copy_helper(ci):
                        continue
                    for a, stmt, obj in _attr_written_on_copies(db, f, ci):
                        if a not in reads:
                            continue
                        n_pairs += 1
                        # origin of obj
                        origin_ok = False
                        for d in db.local_defs(f).get(obj, []):
                            if isinstance(d, ast.Assign) and isinstance(d.value, ast.Call):
                                for cal in db.resolve_call(d.value, f):
                                    g = cal.func
                                    if g is not None and g.name in COPY_HELPERS:
                                        # resolve to the concrete class's helper
                                        g2 = ci.find_method(g.name) if ci is not graph_cls else g
                                        if g2 is not None and invalidates(g2, cname):
                                            origin_ok = True
                                    if cal.kind == "class":
                                        origin_ok = origin_ok or False
                                if dotted(d.value.func) == "copy.copy":
                                    origin_ok = origin_ok or invalidates(f, cname)
                        # read of obj.C between origin and write re-populates the cache
                        reread = any(isinstance(x, ast.Attribute) and x.attr == cname and isinstance(x.value, ast.Name) and x.value.id == obj and x.lineno < stmt.lineno for x in walk_local(f.node))
                        later_pop = any(isinstance(x, ast.Call) and isinstance(x.func, ast.Attribute) and x.func.attr == "pop" and ("__dict__" in src(x.func.value) or src(x.func.value).startswith("vars(")) and obj in src(x.func.value) and x.args and isinstance(x.args[0], ast.Constant) and x.args[0].value == cname and x.lineno > stmt.lineno for x in walk_local(f.node))
                        later_inv = any(isinstance(x, ast.Call) and any(cal.func == inv for cal in db.resolve_call(x, f)) and x.args and isinstance(x.args[0], ast.Name) and x.args[0].id == obj and x.lineno > stmt.lineno for x in walk_local(f.node))
                        ok = (origin_ok and not reread) or later_pop or later_inv
                        rep.add(
                            rule,
                            f"{ci.name}.{cname}<-{a}@{f.cls.name}.{f.name}",
                            ok,
                            f"{f.module.rel}:{stmt.lineno}",
                            f"cached '{cname}' reads '{a}'; the copy's cached value is dropped" if ok else f"cached '{cname}' reads '{a}', which {f.cls.name}.{f.name} changes on the copy, but the copy keeps the receiver's cached '{cname}' (stale: it describes the ancestor, and a value computed later on the ancestor leaks into objects derived from it)",
                        )
    if n_pairs < 1:
        if only_classes is not None:
            rep.ok(rule, f"{'/'.join(only_classes)}:no-cached-views", classes[0].loc() if classes else "src/hypergraph:1", "the class keeps no cached view that reads an attribute written by a derivation (nothing can go stale); adding one without invalidation is reported here")
        else:
            raise AnalysisError(f"no (cached value, written attribute) pairs found for {rule}")



def _fresh(v: ast.AST) -> bool:
    if isinstance(v, (ast.Dict, ast.List, ast.Set, ast.DictComp, ast.ListComp, ast.SetComp)):
        return True
    if isinstance(v, ast.Call) and dotted(v.func) in ("dict", "list", "set", "copy.deepcopy", "tuple"):
        return True
    return False


def _loop_consts(call: ast.Call) -> list[str]:
    """setattr(new, attr, ...) inside `for attr in ("a", "b")`."""
    for a in ancestors(call):
        if isinstance(a, ast.For) and isinstance(a.target, ast.Name) and isinstance(call.args[1], ast.Name) and a.target.id == call.args[1].id and isinstance(a.iter, (ast.Tuple, ast.List)):
            return [e.value for e in a.iter.elts if isinstance(e, ast.Constant)]
    return []


CORE = "src/hypergraph/graph/core.py"
BASE = "src/hypergraph/nodes/base.py"
GN = "src/hypergraph/nodes/graph_node.py"
VARIANTS = [
    Variant("bind-updates-in-place", CORE, replace_once("        new_graph = self._shallow_copy()\n        new_graph._bound = {**self._bound, **values}\n        return new_graph", "        self._bound.update(values)\n        new_graph = self._shallow_copy()\n        return new_graph"), {"C07.R1"}),
    Variant("select-sets-self", CORE, replace_once("        new_graph = self._shallow_copy()\n        new_graph._selected = names\n        return new_graph", "        self._selected = names\n        return self._shallow_copy()"), {"C07.R1"}),
    Variant("shallow-copy-shares-bound", CORE, replace_once("        new_graph._bound = dict(self._bound)\n        # Clear cached_property", "        # Clear cached_property"), set(), note="bind/unbind rebind _bound to a new dict and nothing mutates it in place, so sharing it is safe"),
    Variant("shallow-copy-shares-bound-and-bind-mutates", CORE, lambda s: s.replace("        new_graph._bound = dict(self._bound)\n        # Clear cached_property", "        # Clear cached_property").replace("        new_graph = self._shallow_copy()\n        new_graph._bound = {**self._bound, **values}\n        return new_graph", "        new_graph = self._shallow_copy()\n        new_graph._bound.update(values)\n        return new_graph"), {"C07.R2"}),
    Variant("node-copy-shares-history", BASE, replace_once("        clone = copy.copy(self)\n        clone._rename_history = list(self._rename_history)\n", "        clone = copy.copy(self)\n"), {"C07.R2"}),
    Variant("graphnode-copy-shares-map-over", GN, replace_once("        if self._map_over is not None:\n            new._map_over = list(self._map_over)\n", ""), set(), note="_map_over is only ever rebound, never mutated in place"),
    Variant("shallow-copy-keeps-inputs-cache", CORE, replace_once("        new_graph.__dict__.pop(\"inputs\", None)\n        # _selected and _entrypoints", "        # _selected and _entrypoints"), {"C07.R3"}),
    Variant("node-copy-keeps-cached-props", BASE, replace_once("        clone._rename_history = list(self._rename_history)\n        _invalidate_cached_properties(clone)\n", "        clone._rename_history = list(self._rename_history)\n"), {"C07.R3"}),
    Variant("invalidate-own-class-only", BASE, replace_once("isinstance(getattr(cls, key, None), functools.cached_property)", "isinstance(vars(cls).get(key), functools.cached_property)"), {"C07.R3"}),
    Variant("new-cached-prop-on-entrypoints", CORE, replace_once("    @property\n    def entrypoints_config(self)", "    @functools.cached_property\n    def active_node_names(self) -> tuple | None:\n        return tuple(self._entrypoints) if self._entrypoints is not None else None\n\n    @property\n    def entrypoints_config(self)"), {"C07.R3"}),
    Variant("with-inputs-returns-self-when-empty", BASE, replace_once("        combined = {**(mapping or {}), **kwargs}\n        if not combined:\n            return self._copy()\n        return self._with_renamed(\"inputs\", combined)", "        combined = {**(mapping or {}), **kwargs}\n        if not combined:\n            return self\n        return self._with_renamed(\"inputs\", combined)"), {"C07.R4"}),
    Variant("twin-shallow-copy-vars-pop", CORE, replace_once("        new_graph.__dict__.pop(\"inputs\", None)\n        # _selected and _entrypoints", "        vars(new_graph).pop(\"inputs\", None)\n        # _selected and _entrypoints"), set()),
]
CALLABLE = "src/hypergraph/nodes/_callable.py"
_MEMO_DEF = "@functools.lru_cache(maxsize=None)\ndef _signature_defaults(func):\n    params = inspect.signature(func).parameters\n    return {name: p.default for name, p in params.items() if p.default is not inspect.Parameter.empty}\n\n\nclass CallableMixin:"
_DEF_OLD = "        sig = inspect.signature(self.func)\n        rename_map = _build_forward_rename_map(self._rename_history)\n\n        return {rename_map.get(name, name): param.default for name, param in sig.parameters.items() if param.default is not inspect.Parameter.empty}\n"


def _memo_variant(body: str):
    def edit(s_: str) -> str:
        assert s_.count("class CallableMixin:") == 1 and s_.count(_DEF_OLD) == 1
        return s_.replace("class CallableMixin:", _MEMO_DEF, 1).replace(_DEF_OLD, body, 1)

    return edit


VARIANTS += [
    Variant("shared-signature-memo-edited-in-place", CALLABLE, _memo_variant("        defaults = _signature_defaults(self.func)\n        rename_map = _build_forward_rename_map(self._rename_history)\n        moved = {current: defaults.pop(original) for original, current in rename_map.items() if original in defaults}\n        defaults.update(moved)\n        return defaults\n"), {"C07.R6"}),
    Variant("shared-signature-memo-handed-out", CALLABLE, _memo_variant("        defaults = _signature_defaults(self.func)\n        if not self._rename_history:\n            return defaults\n        rename_map = _build_forward_rename_map(self._rename_history)\n        return {rename_map.get(name, name): value for name, value in defaults.items()}\n"), {"C07.R6"}),
    Variant("twin-shared-signature-memo-copied-first", CALLABLE, _memo_variant("        defaults = dict(_signature_defaults(self.func))\n        rename_map = _build_forward_rename_map(self._rename_history)\n        moved = {current: defaults.pop(original) for original, current in rename_map.items() if original in defaults}\n        defaults.update(moved)\n        return defaults\n"), set()),
    Variant("twin-shared-signature-memo-only-read", CALLABLE, _memo_variant("        rename_map = _build_forward_rename_map(self._rename_history)\n        return {rename_map.get(name, name): value for name, value in _signature_defaults(self.func).items()}\n"), set()),
]
VARIANTS = [v for v in VARIANTS if v is not None]

"""C01 Acyclic dataflow: every output equals the dependency-order evaluation."""

from __future__ import annotations

import ast

from sa.cfg import all_paths_pass, both, dominators, reachable, reaches, specialize, test_atoms
from sa.db import AnalysisError, bind_args, dotted, src, walk_local
from sa.flow import defs_reaching, reaching_defs
from sa.model import contains, enclosing, execute_impl_funcs, superstep_funcs
from sa.variants import Variant, chain, replace_once, sub_first, sub_once

from .c03 import check_ready_conjunction
from .common import call_names, vars_from_call

ID = "C01"
EXPLANATION = (
    "Decides the argument-resolution and readiness clauses on every path: (R1) in the value resolver a bound value can be returned only after the "
    "state (upstream/run-time) look-up failed and a signature default only after every bound look-up on that path failed; provided-vs-bound order "
    "is irrelevant because (R1b) initialize_state seeds every provided key unconditionally and both runners hand the same mapping to it and to the "
    "superstep; (R2) the sources the readiness test accepts and the sources the resolver can return are the same set (a source only one of them "
    "knows makes a ready node raise KeyError or a satisfiable node never run); (R3) a node is ready only if activation, inputs, wait_for and "
    "needs-execution all hold; (R4) the first production of a name always advances its version, so a consumer that already ran on its signature "
    "default is re-run with the upstream value; (R5) a tuple return is unpacked positionally onto the data output names after a length check, a "
    "single output is stored as returned; (R6) both supersteps record a node's consumed input versions from the pre-step snapshot it read its "
    "inputs from (recording a fresher version would keep a consumer that ran on a default from ever re-running with the upstream value). (R7) the DEFAULT source: a function node's defaults table is keyed through the forward rename map (current names), has/get_default_for read that table, and the map builder applies the renames of one with_inputs call in parallel (the per-batch loop never writes the map it looks up). R1 also requires that the table BOUND values are resolved from is complete: the merged mapping starts as an unfiltered copy of the graph's own bindings and nothing is removed from it (scope narrowing by select/entry points never hides a binding from a node that still runs). R3 also requires the staleness test to compare each input's current version with the version recorded for that same input; (R8) the function executors rebind the function's result only when it is the coroutine of an async node function (awaited) or under the node's declared generator mode — never under a test on what kind of object the value happens to be."
    " R3 also requires that a node without an execution record always needs execution (under 'node.name not in state.node_executions' every reachable return of the needs-execution test is the constant True): a value supplied for its output does not stand in for it."
    " R1 also requires that every entry of the dict a node's inputs are collected into comes from the resolver call for that node and parameter (no memo shared between nodes)."
    " R5 also requires that result filtering recognises an ordering signal by identity with the sentinel only (followed through the helpers the sentinel is handed to); R8 also requires that a declared generator is drained on every path before the outputs are wrapped."
)
NOT_DECIDED = "That returned values equal the reference evaluation; that edges are inferred correctly from names; exactly-once execution."


def _classify_return(r: ast.Return) -> str | None:
    v = r.value
    if isinstance(v, ast.Tuple) and v.elts and isinstance(v.elts[0], ast.Attribute) and isinstance(v.elts[0].value, ast.Name) and v.elts[0].value.id == "ValueSource":
        return v.elts[0].attr
    return None


def check_readiness_vs_resolver(ctx, rule: str) -> None:
    """The sources the readiness test accepts for an input and the sources the resolver can return are the same set
    (has_default_for of a nested graph node = inner binding or inner signature default = the resolver's inner-bound
    branch plus its signature-default branch)."""
    db, rep = ctx.db, ctx.rep
    gvs = db.func("runners._shared.helpers.get_value_source")
    gcfg_ = ctx.cfg(gvs)
    t_bound_inner = [t for t in gcfg_.nodes if t.kind == "test" and "inputs.bound" in src(t.ast) and " in graph.inputs.bound" not in src(t.ast)]
    hi = db.func("runners._shared.helpers._has_input")
    ready_src = set()
    from .common import canon_src

    t = canon_src(hi)
    if "in state.values" in t:
        ready_src.add("state")
    if " in graph.inputs.bound" in t:
        ready_src.add("graph-bound")
    if "has_default_for" in t:
        ready_src.add("node-default")
    res_src = set()
    t2 = canon_src(gvs)
    if "in state.values" in t2:
        res_src.add("state")
    if "in graph.inputs.bound" in t2:
        res_src.add("graph-bound")
    if "has_signature_default_for" in t2 and t_bound_inner:
        res_src.add("node-default")  # inner bound (GraphNode) + signature default together cover node.has_default_for
    if "in provided_values" in t2:
        res_src.add("provided")
    missing_in_resolver = ready_src - res_src
    missing_in_ready = res_src - ready_src - {"provided"}  # provided ⊆ state by R1b
    ok = not missing_in_resolver and not missing_in_ready and len(ready_src) == 3
    rep.add(
        rule,
        "readiness-vs-resolver",
        ok,
        hi.loc(),
        f"readiness accepts {sorted(ready_src)}; resolver returns {sorted(res_src)} (provided values are in the state by R1b; GraphNode.has_default_for = inner bound or inner default = resolver branches 3b + 4)" if ok else f"sources disagree: only readiness knows {sorted(missing_in_resolver)}, only the resolver knows {sorted(missing_in_ready)}",
    )



def run(ctx) -> None:
    db, rep = ctx.db, ctx.rep
    rep.rule("C01.R1", "value-source precedence: state before bound before signature default on every path; provided values are seeded into the state", floor=5)
    rep.rule("C01.R2", "readiness sources = resolver sources", floor=1)
    rep.rule("C01.R3", "readiness is the conjunction of activation, inputs, wait_for and needs-execution", floor=1)
    rep.rule("C01.R4", "first production of a name advances its version", floor=1)
    rep.rule("C01.R5", "tuple returns are unpacked positionally after a length check", floor=2)
    rep.rule("C01.R6", "a node records the input versions of the snapshot it actually consumed", floor=4)
    rep.rule("C01.R8", "a function node's output is the object its function returned: the executors transform the result only by awaiting a coroutine and by materialising a declared generator", floor=2)
    rep.rule("C01.R7", "signature defaults are looked up under the current (renamed) parameter name; same-call renames do not chain", floor=4)

    gvs = db.func("runners._shared.helpers.get_value_source")
    cfg = ctx.cfg(gvs)
    rets = {}
    for n in cfg.nodes:
        if n.kind == "stmt" and isinstance(n.ast, ast.Return):
            k = _classify_return(n.ast)
            if k:
                rets.setdefault(k, []).append(n)
    for k in ("EDGE", "BOUND", "DEFAULT"):
        if k not in rets:
            raise AnalysisError(f"get_value_source: no return classified {k}")
    tests = [n for n in cfg.nodes if n.kind == "test"]
    t_state = [t for t in tests if " in state.values" in src(t.ast) or ".values" in src(t.ast) and "state" in src(t.ast)]
    t_bound_graph = [t for t in tests if " in graph.inputs.bound" in src(t.ast)]
    t_bound_inner = [t for t in tests if "inputs.bound" in src(t.ast) and " in graph.inputs.bound" not in src(t.ast)]
    t_isgn = [t for t in tests if "isinstance" in src(t.ast) and "GraphNode" in src(t.ast)]

    def unreachable_without(target, blockers, extra_val=None) -> bool:
        """target is unreachable once the False edges of ``blockers`` are removed."""
        bl = set(blockers)

        def ef(a, b, l, i):
            if a in bl and l == "F":
                return False
            return True

        from sa.cfg import both

        f = both(ef, specialize(extra_val) if extra_val else None)
        return not reaches(cfg.entry, target, f)

    # EDGE returned straight from the state test
    for r in rets["EDGE"]:
        ok = bool(t_state) and any(r in [x for x, l, _ in t.succ if l == "T"] or reaches([x for x, l, _ in t.succ if l == "T"][0], r) for t in t_state) and "state.values" in src(r.ast)
        rep.add("C01.R1", f"{gvs.qname}:EDGE", ok, f"{gvs.module.rel}:{r.lineno}", "an upstream/run-time value in the state is returned first" if ok else "the EDGE return is not taken directly from the state membership test")
    for r in rets["BOUND"]:
        ok = bool(t_state) and all(unreachable_without(r, [t]) for t in t_state)
        rep.add("C01.R1", f"{gvs.qname}:BOUND@{_k(rets['BOUND'], r)}", ok, f"{gvs.module.rel}:{r.lineno}", "a bound value is returned only after the state look-up failed" if ok else "a bound value can be returned although the state holds a value for the parameter (bound would shadow an upstream output)")
    for r in rets["DEFAULT"]:
        ok1 = bool(t_state) and all(unreachable_without(r, [t]) for t in t_state)
        ok2 = bool(t_bound_graph) and all(unreachable_without(r, [t]) for t in t_bound_graph)
        # inner bound (GraphNode only): must have failed whenever the node is a GraphNode
        ok3 = True
        if t_bound_inner:
            val = {src(t.ast): True for t in t_isgn}
            ok3 = all(unreachable_without(r, [t], val) for t in t_bound_inner)
        else:
            ok3 = False
        ok = ok1 and ok2 and ok3
        rep.add("C01.R1", f"{gvs.qname}:DEFAULT", ok, f"{gvs.module.rel}:{r.lineno}", "a signature default is used only after state, graph-bound and inner-bound look-ups failed" if ok else f"a signature default can win over a higher-priority source (after-state={ok1}, after-graph-bound={ok2}, after-inner-bound={ok3})")
    # the BOUND table itself is complete (scope narrowing never drops a binding)
    from .c08 import check_inner_bound_merge_complete

    check_inner_bound_merge_complete(ctx, "C01.R1")
    # R1b
    ini = db.func("runners._shared.helpers.initialize_state")
    loops = [n for n in walk_local(ini.node) if isinstance(n, ast.For) and "values.items()" in src(n.iter)]
    ok = len(loops) == 1 and len(loops[0].body) == 1 and isinstance(loops[0].body[0], ast.Expr) and "update_value" in src(loops[0].body[0]) and not any(isinstance(x, (ast.If, ast.Continue, ast.Break)) for x in ast.walk(loops[0]))
    rep.add("C01.R1", f"{ini.qname}:seeds-every-provided-value", ok, ini.loc(), "every provided value is stored into the fresh state unconditionally" if ok else "initialize_state no longer stores every provided value (provided-vs-bound precedence would then depend on branch order)")
    sss = set(superstep_funcs(db))
    for impl in execute_impl_funcs(db):
        init_calls = [c for c in db.calls_in(impl) if "initialize_state" in call_names(db, c, impl)]
        ss_calls = [(c, cal.func) for c, cal in db.callees(impl) if cal.func in sss]
        ok = len(init_calls) == 1 and len(ss_calls) >= 1
        if ok:
            a = bind_args(init_calls[0], ini).get("values")
            for c, tgt in ss_calls:
                b = bind_args(c, tgt).get("provided_values")
                if not (isinstance(a, ast.Name) and isinstance(b, ast.Name) and a.id == b.id and a.id in impl.param_names and a.id not in db.local_defs(impl)):
                    ok = False
        rep.add("C01.R1", f"{impl.qname}:same-mapping", ok, impl.loc(), "the mapping seeded into the state is the one handed to the superstep" if ok else "initialize_state and the superstep receive different value mappings")

    # the BOUND source holds what bind() stored, nothing else: a run never writes its run-time values into the table the
    # resolver and the readiness test read as bindings (a later run would get them instead of its signature defaults)
    from .c08 import check_validation_read_only

    check_validation_read_only(ctx, "C01.R1")

    # ---- R2 ---------------------------------------------------------------------
    check_readiness_vs_resolver(ctx, "C01.R2")

    # ---- R3 ---------------------------------------------------------------------
    check_ready_conjunction(ctx, "C01.R3")
    from .c04 import check_stale_comparator

    check_stale_comparator(ctx, "C01.R3")
    from .c04 import check_step_loop

    check_step_loop(ctx, "C01.R3", "C01.R3")
    # a node that has never executed needs execution — unconditionally (values the caller supplied for its
    # outputs do not stand in for it: an upstream output wins over a run-time value once the producer can run)
    ne = db.func("runners._shared.helpers._needs_execution")
    ncfg = ctx.cfg(ne)
    never_atoms = {}
    for t in ncfg.nodes:
        if t.kind == "test" and t.ast is not None:
            for a in test_atoms(t.ast):
                if isinstance(a, ast.Compare) and len(a.ops) == 1 and isinstance(a.ops[0], (ast.In, ast.NotIn)) and src(a.comparators[0]).endswith(".node_executions"):
                    never_atoms[src(ast.Compare(a.left, [ast.NotIn()], a.comparators))] = True
                    never_atoms[src(ast.Compare(a.left, [ast.In()], a.comparators))] = False
    live_never = reachable(ncfg.entry, specialize(never_atoms, ncfg)) if never_atoms else set()
    rets_never = [r for r in live_never if r.kind == "stmt" and isinstance(r.ast, ast.Return)]
    okn = bool(never_atoms) and bool(rets_never) and all(isinstance(r.ast.value, ast.Constant) and r.ast.value.value is True for r in rets_never)
    rep.add("C01.R3", f"{ne.qname}:never-executed-needs-execution", okn, ne.loc(), "a node without an execution record always needs execution" if okn else f"a node that has never executed can be judged not to need execution ('{src(rets_never[0].ast)[:70] if rets_never else '?'}'): a satisfiable node is silently not scheduled and a supplied run-time value shadows the upstream output")

    # ---- R4 ---------------------------------------------------------------------
    gstate = db.cls("runners._shared.types.GraphState")
    uv = gstate.methods["update_value"]
    from .common import state_update_sites

    ucfg, incs, all_stores = state_update_sites(ctx, uv)
    # whatever is (re-)produced under a name becomes the name's value: every path through the update stores the value,
    # whether or not it counts as a change for the version
    ok_store = bool(all_stores) and all_paths_pass(ucfg.entry, ucfg.exit_return, all_stores)
    rep.add("C01.R4", f"{uv.qname}:always-stores", ok_store, uv.loc(), "every path through the update stores the value" if ok_store else "the value is stored only when it counts as a change: a re-production that compares equal to the stored value (True after 1, Decimal('1.00') after Decimal('1.0'), a record whose payload field is excluded from comparison) is dropped — the state and the result keep the older object, e.g. the transient output computed from a signature default instead of the dependency-order value, or a run-time value instead of the upstream output that has precedence")
    names_new = [nm for nm, ds in db.local_defs(uv).items() if any(isinstance(d, ast.Assign) and " not in " in src(d.value) and "values" in src(d.value) for d in ds)]
    val = {nm: True for nm in names_new}
    val["name not in self.values"] = True
    val["name in self.values"] = False
    has_new_test = bool(names_new) or any(n.kind == "test" and "not in self.values" in src(n.ast) for n in ucfg.nodes)
    ok = has_new_test and bool(incs) and all_paths_pass(ucfg.entry, ucfg.exit_return, incs, specialize(val, ucfg))
    if ok and names_new:
        dom = dominators(ucfg.entry)
        stores = all_stores
        newdefs = [n for n in ucfg.nodes if n.kind == "stmt" and isinstance(n.ast, ast.Assign) and isinstance(n.ast.targets[0], ast.Name) and n.ast.targets[0].id in names_new]
        ok = bool(stores) and all(any(d in dom.get(s, set()) for d in newdefs) for s in stores)
    rep.add("C01.R4", f"{uv.qname}:first-production-advances", ok, uv.loc(), "the first production of a name always advances its version" if ok else "the first production of a name can leave its version at 0 (e.g. an upstream None): a consumer that already ran on its signature default is never re-run with the upstream value")

    # each argument is resolved for the node that receives it (the first available source *of that node*): nothing
    # enters a node's inputs except through the per-node, per-parameter resolver call
    from .c18 import check_inputs_from_resolver

    check_inputs_from_resolver(ctx, "C01.R1")
    # "... ending with the signature default as written": what a node receives for a defaulted parameter is a deep copy of
    # the default, whatever its type, so no execution sees what an earlier one did to it
    from .c18 import check_default_copy_is_deep

    check_default_copy_is_deep(ctx, "C01.R1")

    # every declared output that was produced is returned with the value it holds: the only values withheld are the
    # ordering signals, recognised by identity with the module's sentinel
    from .c16 import check_sentinel_by_identity

    check_sentinel_by_identity(ctx, "C01.R5")

    # ---- R6 ---------------------------------------------------------------------
    from .c02 import check_versions_from_snapshot

    check_versions_from_snapshot(ctx, "C01.R6")

    # ---- R7 ---------------------------------------------------------------------
    # the DEFAULT source: signature defaults are looked up under the parameter's current name
    from .c06 import check_batch_isolation

    bfm = db.func("nodes._callable._build_forward_rename_map")
    cm = db.cls("nodes._callable.CallableMixin")
    dflt = cm.methods.get("defaults")
    if dflt is None:
        raise AnalysisError("CallableMixin.defaults vanished")
    uses_map = [v for v in vars_from_call(db, dflt, {bfm.name})]
    keyed = False
    for n in ast.walk(dflt.node):
        if isinstance(n, ast.DictComp) and isinstance(n.key, ast.Call) and isinstance(n.key.func, ast.Attribute) and n.key.func.attr == "get" and isinstance(n.key.func.value, ast.Name) and n.key.func.value.id in uses_map:
            keyed = True
        if isinstance(n, ast.Assign) and isinstance(n.targets[0], ast.Subscript) and any(isinstance(x, ast.Name) and x.id in uses_map for x in ast.walk(n.targets[0].slice)):
            keyed = True
    rep.add("C01.R7", f"{dflt.qname}:keyed-by-current-name", keyed, dflt.loc(), "the defaults table is keyed through the forward rename map (current names)" if keyed else "the defaults table is not keyed through the forward rename map: a renamed parameter's signature default is lost or attached to another name")
    for mname in ("has_default_for", "get_default_for"):
        m = cm.methods.get(mname)
        ok = m is not None and any(isinstance(x, ast.Attribute) and x.attr == "defaults" for x in walk_local(m.node))
        rep.add("C01.R7", f"CallableMixin.{mname}:reads-defaults-table", ok, m.loc() if m else cm.loc(), "looks the current name up in the defaults table" if ok else "does not consult the defaults table keyed by current names")
    check_batch_isolation(ctx, "C01.R7", (bfm,))

    # ---- R8 ---------------------------------------------------------------------
    from sa.model import is_user_func_call
    from .common import enclosing_facts

    n8 = 0
    for ci in db.classes.values():
        if ".executors.function_node" not in ci.module.name:
            continue
        for m in ci.methods.values():
            for c in db.calls_in(m):
                if not is_user_func_call(db, c, m):
                    continue
                st = c._parent if isinstance(getattr(c, "_parent", None), ast.Assign) else None  # type: ignore[attr-defined]
                rv = st.targets[0].id if st is not None and isinstance(st.targets[0], ast.Name) else None
                n8 += 1
                if rv is None:
                    rep.bad("C01.R8", f"{m.qname}:result-transformations", m.loc(), "the function's result is not bound to a local")
                    continue
                bad = []
                for d in db.local_defs(m).get(rv, []):
                    if d is st:
                        continue
                    facts = enclosing_facts(d)
                    allowed = False
                    for a, pol in facts:
                        t = src(a)
                        if pol and isinstance(a, ast.Call) and (dotted(a.func) or "").split(".")[-1] == "iscoroutine" and a.args and src(a.args[0]) == rv and isinstance(getattr(d, "value", None), ast.Await):
                            allowed = True  # result of an async def node function
                        if pol and t.endswith(".is_generator") or pol and t.endswith(".is_async"):
                            allowed = True  # the node's declared mode
                    if not allowed:
                        bad.append(d)
                ok = not bad
                rep.add("C01.R8", f"{m.qname}:result-transformations", ok, f"{m.module.rel}:{bad[0].lineno if bad else c.lineno}", "the result is rebound only when it is the coroutine of an async node function (awaited) or under the node's declared generator mode" if ok else f"'{src(bad[0])[:70]}' transforms the function's result under a test on the *value's* kind ({[src(a) for a, _ in enclosing_facts(bad[0])]}): a node that returns an awaitable/generator object as its value gets a different output than under the other runner")
                # ... and a declared generator IS materialised: calling a generator function only creates the generator
                # object — its body (the node's side effects included) runs while it is drained.  Under 'the node is a
                # generator' every normal path from the call to the return passes a draining rebind of the result.
                mcfg = ctx.cfg(m)
                gen_atoms = {src(a): True for t in mcfg.nodes if t.kind == "test" and t.ast is not None for a in test_atoms(t.ast) if src(a).endswith(".is_generator")}
                if gen_atoms:
                    drains = [n for n in mcfg.nodes if n.kind == "stmt" and isinstance(n.ast, ast.Assign) and any(isinstance(t_, ast.Name) and t_.id == rv for t_ in n.ast.targets) and n.ast is not st and any(isinstance(x, ast.Name) and x.id == rv for x in ast.walk(n.ast.value))]
                    callsite = mcfg.node_containing(c)
                    okd = bool(drains) and bool(callsite) and all(all_paths_pass(cs_, mcfg.exit_return, drains, both(specialize(gen_atoms, mcfg), lambda a, b, l, i: l != "exc")) for cs_ in callsite)
                    rep.add("C01.R8", f"{m.qname}:declared-generator-drained", okd, f"{m.module.rel}:{c.lineno}", "a declared generator is drained on every path before the outputs are wrapped" if okd else "a node declared as a generator can return without its generator having been drained (e.g. when it has no data outputs): the node is recorded as executed but its body never ran — a side-effect-only generator node silently does nothing")
    if n8 < 2:
        raise AnalysisError(f"only {n8} function executors with a user call found")

    # ---- R5 ---------------------------------------------------------------------
    wo = db.func("runners._shared.helpers.wrap_outputs")
    from sa.pattern import solve

    okz = bool(solve(["_D = node.data_outputs", "dict(zip(_D, result, strict=True))"], wo.node)) or bool(solve(["_D = node.data_outputs", "dict(zip(_D, result))"], wo.node))
    chk = False
    for env in solve(["_D = node.data_outputs", "len(_D) != len(result)"], wo.node):
        for n in walk_local(wo.node):
            if isinstance(n, ast.If) and any(isinstance(x, ast.Raise) for x in ast.walk(n)) and "len(" in src(n.test) and "!=" in src(n.test):
                chk = True
    rep.add("C01.R5", f"{wo.qname}:positional-unpack", okz and chk, wo.loc(), "multi-output: length check, then zip(data_outputs, result)" if okz and chk else "tuple returns are not unpacked positionally onto the data output names after a length check")
    single = bool(solve(["_D = node.data_outputs", "{_D[0]: result}"], wo.node))
    rep.add("C01.R5", f"{wo.qname}:single-output", single, wo.loc(), "single output: the returned object is stored as it is" if single else "a single data output is no longer stored as the returned object")


def check_bound_class_from_bound_tables(ctx, rule: str) -> None:
    """A value classified BOUND (shared, never copied) is read from a bind() table under the key
    that was just tested — everything else a wrapper exposes (inner signature defaults) must fall
    through to the DEFAULT class, which is deep-copied per run exactly as in the flat graph."""
    db, rep = ctx.db, ctx.rep
    gvs = db.func("runners._shared.helpers.get_value_source")
    cfg = ctx.cfg(gvs)
    dom = dominators(cfg.entry)
    n = 0
    for r in [x for x in cfg.nodes if x.kind == "stmt" and isinstance(x.ast, ast.Return) and _classify_return(x.ast) == "BOUND"]:
        n += 1
        v = r.ast.value.elts[1] if len(r.ast.value.elts) == 2 else None
        ok = isinstance(v, ast.Subscript) and isinstance(v.value, ast.Attribute) and (v.value.attr == "bound" and src(v.value).endswith("inputs.bound") or v.value.attr == "_bound")
        why = "value read from a bind() table"
        if ok:
            want = f"{src(v.slice)} in {src(v.value)}"
            tested = any(t.kind == "test" and t.ast is not None and any(src(a) == want for a in test_atoms(t.ast)) and any(l == "T" and (x is r or x in dom.get(r, set())) for x, l, _ in t.succ) for t in dom.get(r, set()))
            if not tested:
                ok, why = False, f"not guarded by the membership test '{want}'"
        else:
            why = f"'{src(v) if v is not None else '?'}' is not a bind() table entry: signature defaults surfaced by a wrapper would be shared between runs instead of copied (nested != flat)"
        rep.add(rule, f"{gvs.qname}:BOUND-from-bind-table@{n - 1}", ok, f"{gvs.module.rel}:{r.lineno}", why)
    if n < 1:
        raise AnalysisError("get_value_source: no BOUND return")
    # a nested-graph node's own bindings have a BOUND path of their own (the outer graph's merged table does not
    # contain them in every scope, e.g. when a default selection leaves the wrapper out of the computed spec)
    inner = [x for x in cfg.nodes if x.kind == "stmt" and isinstance(x.ast, ast.Return) and _classify_return(x.ast) == "BOUND" and len(x.ast.value.elts) == 2 and any(isinstance(y, ast.Attribute) and y.attr in ("_graph", "graph") and isinstance(y.value, ast.Name) and y.value.id != "graph" for y in ast.walk(x.ast.value.elts[1]))]
    # ... and that path has precedence over bindings merely *surfaced* from other nested graphs (the merged
    # inputs.bound of the enclosing graph keeps only the first of two nested graphs binding the same name)
    if inner:
        val = {}
        for t in cfg.nodes:
            if t.kind == "test" and t.ast is not None:
                for a in test_atoms(t.ast):
                    tx = src(a)
                    if isinstance(a, ast.Call) and dotted(a.func) == "isinstance" and "GraphNode" in tx:
                        val[tx] = True
                    if isinstance(a, ast.Compare) and isinstance(a.ops[0], ast.In):
                        rhs = src(a.comparators[0])
                        if rhs.endswith("._bound"):
                            val[tx] = False  # not bound on the enclosing graph itself
                        elif ("_graph" in rhs or ".graph." in rhs) and rhs.endswith("inputs.bound") and not rhs.startswith("graph."):
                            val[tx] = True  # bound on the node's own inner graph
        live = reachable(cfg.entry, specialize(val, cfg))
        merged = [x for x in cfg.nodes if x.kind == "stmt" and isinstance(x.ast, ast.Return) and _classify_return(x.ast) == "BOUND" and x not in inner and src(x.ast.value.elts[1]).startswith("graph.inputs.bound")]
        prec = not any(x in live for x in merged)
        rep.add(rule, f"{gvs.qname}:BOUND-own-inner-before-surfaced", prec, gvs.loc(), "a nested graph node takes the value its own inner graph bound before any binding surfaced from a sibling" if prec else "for a nested graph node the merged table of the enclosing graph is consulted before the node's own inner binding: when two nested graphs bind different objects under one name, the second one receives the first one's object")
        # ... but not over a binding made on the enclosing graph itself: bind() on the outer graph re-binds the name for
        # everything below it, exactly as the later of two bind() calls wins on the flat graph
        val2 = {}
        for t in cfg.nodes:
            if t.kind == "test" and t.ast is not None:
                for a in test_atoms(t.ast):
                    tx = src(a)
                    if isinstance(a, ast.Call) and dotted(a.func) == "isinstance" and "GraphNode" in tx:
                        val2[tx] = True
                    if isinstance(a, ast.Compare) and isinstance(a.ops[0], ast.In) and src(a.comparators[0]).endswith(("._bound", "inputs.bound")):
                        val2[tx] = True  # bound on the enclosing graph itself (hence also in its merged table) and on the inner graph
        live2 = reachable(cfg.entry, specialize(val2, cfg))
        outer_first = not any(x in live2 for x in inner)
        rep.add(rule, f"{gvs.qname}:BOUND-enclosing-own-before-inner", outer_first, gvs.loc(), "a binding made on the enclosing graph itself overrides the one made inside the nested graph" if outer_first else "a nested graph node takes its inner graph's binding although the enclosing graph re-binds the same input: outer.bind(k=9) over inner.bind(k=5) runs with 5, the inlined graph (later bind wins) with 9")
    rep.add(rule, f"{gvs.qname}:BOUND-inner-graph-path", bool(inner), gvs.loc(), "values bound on a nested graph are resolved as BOUND from the wrapper's own graph" if inner else "values bound on a nested graph have no BOUND path of their own: where the outer merged table lacks them they fall to the DEFAULT class and are deep-copied (or are not found at all)")


def check_default_class_from_signature(ctx, rule: str) -> None:
    """A value classified DEFAULT (deep-copied per resolution) is a signature default: it is obtained from
    get_signature_default_for, never from a lookup that also answers with values bound on a nested graph
    (those must reach the node as the very object that was bound)."""
    db, rep = ctx.db, ctx.rep
    gvs = db.func("runners._shared.helpers.get_value_source")
    cfg = ctx.cfg(gvs)
    rd = reaching_defs(cfg)
    n = 0
    for r in [x for x in cfg.nodes if x.kind == "stmt" and isinstance(x.ast, ast.Return) and _classify_return(x.ast) == "DEFAULT"]:
        n += 1
        v = r.ast.value.elts[1] if len(r.ast.value.elts) == 2 else None
        vals = [v]
        if isinstance(v, ast.Name):
            vals = [x for _, x in defs_reaching(cfg, rd, r, v.id) if x is not None]
        ok = bool(vals) and all(isinstance(x, ast.Call) and isinstance(x.func, ast.Attribute) and x.func.attr == "get_signature_default_for" for x in vals)
        rep.add(rule, f"{gvs.qname}:DEFAULT-from-signature@{n - 1}", ok, f"{gvs.module.rel}:{r.lineno}", "the copied class holds signature defaults only" if ok else f"'{src(vals[0]) if vals else '?'}' is classified DEFAULT: for a nested-graph node that lookup also returns values bound on the inner graph, which are then deep-copied on every resolution instead of being shared")
    if n < 1:
        raise AnalysisError("get_value_source: no DEFAULT return")


def _k(lst, x) -> int:
    return sorted(lst, key=lambda n: n.lineno).index(x)


HP = "src/hypergraph/runners/_shared/helpers.py"
TY = "src/hypergraph/runners/_shared/types.py"
VARIANTS = [
    Variant("value-stored-only-on-change", TY, lambda s_: s_.replace("        self.values[name] = value\n\n        # Only increment version", "        # Only increment version", 1).replace("        if is_new or value is _EMIT_SENTINEL:\n            self.versions[name] = self.versions.get(name, 0) + 1\n", "        if is_new or value is _EMIT_SENTINEL:\n            self.values[name] = value\n            self.versions[name] = self.versions.get(name, 0) + 1\n", 1).replace("            if changed:\n                self.versions[name] = self.versions.get(name, 0) + 1\n", "            if changed:\n                self.values[name] = value\n                self.versions[name] = self.versions.get(name, 0) + 1\n", 1), {"C01.R4"}),
    Variant("twin-version-bump-through-helper", TY, lambda s_: s_.replace("        if is_new or value is _EMIT_SENTINEL:\n            self.versions[name] = self.versions.get(name, 0) + 1\n", "        if is_new or value is _EMIT_SENTINEL:\n            self._advance(name)\n", 1).replace("            if changed:\n                self.versions[name] = self.versions.get(name, 0) + 1\n", "            if changed:\n                self._advance(name)\n\n    def _advance(self, name: str) -> None:\n        self.versions[name] = self.versions.get(name, 0) + 1\n", 1), set()),
    Variant("async-executor-awaits-any-awaitable", "src/hypergraph/runners/async_/executors/function_node.py", replace_once("        if inspect.iscoroutine(result):", "        if inspect.isawaitable(result):"), {"C01.R8"}),
    Variant("async-versions-from-new-state", "src/hypergraph/runners/async_/superstep.py", replace_once("input_versions = {param: state.get_version(param) for param in node.inputs}", "input_versions = {param: new_state.get_version(param) for param in node.inputs}"), {"C01.R6"}),
    Variant("bound-before-state", HP, chain(replace_once("    if param in graph._bound:\n        return (ValueSource.BOUND, graph._bound[param])\n", ""), replace_once("    if param in state.values:\n        return (ValueSource.EDGE, state.values[param])\n", "    if param in graph._bound:\n        return (ValueSource.BOUND, graph._bound[param])\n    if param in state.values:\n        return (ValueSource.EDGE, state.values[param])\n")), {"C01.R1"}),
    Variant("twin-provided-bound-swapped", HP, chain(replace_once("    if param in provided_values:\n        return (ValueSource.PROVIDED, provided_values[param])\n", ""), replace_once("    if param in graph._bound:\n        return (ValueSource.BOUND, graph._bound[param])\n", "    if param in graph._bound:\n        return (ValueSource.BOUND, graph._bound[param])\n    if param in provided_values:\n        return (ValueSource.PROVIDED, provided_values[param])\n")), set()),
    Variant("default-before-inner-bound", HP, chain(replace_once("    if node.has_signature_default_for(param):\n        default = node.get_signature_default_for(param)\n        return (ValueSource.DEFAULT, default)\n", ""), replace_once("    if isinstance(node, GraphNode):\n        original_param = node._resolve_original_input_name(param)\n        if original_param in node._graph.inputs.bound:\n            return (ValueSource.BOUND, node._graph.inputs.bound[original_param])\n", "    if node.has_signature_default_for(param):\n        default = node.get_signature_default_for(param)\n        return (ValueSource.DEFAULT, default)\n    if isinstance(node, GraphNode):\n        original_param = node._resolve_original_input_name(param)\n        if original_param in node._graph.inputs.bound:\n            return (ValueSource.BOUND, node._graph.inputs.bound[original_param])\n")), {"C01.R1"}),
    Variant("no-inner-bound-branch", HP, replace_once("    if isinstance(node, GraphNode):\n        original_param = node._resolve_original_input_name(param)\n        if original_param in node._graph.inputs.bound:\n            return (ValueSource.BOUND, node._graph.inputs.bound[original_param])\n", ""), {"C01.R1", "C01.R2"}),
    Variant("seed-skips-none", HP, replace_once("    for name, value in values.items():\n        state.update_value(name, value)\n", "    for name, value in values.items():\n        if value is not None:\n            state.update_value(name, value)\n"), {"C01.R1"}),
    Variant("ready-ignores-bound", HP, replace_once("    # Bound value in graph\n    if param in graph.inputs.bound:\n        return True\n\n", ""), {"C01.R2"}),
    Variant("ready-without-inputs-check", HP, replace_once("    if not _has_all_inputs(node, graph, state):\n        return False\n", ""), {"C01.R3"}),
    Variant("first-none-not-counted", TY, replace_once("        if is_new or value is _EMIT_SENTINEL:", "        if value is _EMIT_SENTINEL:"), {"C01.R4"}),
    Variant("wrap-no-length-check", HP, sub_once(r"        if len\(data_outputs\) != len\(result\):\n            raise ValueError\(.*?\)\n", ""), {"C01.R5"}),
    Variant("wrap-reversed", HP, replace_once("wrapped = dict(zip(data_outputs, result, strict=True))", "wrapped = dict(zip(reversed(data_outputs), result, strict=True))"), {"C01.R5"}),
    Variant("never-executed-conditional", HP, replace_once("    if node.name not in state.node_executions:\n        return True  # Never executed\n", "    if node.name not in state.node_executions:\n        return not all(o in state.values for o in node.outputs)\n"), {"C01.R3"}),
    Variant("twin-never-executed-positive-form", HP, replace_once("    if node.name not in state.node_executions:\n        return True  # Never executed\n\n    # Check if any input has changed since last execution\n    last_exec = state.node_executions[node.name]\n    return _is_stale(node, graph, state, last_exec)", "    if node.name in state.node_executions:\n        return _is_stale(node, graph, state, state.node_executions[node.name])\n    return True"), set()),
]

"""C17 Ordering signals: a waiting node runs after, and once per, each production."""

from __future__ import annotations

import ast

from sa.cfg import all_paths_pass, dominators, reachable, reaches, specialize, test_atoms
from sa.db import AnalysisError, dotted, src, walk_local
from sa.flow import backward_slice, defs_reaching, reaching_defs
from sa.model import contains, enclosing, superstep_funcs
from sa.variants import Variant, replace_once, sub_first, sub_once

from .c03 import check_ready_conjunction
from .common import NotComparable, call_names, ordering_table, vars_from_call

ID = "C17"
EXPLANATION = (
    "Decides the comparator, the bookkeeping and the liveness contradiction behind ordering signals: (R1) on re-execution a waited-for name is fresh "
    "iff its current version is strictly greater than the consumed one (symbolic ordering evaluation; versions are monotone) and on first execution "
    "the name must exist; (R2) both supersteps record wait_for versions from the pre-step snapshot, so a same-step production is never marked "
    "consumed; (R3) readiness includes the wait check and the returned ready list passes through the producer-first deferral, which compares "
    "wait_for names with the outputs of the *other* co-ready nodes; (R4) liveness: since freshness is a strict version increase, every production "
    "of an emit output must advance its version — either the version write is not control-dependent on value inequality when the stored value is "
    "the one module-level sentinel, or emit writers store a fresh object per production; and the first production of any name always advances its "
    "version (R4b), so a consumer that already ran on a default is re-run. (R5) every completion of an emit-capable node produces its signals: each normal return of the executors of function, route, if/else and interrupt nodes is the result of a function that stores the sentinel for every emit output (followed through helper returns and single-assignment temporaries). R3 also requires that the gate-decides-first block is computed before the deferral (a deferred gate still holds its targets back, else the loop synchronised on the signal never evaluates its gate). R5 also covers completions served from the cache: on a hit the whole restored payload (data outputs and re-applied sentinels) is applied, not a projection of it."
    " R5 also requires that the cache key depends on the node's full output names (emit names included) or that the served payload is projected onto the hitting node's outputs: a hit on one node never produces the signal of another node that stored the entry."
    " R2 also requires that the per-step state copy carries each execution record whole (every field named, or dataclasses.replace)."
    ' R1 reads the freshness and existence tests in their loop form and in their all()/any() forms; an existential quantifier over the waited-for names (one fresh signal suffices) is a violation.'
)
NOT_DECIDED = "Full liveness of arbitrary loops (that the other readiness conditions eventually hold); several waiters per signal are covered only through the per-node bookkeeping."


def check_state_copy_keeps_record(ctx, rule: str) -> None:
    """Every superstep starts from ``state.copy()``: the copy must carry each execution record whole — a record rebuilt
    field by field names every field of the record class (else the dropped one, e.g. the consumed wait_for versions,
    silently reverts to its default and an old signal counts as fresh again)."""
    db, rep = ctx.db, ctx.rep
    gs = db.cls("runners._shared.types.GraphState")
    ne = db.cls("runners._shared.types.NodeExecution")
    cp = gs.methods["copy"]
    fields = [n.target.id for n in ne.node.body if isinstance(n, ast.AnnAssign) and isinstance(n.target, ast.Name)]
    if len(fields) < 3:
        raise AnalysisError("NodeExecution fields not recognised")
    ok, why = False, "the per-record copy was not recognised"
    for c in db.calls_in(cp):
        d = (dotted(c.func) or "").split(".")[-1]
        if d == "replace" and c.args:
            ok, why = True, "records are copied with dataclasses.replace (every field not named is carried over)"
        elif d == ne.name:
            named = {k.arg for k in c.keywords} | set(fields[: len(c.args)])
            missing = [f_ for f_ in fields if f_ not in named]
            ok = not missing
            why = "the rebuilt record names every field" if ok else f"the record is rebuilt without {missing}: after the next state copy a waiter's consumed signal versions read as 0, any existing signal counts as fresh and the waiter restarts without a new production"
    rep.add(rule, f"{cp.qname}:record-carried-whole", ok, cp.loc(), why)


def check_wait_freshness(ctx, rule: str) -> None:
    """On re-execution a waited-for name is fresh iff its current version is strictly greater than the consumed one;
    on first execution it must exist."""
    db, rep = ctx.db, ctx.rep
    w = db.func("runners._shared.helpers._wait_for_satisfied")
    cur = cons = None
    # the two operands are found by what they denote, through single-assignment locals: 'current' reads the state's
    # version of the name, 'consumed' reads the version the last execution recorded for it
    wdefs = {nm: ds[0].value for nm, ds in db.local_defs(w).items() if len(ds) == 1 and isinstance(ds[0], (ast.Assign, ast.AnnAssign)) and getattr(ds[0], "value", None) is not None}

    def expand(e: ast.AST, depth: int = 0) -> str:
        t_ = src(e)
        if depth < 3:
            for x in ast.walk(e):
                if isinstance(x, ast.Name) and x.id in wdefs:
                    t_ += " " + expand(wdefs[x.id], depth + 1)
        return t_

    # quantifier form: the same conditions written as all(...)/any(...) over the waited-for names
    quant = []  # (universal?, condition, condition-states-the-requirement?)
    for c in [x for x in walk_local(w.node) if isinstance(x, ast.Call) and dotted(x.func) in ("all", "any") and len(x.args) == 1 and isinstance(x.args[0], (ast.GeneratorExp, ast.ListComp)) and len(x.args[0].generators) == 1 and src(x.args[0].generators[0].iter).endswith(".wait_for")]:
        par = getattr(c, "_parent", None)
        neg = False
        if isinstance(par, ast.UnaryOp) and isinstance(par.op, ast.Not):
            neg, par = True, getattr(par, "_parent", None)
        is_all = dotted(c.func) == "all"
        cond = c.args[0].elt
        if isinstance(par, ast.Return):
            # return all(c): requires c of every name; return any(c): one name suffices
            quant.append((is_all and not neg, cond, True))
        elif isinstance(par, ast.If) and any(isinstance(s_, ast.Return) and isinstance(s_.value, ast.Constant) and s_.value.value is False for s_ in par.body):
            # if any(c): return False  -> every name must satisfy not c;   if not all(c): return False -> every name must satisfy c
            if not is_all and not neg:
                quant.append((True, cond, False))
            elif is_all and neg:
                quant.append((True, cond, True))
            else:
                quant.append((False, cond, True))

    def _kinds(cmp_):
        ops_ = [cmp_.left, cmp_.comparators[0]]
        return ops_, ["cur" if ("get_version" in expand(o) or ".versions" in expand(o)) and "wait_for_versions" not in expand(o) else "cons" if "wait_for_versions" in expand(o) else None for o in ops_]

    q_fresh = [(u, cnd, pos) for u, cnd, pos in quant for cmp_ in [x for x in ast.walk(cnd) if isinstance(x, ast.Compare) and len(x.ops) == 1] if set(_kinds(cmp_)[1]) == {"cur", "cons"}]
    q_exist = [(u, cnd, pos) for u, cnd, pos in quant if any(isinstance(x, ast.Compare) and len(x.ops) == 1 and isinstance(x.ops[0], (ast.In, ast.NotIn)) and src(x.comparators[0]).endswith(".values") for x in ast.walk(cnd))]
    if q_fresh:
        u, cnd, pos = q_fresh[0]
        cmp_ = [x for x in ast.walk(cnd) if isinstance(x, ast.Compare) and len(x.ops) == 1 and set(_kinds(x)[1]) == {"cur", "cons"}][0]
        ops_, kinds = _kinds(cmp_)
        cur, cons = src(ops_[kinds.index("cur")]), src(ops_[kinds.index("cons")])
        try:
            tab = ordering_table(cnd, cur, cons)
            fresh = {k: (v if pos else not v) for k, v in tab.items()}
            okq = u and fresh["eq"] is False and fresh["gt"] is True
            whyq = "every waited-for name must be fresh: current > consumed" if okq else ("one fresh signal suffices (the condition is existential over the waited-for names): a node waiting on several signals re-runs as soon as any of them was produced again, combining this round's values with the previous round's" if not u else f"freshness condition '{src(cnd)}' gives eq->{fresh['eq']}, gt->{fresh['gt']} (expected eq->stale, gt->fresh)")
            rep.add(rule, f"{w.qname}:comparator", okq, w.loc(), whyq)
        except NotComparable as e:
            rep.bad(rule, f"{w.qname}:comparator", w.loc(), f"freshness condition is not a pure version comparison ({e})")
        first_ok = any(isinstance(n, ast.If) and "is None" in src(n.test) and any(isinstance(s_, ast.Return) and isinstance(s_.value, ast.Constant) and s_.value.value is True for s_ in n.body) for n in walk_local(w.node)) or any(k in expand(ast.parse(cons, mode="eval").body) for k in ("else {}", "or {}", "else dict()"))
        rep.add(rule, f"{w.qname}:only-on-reexecution", first_ok, w.loc(), "the version comparison applies on re-execution only (first execution returns before it, or compares against the default 0)" if first_ok else "the version comparison also constrains the first execution")
        if q_exist:
            ue, cnde, pose = q_exist[0]
            exist_ok = ue and (("not in" in src(cnde)) != pose)
            rep.add(rule, f"{w.qname}:existence", exist_ok, w.loc(), "every waited-for name must exist in the state before the node may start" if exist_ok else "the existence condition does not require every waited-for name to be present")
            return
    tests = []
    for n in walk_local(w.node):
        if isinstance(n, ast.If):
            for cmp_ in [x for x in ast.walk(n.test) if isinstance(x, ast.Compare) and len(x.ops) == 1]:
                ops_ = [cmp_.left, cmp_.comparators[0]]
                kinds = ["cur" if ("get_version" in expand(o) or ".versions" in expand(o)) and "wait_for_versions" not in expand(o) else "cons" if "wait_for_versions" in expand(o) else None for o in ops_]
                if set(kinds) == {"cur", "cons"}:
                    cur, cons = src(ops_[kinds.index("cur")]), src(ops_[kinds.index("cons")])
                    tests.append(n)
    if q_fresh:
        pass
    elif not tests:
        rep.bad(rule, f"{w.qname}:comparator", w.loc(), "comparison of current and consumed wait_for versions not found")
    else:
        t = tests[0]
        ret_false = any(isinstance(s, ast.Return) and isinstance(s.value, ast.Constant) and s.value.value is False for s in t.body)
        ret_true = any(isinstance(s, ast.Return) and isinstance(s.value, ast.Constant) and s.value.value is True for s in t.body)
        try:
            tab = ordering_table(t.test, cur, cons)
            fresh = {k: ((not v) if ret_false else v) for k, v in tab.items()} if (ret_false or ret_true) else None
            ok = fresh is not None and fresh["eq"] is False and fresh["gt"] is True
            rep.add(rule, f"{w.qname}:comparator", ok, f"{w.module.rel}:{t.lineno}", f"fresh iff current > consumed (eq->{fresh['eq']}, gt->{fresh['gt']})" if ok else f"freshness test '{src(t.test)}' gives eq->{fresh and fresh['eq']}, gt->{fresh and fresh['gt']} (expected eq->stale, gt->fresh): a waiter either re-runs without a new production or never re-runs")
        except NotComparable as e:
            rep.bad(rule, f"{w.qname}:comparator", f"{w.module.rel}:{t.lineno}", f"freshness test is not a pure version comparison ({e})")
        # comparison only on re-execution; existence always
        g = enclosing(t, (ast.If,))
        ok = g is not None and "is not None" in src(g.test)
        if g is None and any(k in expand(ast.parse(cons, mode="eval").body) for k in ("else {}", "or {}", "else dict()")):
            # unguarded form: with no earlier execution the consumed version defaults to 0, which no existing name has
            # (first production always advances the version, C17.R4b) — the comparison is vacuous on first execution
            rep.add(rule, f"{w.qname}:only-on-reexecution", True, w.loc(), "the comparison also runs on first execution, against the default 0 that no existing name has")
            g = "skip"
        if ok:
            # 'has executed before' is the *only* condition of the freshness test: it holds for signals and
            # for value names alike (whatever the waited-for name currently holds)
            from .common import eval_bool, norm_atom

            exec_atoms = {}
            for a_ in test_atoms(g.test):
                k_, _ = norm_atom(a_)
                if k_.endswith(" is None"):
                    exec_atoms[k_] = False
            if eval_bool(g.test, exec_atoms) is not True:
                ok = False
        if g != "skip":
            rep.add(rule, f"{w.qname}:only-on-reexecution", ok, w.loc(), "version comparison applies exactly when the node has executed before" if ok else "the version comparison is not applied exactly on re-execution (missing, or under an extra condition such as 'the name holds a signal'): a first run would compare against version 0, or a waiter on a value name re-runs without a new production")
    ex = [n for n in walk_local(w.node) if isinstance(n, ast.If) and " not in " in src(n.test) and "values" in src(n.test) and any(isinstance(s, ast.Return) and isinstance(s.value, ast.Constant) and s.value.value is False for s in n.body)]
    in_loop = bool(ex) and enclosing(ex[0], (ast.For,)) is not None and "wait_for" in src(enclosing(ex[0], (ast.For,)).iter)
    if not in_loop and q_exist:
        ue, cnde, pose = q_exist[0]
        in_loop = ue and (("not in" in src(cnde)) != pose)
    rep.add(rule, f"{w.qname}:existence", in_loop, w.loc(), "every waited-for name must exist in the state before the node may start" if in_loop else "the existence check of waited-for names is missing (a waiter could start before any producer completed)")



def run(ctx) -> None:
    db, rep = ctx.db, ctx.rep
    rep.rule("C17.R1", "freshness comparator: fresh iff current > consumed; first execution requires existence", floor=2)
    rep.rule("C17.R2", "wait_for versions are recorded from the pre-step snapshot", floor=2)
    rep.rule("C17.R3", "readiness includes the wait check; ready list passes the producer-first deferral", floor=3)
    rep.rule("C17.R4", "every production of an emit output (and every first production) advances the version", floor=3)
    rep.rule("C17.R5", "every completion of an emit-capable node returns its signals: each normal return of its executor comes from an emit-completing function", floor=7)

    # ---- R1 ---------------------------------------------------------------------
    check_wait_freshness(ctx, "C17.R1")
    check_state_copy_keeps_record(ctx, "C17.R2")
    check_consumed_signals_recorded(ctx, "C17.R2")

    # ---- R2 ---------------------------------------------------------------------
    from sa.effects import Effects

    E = Effects(db)
    gstate = db.cls("runners._shared.types.GraphState")
    for ss in superstep_funcs(db):
        snap = [p for p in ss.param_names if (db.ann_to_ty(ss.param_annotation(p), ss.module, ss) or None) and gstate in db.ann_to_ty(ss.param_annotation(p), ss.module, ss).classes()]
        fs = [ss] + list(ss.children.values())
        found = False
        for f in fs:
            env = E.env(f)
            for n in walk_local(f.node):
                # a dict built by iterating <node>.wait_for and asking a state for versions
                if isinstance(n, ast.Assign) and isinstance(n.value, ast.DictComp) and isinstance(n.value.generators[0].iter, ast.Attribute) and n.value.generators[0].iter.attr == "wait_for":
                    found = True
                    calls = [c for c in ast.walk(n.value) if isinstance(c, ast.Call) and isinstance(c.func, ast.Attribute) and c.func.attr == "get_version"]
                    ok = bool(calls) and all(E.paths(c.func.value, env) and all(r in (snap[0], f"free:{snap[0]}") and p == () for r, p in E.paths(c.func.value, env)) for c in calls)
                    rep.add("C17.R2", f"{f.qname}:wait_for_versions", ok, f"{f.module.rel}:{n.lineno}", "consumed wait_for versions come from the pre-step snapshot" if ok else "consumed wait_for versions are not read from the pre-step snapshot: a signal produced in the same step would be marked consumed and the waiter would miss it")
        # and they are stored into the execution record
        stored = any(isinstance(c, ast.Call) and "NodeExecution" in src(c.func) and any(k.arg == "wait_for_versions" for k in c.keywords) for f in fs for c in walk_local(f.node) if isinstance(c, ast.Call))
        if not stored:
            rep.bad("C17.R2", f"{ss.qname}:record", ss.loc(), "the execution record no longer carries wait_for_versions")

    # ---- R3 ---------------------------------------------------------------------
    check_ready_conjunction(ctx, "C17.R3")
    grn = db.func("runners._shared.helpers.get_ready_nodes")
    cfg = ctx.cfg(grn)
    rd = reaching_defs(cfg)
    rets = [n for n in cfg.nodes if n.kind == "stmt" and isinstance(n.ast, ast.Return)]
    ok = bool(rets)
    for r in rets:
        vals = [r.ast.value]
        if isinstance(r.ast.value, ast.Name):
            vals = [v for d, v in defs_reaching(cfg, rd, r, r.ast.value.id) if v is not None]
        if not all(isinstance(v, ast.Call) and "_defer_wait_for_nodes" in call_names(db, v, grn) for v in vals):
            ok = False
    rep.add("C17.R3", f"{grn.qname}:deferral-last", ok, grn.loc(), "the returned ready list is the result of the producer-first deferral" if ok else "the ready list can be returned without passing the producer-first deferral (a waiter could start in the same step as its producer)")
    dfn = db.func("runners._shared.helpers._defer_wait_for_nodes")
    from sa.pattern import solve

    RDY = (dfn.positional_params + ["ready"])[0]  # the ready list is the function's first parameter, whatever its name
    envs = solve([f"for _N in {RDY}: ...", "for _W in _N.wait_for: ...", f"for _O in {RDY}: ...", "_W in _O.outputs", "_O.name != _N.name", "_D.add(_N.name)", f"[_X for _X in {RDY} if _X.name not in _D]"], dfn.node)
    ok = bool(envs)
    rep.add("C17.R3", f"{dfn.qname}:shape", ok, dfn.loc(), "a node is deferred iff one of its wait_for names is an output of another co-ready node" if ok else "deferral no longer compares wait_for names with the outputs of the other co-ready nodes")

    # ---- R4 ---------------------------------------------------------------------
    uv = gstate.methods["update_value"]
    from .common import state_update_sites

    ucfg, incs, all_stores17 = state_update_sites(ctx, uv)
    if not incs:
        raise AnalysisError("update_value: version increment not found")
    # sentinel constant and its writers
    sent = db.resolve_dotted("hypergraph.nodes.base._EMIT_SENTINEL")
    sent_is_const = sent is not None and sent[0] == "const" and isinstance(sent[1][2], ast.Call) and dotted(sent[1][2].func) == "object"
    writers = []
    for f in db.all_funcs():
        for n in walk_local(f.node):
            if isinstance(n, ast.Assign) and isinstance(n.value, ast.Name) and n.value.id == "_EMIT_SENTINEL" and any(isinstance(t, ast.Subscript) for t in n.targets):
                writers.append((f, n))
    rep.add("C17.R4", "emit-writers", len(writers) >= 2 and sent_is_const, "src/hypergraph/nodes/base.py:1", f"{len(writers)} emit writers store the single module constant _EMIT_SENTINEL = object()" if len(writers) >= 2 and sent_is_const else "emit writers / sentinel constant not recognised")
    # the value parameter
    vparam = [p for p in uv.param_names if p not in ("self", "name")][0]
    names_new = [nm for nm, ds in db.local_defs(uv).items() if any(isinstance(d, ast.Assign) and " not in " in src(d.value) and "values" in src(d.value) for d in ds)]
    val = {f"{vparam} is _EMIT_SENTINEL": True}
    for nm in names_new:
        val[nm] = False
    val["name not in self.values"] = False
    val["name in self.values"] = True
    ef = specialize(val, ucfg)
    ok = all_paths_pass(ucfg.entry, ucfg.exit_return, incs, ef)
    rep.add(
        "C17.R4",
        f"{uv.qname}:sentinel-reproduction-advances",
        ok,
        uv.loc(),
        "re-storing the emit sentinel under an existing name always passes a version increment" if ok else "re-emitting a signal does not advance its version: the stored sentinel is one constant, the increment is control-dependent on value inequality, so a waiter never sees the second production as fresh (a loop synchronised on the signal stalls)",
    )
    # R4b: first production always advances
    val2 = {}
    for nm in names_new:
        val2[nm] = True
    val2["name not in self.values"] = True
    val2["name in self.values"] = False
    has_new_test = bool(names_new) or any(n.kind == "test" and "not in self.values" in src(n.ast) for n in ucfg.nodes)
    ok = has_new_test and all_paths_pass(ucfg.entry, ucfg.exit_return, incs, specialize(val2, ucfg))
    rep.add("C17.R4", f"{uv.qname}:first-production-advances", ok, uv.loc(), "the first production of a name always advances its version" if ok else "the first production of a name can leave its version unchanged (e.g. a first value of None compares equal to 'missing'): consumers that ran earlier on a default are never re-run")
    # 'newness' must be sampled before the store: every evaluation of '<name> not in self.values' (bound to a local or
    # written directly in the version test) happens before the value is stored — after the store it is always false
    dom = dominators(ucfg.entry)
    stores = all_stores17
    samplers = [n for n in ucfg.nodes if n.ast is not None and n.kind in ("stmt", "test") and any(isinstance(x, ast.Compare) and len(x.ops) == 1 and isinstance(x.ops[0], (ast.In, ast.NotIn)) and src(x.comparators[0]).endswith(".values") for e in ([n.ast.value] if n.kind == "stmt" and isinstance(n.ast, (ast.Assign, ast.AnnAssign)) and n.ast.value is not None else [n.ast] if n.kind == "test" else []) for x in ast.walk(e))]
    if samplers or names_new:
        late = [m for m in samplers if any(s_ in dom.get(m, set()) for s_ in stores)]
        ok = bool(stores) and bool(samplers) and not late
        rep.add("C17.R4", f"{uv.qname}:newness-before-store", ok, uv.loc(), "'is the name new' is sampled before the value is stored" if ok else "'is the name new' is sampled after the store (always false)")

    check_block_before_deferral(ctx, "C17.R3")

    # ---- R5 ---------------------------------------------------------------------
    check_completions_emit(ctx, "C17.R5")
    # ... and the signal is produced under the producer's *current* emit names (what waiters and the graph see), not
    # under the names captured when the node was constructed
    from .c06 import check_emit_names_current

    check_emit_names_current(ctx, "C17.R5")
    check_wrapper_offers_no_inner_signals(ctx, "C17.R5")


def check_consumed_signals_recorded(ctx, rule: str) -> None:
    """Whenever a node's execution is recorded — run or served from the cache — the record holds, for every name the
    node waits for, the version read from the step's state: the record is what 'produced again since' is measured
    against, so an empty record makes the waiter start again on the next change of any input."""
    db, rep = ctx.db, ctx.rep
    n_rec = 0
    for ss in superstep_funcs(db):
        fs = [ss] + [ch for ch in ss.children.values()]
        recs = [(f, c) for f in fs for c in db.calls_in(f) if (dotted(c.func) or "").split(".")[-1] == "NodeExecution"]
        for f, c in recs:
            kw = {k.arg: k.value for k in c.keywords}
            a = kw.get("wait_for_versions")
            if not isinstance(a, ast.Name):
                rep.add(rule, f"{ss.qname}:consumed-signals-recorded", False, f"{f.module.rel}:{c.lineno}", f"the execution record is built with wait_for_versions={src(a) if a is not None else 'nothing'}")
                n_rec += 1
                continue
            vn = a.id
            n_rec += 1
            bad = None
            n_src = 0

            def good(v: ast.AST) -> bool:
                return isinstance(v, ast.DictComp) and len(v.generators) == 1 and src(v.generators[0].iter).endswith(".wait_for") and not v.generators[0].ifs and "get_version" in src(v.value) or (isinstance(v, ast.DictComp) and ".versions" in src(v.value) and src(v.generators[0].iter).endswith(".wait_for") and not v.generators[0].ifs)

            for g in fs:
                for x in walk_local(g.node):
                    if isinstance(x, ast.Assign) and any(isinstance(t, ast.Name) and t.id == vn for t in x.targets):
                        n_src += 1
                        if not good(x.value):
                            bad = bad or x
                    # the gathered coroutine hands the record fields back as a tuple: same position as the unpacking
                    if isinstance(x, ast.Return) and isinstance(x.value, ast.Tuple) and len(x.value.elts) == 4:
                        e = x.value.elts[3]
                        if not (isinstance(e, ast.Name) and e.id == vn) and not good(e):
                            bad = bad or x
            rep.add(rule, f"{ss.qname}:consumed-signals-recorded", bad is None and n_src >= 1, f"{ss.module.rel}:{(bad or c).lineno}", "every recorded execution carries the version of each awaited name, on executed and cache-hit paths alike" if bad is None and n_src else f"'{src(bad)[:80] if bad is not None else '?'}' records an execution without the versions of the names the node waits for (e.g. on a cache hit): the consumed version then reads as 0, so a cached waiter starts again as soon as one of its inputs changes although its signal was not produced again")
    if n_rec < 2:
        raise AnalysisError("execution records of the supersteps not found")


def check_wrapper_offers_no_inner_signals(ctx, rule: str) -> None:
    """A nested run returns values, never sentinels (filter_outputs drops them), so a nested-graph node cannot produce
    the ordering signals emitted inside it.  It must not *offer* them either: a name listed in its outputs passes the
    'some node produces it' validation of an outer wait_for — the outer waiter is then accepted and never runs (and a
    mapping node returns the signal name as a list of None placeholders)."""
    db, rep = ctx.db, ctx.rep
    gn = db.cls("nodes.graph_node.GraphNode")
    init = gn.methods["__init__"]
    outs = [n for n in walk_local(init.node) if isinstance(n, ast.Assign) and any(src(t) == "self.outputs" for t in n.targets)]
    defs = {nm: ds[0].value for nm, ds in db.local_defs(init).items() if len(ds) == 1 and getattr(ds[0], "value", None) is not None}
    filtered = True
    for o in outs:  # every assignment on its own: one unfiltered branch (e.g. 'a selection is taken as it is') offers signals
        exprs = [o.value]
        for _ in range(3):
            exprs += [defs[x.id] for e in list(exprs) for x in ast.walk(e) if isinstance(x, ast.Name) and x.id in defs and defs[x.id] not in exprs]
        txt = " ".join(src(e) for e in exprs)
        if not ("_get_emit_only_outputs" in txt or "data_outputs" in txt or "emit" in txt.lower() and "not in" in txt):
            filtered = False
    rep.add(rule, f"{gn.qname}:offers-no-inner-signals", bool(outs) and filtered, init.loc(), "the wrapper's outputs exclude the wrapped graph's emit-only names" if outs and filtered else "a nested-graph node lists the ordering signals emitted inside it among its outputs although its executor can never produce them: Graph([inner.as_node(), step_b(wait_for='a_done')]) is accepted and step_b never runs; with map_over the result contains 'a_done': [None, None]")


def check_block_before_deferral(ctx, rule: str) -> None:
    """The 'gate decides first' block is computed from the gates that are ready *before* the producer-first
    deferral: a gate that is ready but deferred (its signal's producer is co-ready) must still hold its
    targets back, otherwise the loop body re-runs ungated while the gate starves."""
    db, rep = ctx.db, ctx.rep
    grn = db.func("runners._shared.helpers.get_ready_nodes")
    cfg = ctx.cfg(grn)
    dom = dominators(cfg.entry)
    defer = [n for n in cfg.nodes if any("_defer_wait_for_nodes" in call_names(db, c, grn) for c in cfg.calls_at(n))]
    gates = [n for n in cfg.nodes if n.kind == "stmt" and isinstance(n.ast, ast.Assign) and isinstance(n.ast.value, (ast.SetComp, ast.ListComp)) and any(isinstance(x, ast.Call) and dotted(x.func) == "isinstance" and "GateNode" in src(x) for x in ast.walk(n.ast.value))]
    ok = bool(defer) and bool(gates) and all(any(g_ in dom.get(d, set()) for g_ in gates) for d in defer) and not any(d in dom.get(g_, set()) for d in defer for g_ in gates)
    rep.add(rule, f"{grn.qname}:gate-block-before-deferral", ok, grn.loc(), "the set of ready gates whose targets are held back is taken before the producer-first deferral" if ok else "ready gates are collected after the producer-first deferral: a gate deferred behind its signal's producer no longer blocks its targets, the body re-runs ungated and the gate is never evaluated (extra iterations / InfiniteLoopError)")


def check_completions_emit(ctx, rule: str) -> None:
    """Executors of node kinds that can declare ``emit=`` (function, route, if/else, interrupt nodes):
    every value they return is built by a function that stores the sentinel for each emit output
    (directly, or by returning another such function's result)."""
    db, rep = ctx.db, ctx.rep
    direct = set()
    for f in db.all_funcs():
        for n in walk_local(f.node):
            if isinstance(n, ast.Assign) and isinstance(n.value, ast.Name) and n.value.id == "_EMIT_SENTINEL" and any(isinstance(t, ast.Subscript) for t in n.targets):
                lp = enclosing(n, (ast.For,))
                if lp is not None and ("emit" in src(lp.iter) or "outputs" in src(lp.iter)):
                    direct.add(f)
    if len(direct) < 2:
        raise AnalysisError("emit writers not recognised")
    memo: dict[str, tuple[bool, str]] = {}

    def completes(f, depth=0) -> tuple[bool, str]:
        """every normal return of f yields an emit-completed mapping"""
        if f in direct:
            return True, f"{f.name} stores the sentinel for every emit output"
        if f.qname in memo:
            return memo[f.qname]
        memo[f.qname] = (True, "recursive")
        cfg = ctx.cfg(f)
        rd = reaching_defs(cfg)
        rets = [n for n in cfg.nodes if n.kind == "stmt" and isinstance(n.ast, ast.Return)]
        res = (bool(rets), "no return")
        for r in rets:
            vals = [r.ast.value]
            if isinstance(r.ast.value, ast.Name):
                vals = [v for d, v in defs_reaching(cfg, rd, r, r.ast.value.id)]
            for v in vals:
                if isinstance(v, ast.Await):
                    v = v.value
                good = False
                if isinstance(v, ast.Call) and depth < 5:
                    cals = [c.func for c in db.resolve_call(v, f) if c.func is not None]
                    good = bool(cals) and all(completes(g, depth + 1)[0] for g in cals)
                if not good:
                    res = (False, f"line {r.lineno}: returns '{src(r.ast.value)[:60] if r.ast.value is not None else None}' which is not the result of an emit-completing function")
        memo[f.qname] = res
        return res

    # a completion served from the cache produces the signals too: on the hit path the whole restored payload
    # (check_cache re-applies the sentinels) is what gets applied/returned, not a filtered projection of it
    for ss in superstep_funcs(db):
        for f in [ss] + list(ss.children.values()):
            cvars = set(vars_from_call(db, f, {"check_cache"}, index=1))
            if not cvars:
                continue
            hit_defs = []
            for nm, ds in db.local_defs(f).items():
                for d in ds:
                    v = getattr(d, "value", None)
                    if v is not None and nm not in cvars and any(isinstance(x, ast.Name) and x.id in cvars for x in ast.walk(v)) and not (isinstance(v, ast.Tuple)) and not (isinstance(v, ast.Call) and "check_cache" in call_names(db, v, f)):
                        hit_defs.append((nm, d, v))
            ok = bool(hit_defs) and all(isinstance(v, ast.Name) for _, _, v in hit_defs)
            bad = [v for _, _, v in hit_defs if not isinstance(v, ast.Name)]
            rep.add(rule, f"{f.qname}:hit-applies-whole-payload", ok, f.loc(), "on a cache hit the restored payload (data outputs and re-applied emit sentinels) is applied as it is" if ok else f"on a cache hit only a projection of the restored payload is applied ('{src(bad[0])[:70] if bad else '?'}'): emit sentinels are dropped, the signal's version does not advance and a waiter never runs for that production")
    # ... and only the hitting node's signals: a stored payload carries the storing node's emit names, so two
    # nodes that differ in their emit names must not share an entry (else a hit on one raises the other's
    # signal: a waiter starts before its producer, or re-runs without a new production)
    from .c09 import cache_key_attrs

    used = cache_key_attrs(ctx)
    if used is None:
        raise AnalysisError("compute_cache_key call in check_cache not recognised")
    cc = db.func("runners._shared.caching.check_cache")
    projected = any(
        isinstance(x, ast.DictComp) and any(isinstance(y, ast.Attribute) and y.attr in ("outputs", "data_outputs") for g in x.generators for y in ast.walk(g))
        for x in ast.walk(cc.node)
    )
    okk = "outputs" in used or "emit" in used or projected
    rep.add(rule, f"{cc.qname}:entry-keyed-by-signal-names", okk, cc.loc(), "the cache key depends on the node's full output names (emit names included): a hit serves an entry stored by a node with the same signals" if okk else "the cache key does not depend on the node's emit names and the served payload is not projected onto the hitting node's outputs: a hit on one node produces the signal of the other node that stored the entry")
    n = 0
    for ci in db.classes.values():
        if ".executors." not in ci.module.name or "GraphNode" in ci.name:
            continue
        call = ci.methods.get("__call__")
        if call is None:
            continue
        n += 1
        ok, why = completes(call)
        rep.add(rule, f"{call.qname}:returns-emit-completed", ok, call.loc(), "every normal return is emit-completed" if ok else f"a completion of the node does not produce its emit signals ({why}): a waiter on the signal never becomes ready although its producer completed")
    if n < 7:
        raise AnalysisError(f"only {n} emit-capable executors found")


HP = "src/hypergraph/runners/_shared/helpers.py"
TY = "src/hypergraph/runners/_shared/types.py"
SS = "src/hypergraph/runners/sync/superstep.py"
VARIANTS = [
    Variant("ifelse-returns-empty", "src/hypergraph/runners/_shared/gate_execution.py", sub_first(r"    return wrap_outputs\(node, None\)", "    return {}"), {"C17.R5"}),
    Variant("interrupt-resume-no-signal", "src/hypergraph/runners/async_/executors/interrupt_node.py", sub_first(r"            return _add_emit_sentinels\(result, node\)", "            return result"), {"C17.R5"}),
    Variant("twin-function-executor-temp", "src/hypergraph/runners/sync/executors/function_node.py", replace_once("        return wrap_outputs(node, result)", "        wrapped = wrap_outputs(node, result)\n        return wrapped"), set()),
    Variant("fresh-lt-instead-of-lte", HP, replace_once("            if current_version <= consumed_version:\n                return False", "            if current_version < consumed_version:\n                return False"), {"C17.R1"}),
    Variant("fresh-twin-not-gt", HP, replace_once("            if current_version <= consumed_version:\n                return False", "            if not current_version > consumed_version:\n                return False"), set()),
    Variant("wait-no-existence", HP, replace_once("        if name not in state.values:\n            return False\n        # On re-execution, check freshness", "        # On re-execution, check freshness"), {"C17.R1"}),
    Variant("wait-versions-from-copy", SS, replace_once("wait_for_versions = {name: state.get_version(name) for name in node.wait_for}", "wait_for_versions = {name: new_state.get_version(name) for name in node.wait_for}"), {"C17.R2"}),
    Variant("ready-skips-deferral", HP, replace_once("    ready = _defer_wait_for_nodes(ready, graph)\n\n    return ready", "    return ready"), {"C17.R3"}),
    Variant("deferral-includes-self", HP, replace_once("                    if other.name != node.name and name in other.outputs:", "                    if name in other.outputs:"), {"C17.R3"}),
    Variant("sentinel-no-bump", TY, replace_once("        if is_new or value is _EMIT_SENTINEL:", "        if is_new:"), {"C17.R4"}),
    Variant("no-newness-tracking", TY, replace_once("        if is_new or value is _EMIT_SENTINEL:", "        if value is _EMIT_SENTINEL:"), {"C17.R4"}),
    Variant("newness-after-store", TY, replace_once("        is_new = name not in self.values\n\n        self.values[name] = value\n", "        self.values[name] = value\n        is_new = name not in self.values\n"), {"C17.R4"}),
    Variant("twin-bump-helper", TY, replace_once("        if is_new or value is _EMIT_SENTINEL:\n            self.versions[name] = self.versions.get(name, 0) + 1\n        elif old_value is value:", "        always = is_new or value is _EMIT_SENTINEL\n        if always:\n            self.versions[name] = self.versions.get(name, 0) + 1\n        elif old_value is value:"), set()),
    Variant("cache-key-without-emit-names", "src/hypergraph/runners/_shared/caching.py", replace_once(":{node.outputs!r}:", ":"), {"C17.R5"}),
    Variant("twin-cache-key-emit-names-separately", "src/hypergraph/runners/_shared/caching.py", replace_once(":{node.outputs!r}:", ":{node.outputs[len(node.data_outputs):]!r}:"), set()),
    Variant("consumed-signal-counts-fresh", HP, replace_once("    last_exec = state.node_executions.get(node.name)\n\n    for name in node.wait_for:\n        if name not in state.values:\n            return False\n        # On re-execution, check freshness\n        if last_exec is not None:\n            current_version = state.get_version(name)\n            consumed_version = last_exec.wait_for_versions.get(name, 0)\n            if current_version <= consumed_version:\n                return False\n", "    last_exec = state.node_executions.get(node.name)\n    consumed = last_exec.wait_for_versions if last_exec is not None else {}\n\n    for name in node.wait_for:\n        if name not in state.values:\n            return False\n        if state.get_version(name) < consumed.get(name, 0):\n            return False\n"), {"C17.R1"}),
    Variant("twin-freshness-unguarded-default-zero", HP, replace_once("    last_exec = state.node_executions.get(node.name)\n\n    for name in node.wait_for:\n        if name not in state.values:\n            return False\n        # On re-execution, check freshness\n        if last_exec is not None:\n            current_version = state.get_version(name)\n            consumed_version = last_exec.wait_for_versions.get(name, 0)\n            if current_version <= consumed_version:\n                return False\n", "    last_exec = state.node_executions.get(node.name)\n    consumed = last_exec.wait_for_versions if last_exec is not None else {}\n\n    for name in node.wait_for:\n        if name not in state.values:\n            return False\n        if state.get_version(name) <= consumed.get(name, 0):\n            return False\n"), set()),
    Variant("twin-freshness-as-all-comprehension", HP, replace_once("    last_exec = state.node_executions.get(node.name)\n\n    for name in node.wait_for:\n        if name not in state.values:\n            return False\n        # On re-execution, check freshness\n        if last_exec is not None:\n            current_version = state.get_version(name)\n            consumed_version = last_exec.wait_for_versions.get(name, 0)\n            if current_version <= consumed_version:\n                return False\n    return True\n", "    last_exec = state.node_executions.get(node.name)\n    consumed = last_exec.wait_for_versions if last_exec is not None else {}\n    if any(name not in state.values for name in node.wait_for):\n        return False\n    return all(state.get_version(name) > consumed.get(name, 0) for name in node.wait_for)\n"), set()),
    Variant("one-fresh-signal-suffices", HP, replace_once("    last_exec = state.node_executions.get(node.name)\n\n    for name in node.wait_for:\n        if name not in state.values:\n            return False\n        # On re-execution, check freshness\n        if last_exec is not None:\n            current_version = state.get_version(name)\n            consumed_version = last_exec.wait_for_versions.get(name, 0)\n            if current_version <= consumed_version:\n                return False\n    return True\n", "    last_exec = state.node_executions.get(node.name)\n    consumed = last_exec.wait_for_versions if last_exec is not None else {}\n    if any(name not in state.values for name in node.wait_for):\n        return False\n    return any(state.get_version(name) > consumed.get(name, 0) for name in node.wait_for)\n"), {"C17.R1"}),
    Variant("freshness-all-not-strict", HP, replace_once("    last_exec = state.node_executions.get(node.name)\n\n    for name in node.wait_for:\n        if name not in state.values:\n            return False\n        # On re-execution, check freshness\n        if last_exec is not None:\n            current_version = state.get_version(name)\n            consumed_version = last_exec.wait_for_versions.get(name, 0)\n            if current_version <= consumed_version:\n                return False\n    return True\n", "    last_exec = state.node_executions.get(node.name)\n    consumed = last_exec.wait_for_versions if last_exec is not None else {}\n    if not all(name in state.values for name in node.wait_for):\n        return False\n    return all(state.get_version(name) >= consumed.get(name, 0) for name in node.wait_for)\n"), {"C17.R1"}),
]

"""One module per property: rules/cXX.py exposes ID, EXPLANATION, NOT_DECIDED, run(ctx), VARIANTS."""

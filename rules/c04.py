"""C04 Loops run exactly as many iterations as the gate dictates and always terminate."""

from __future__ import annotations

import ast

from sa.cfg import reachable, reaches, specialize, test_atoms
from sa.db import AnalysisError, FuncInfo, ancestors, bind_args, dotted, src, walk_local
from sa.flow import defs_reaching, reaching_defs
from sa.model import contains, enclosing, execute_impl_funcs, superstep_funcs
from sa.variants import Variant, replace_once, sub_first, sub_once

from .common import NotComparable, call_names, ordering_table, template_methods, vars_from_call

ID = "C04"
EXPLANATION = (
    "Decides the termination clause and the shape of the re-execution test: (R1) every superstep call sits in exactly one 'for _ in range(B)' loop "
    "whose bound is the unmodified max_iterations parameter, with no enclosing while/other loop, and the execute loop is entered once per run with "
    "'max_iterations or default' — hence at most max_iterations steps for every graph; (R2) the loop's else-branch reports exhaustion as "
    "ExecutionError(InfiniteLoopError(bound), state) when nodes are still ready, so the partial state travels with it; (R3) the staleness test "
    "compares current and consumed input versions with the truth table equal->fresh, greater->stale (symbolic ordering evaluation), every version "
    "write is '+1' on the previous value (monotone), and the test consults the self-producer relation and gate control as the accumulator rule "
    "requires; (R4) a stale-decision clear never removes an END decision (no restart after END). (R5) the set of ready gates whose targets are held back is taken before the producer-first deferral: a gate deferred behind the producer of its signal still blocks its targets, otherwise the body re-runs ungated and the gate is never evaluated. R3 also requires the per-parameter comparison; (R6) gate options such as default_open reach the gate (factories and constructors use every option they accept)."
    " (R7) a gate synchronised on an ordering signal re-decides only on a fresh signal: the freshness comparator (operands found by what they denote, through single-assignment locals) is strict."
    " R3 also requires that both supersteps record consumed versions from (and collect inputs against) the step's start snapshot; R4 that the gated-node relation is derived from the gates' declared targets."
)
NOT_DECIDED = "That a loop runs exactly as many iterations as its gate dictates (a statement about decision sequences and values); fairness among several ready nodes."


def run(ctx) -> None:
    db, rep = ctx.db, ctx.rep
    rep.rule("C04.R1", "superstep calls are bounded by a single for-range loop over the max_iterations parameter", floor=4)
    rep.rule("C04.R2", "exhaustion of the bound raises ExecutionError(InfiniteLoopError(bound), state) while nodes are still ready", floor=2)
    rep.rule("C04.R3", "staleness comparator: equal->fresh, greater->stale; versions only ever grow by one; accumulator rule consulted", floor=4)
    rep.rule("C04.R4", "an END decision is never cleared as stale; a loop body is re-activated by whichever of its controlling gates routes to it", floor=2)
    rep.rule("C04.R6", "gate options (default_open ...) reach the gate node: factories and constructors use every option they accept", floor=8)
    rep.rule("C04.R7", "a gate synchronised on an ordering signal re-decides only on a fresh signal: fresh iff the current version is strictly greater than the consumed one (else it re-decides on the previous turn's signal and the body runs an extra, early iteration)", floor=2)
    rep.rule("C04.R5", "a ready gate holds its targets back even when it is itself deferred behind the producer of its signal", floor=1)

    sss = set(superstep_funcs(db))
    impls = execute_impl_funcs(db)

    # ---- R1 / R2 ----------------------------------------------------------------
    check_step_loop(ctx, "C04.R1", "C04.R2")
    for m in template_methods(db, "run"):
        for c in db.calls_in(m):
            if call_names(db, c, m) & {"_execute_graph_impl", "_execute_graph_impl_async"}:
                in_loop = any(isinstance(a, (ast.For, ast.AsyncFor, ast.While)) for a in ancestors(c) if contains(m.node, a))
                cfg = ctx.cfg(m)
                rd = reaching_defs(cfg)
                tgt = [cal.func for cal in db.resolve_call(c, m) if cal.func is not None][0]
                # the bound is the argument derived from run()'s own max_iterations (the callee's parameter name is not API)
                arg = bind_args(c, tgt).get("max_iterations")
                if arg is None:
                    n0 = cfg.node_containing(c)[0]
                    for a_ in list(c.args) + [k.value for k in c.keywords]:
                        if isinstance(a_, ast.Name) and (a_.id == "max_iterations" or any(v is not None and any(isinstance(x, ast.Name) and x.id == "max_iterations" for x in ast.walk(v)) for d, v in defs_reaching(cfg, rd, n0, a_.id))):
                            arg = a_
                ok = not in_loop and arg is not None
                why = "execute loop entered inside a loop" if in_loop else "max_iterations not passed"
                if ok:
                    vals = [arg]
                    if isinstance(arg, ast.Name):
                        n = cfg.node_containing(c)[0]
                        vals = [v for d, v in defs_reaching(cfg, rd, n, arg.id) if v is not None]
                    ok = bool(vals) and all(isinstance(v, ast.BoolOp) and isinstance(v.op, ast.Or) and isinstance(v.values[0], ast.Name) and v.values[0].id == "max_iterations" and "default_max_iterations" in src(v.values[1]) for v in vals)
                    why = "run() enters the execute loop once with 'max_iterations or default'" if ok else f"bound passed to the execute loop is '{src(vals[0]) if vals else '?'}', not 'max_iterations or <default>'"
                rep.add("C04.R1", f"{m.qname}:enter-once", ok, f"{m.module.rel}:{c.lineno}", why)
    for impl in impls:
        d = impl.cls.find_method("default_max_iterations") if impl.cls else None
        if d is not None:
            val = [n.value for n in walk_local(d.node) if isinstance(n, ast.Return)]
            okd = False
            if val and isinstance(val[0], ast.Name):
                cst = db.const_value(db.resolve_name(val[0].id, d.module, None))
                okd = isinstance(cst, ast.Constant) and isinstance(cst.value, int) and cst.value >= 1
            rep.add("C04.R1", f"{d.qname}:positive-default", okd, d.loc(), "default step budget is a positive integer constant" if okd else "default step budget is not a positive integer constant")

    # ---- R3 ----------------------------------------------------------------------
    stale = db.func("runners._shared.helpers._is_stale")
    cur, cons = check_stale_comparator(ctx, "C04.R3")
    # footprint: self_producers & controlled_by (via _is_controlled_by_gate)
    foot = set()
    for g in db.closure([stale], property_reads=False):
        for x in walk_local(g.node):
            if isinstance(x, ast.Attribute):
                foot.add(x.attr)
    need = {"self_producers", "controlled_by", "input_versions", "inputs"}
    ok = need <= foot
    rep.add("C04.R3", f"{stale.qname}:footprint", ok, stale.loc(), "staleness test consults self_producers, controlled_by, input_versions and node.inputs" if ok else f"staleness test no longer consults {sorted(need - foot)} (accumulator rule / gate exception broken)")
    # the self-producer skip applies to ungated nodes only and is a membership test
    skip_ok = False
    scfg = ctx.cfg(stale)
    gated_vars = set(vars_from_call(db, stale, {"_is_controlled_by_gate"}))
    member_atoms = set()
    cmp_nodes = [n for n in scfg.nodes if n.kind == "test" and n.ast is not None and cur and cons and cur in src(n.ast) and cons in src(n.ast)]
    for n in scfg.nodes:
        if n.kind == "test" and n.ast is not None:
            for a in test_atoms(n.ast):
                if isinstance(a, ast.Compare) and len(a.ops) == 1 and isinstance(a.ops[0], (ast.In, ast.NotIn)) and "self_producers" in src(a.comparators[0]) and src(a.left).endswith(".name"):
                    member_atoms.add((src(ast.Compare(a.left, [ast.In()], a.comparators))))
    if gated_vars and member_atoms and cmp_nodes:
        def live(g: bool, m: bool) -> bool:
            val = {v: g for v in gated_vars}
            for a in member_atoms:
                val[a] = m
                val[a.replace(" in ", " not in ", 1)] = not m
            r = reachable(scfg.entry, specialize(val, scfg))
            return any(c in r for c in cmp_nodes)

        skip_ok = (not live(False, True)) and live(True, True) and live(False, False) and live(True, False)
        # ... and it is the ONLY skip: with the accumulator rule out of the way (gated node), every input's versions
        # are compared — no other class of inputs (bound names, defaults, ...) is exempt from staleness
        from .common import must_reach_in_iteration

        in_loops = [n for n in scfg.nodes if n.kind == "for" and src(n.ast.iter).endswith(".inputs")]
        valg = {v: True for v in gated_vars}
        for a in member_atoms:
            valg[a] = False
            valg[a.replace(" in ", " not in ", 1)] = True
        every = bool(in_loops) and all(must_reach_in_iteration(scfg, lp_, cmp_nodes, valg) for lp_ in in_loops)
        rep.add("C04.R3", f"{stale.qname}:every-input-compared", every, stale.loc(), "apart from the accumulator rule every input of the node takes part in the staleness comparison" if every else "some inputs are skipped by the staleness comparison for another reason than the accumulator rule (e.g. names that are bound): a bound loop seed that the body re-produces no longer makes the gate and the body stale, the loop stops after one iteration")
    rep.add("C04.R3", f"{stale.qname}:accumulator-skip", skip_ok, stale.loc(), "self-produced inputs are skipped for ungated nodes only (membership in the producer set)" if skip_ok else "the accumulator skip is not 'ungated and node in self_producers[param]'")
    # monotone versions
    n_w = 0
    for f in db.all_funcs():
        for n in walk_local(f.node):
            tg = None
            if isinstance(n, ast.Assign):
                for t in n.targets:
                    if isinstance(t, ast.Subscript) and isinstance(t.value, ast.Attribute) and t.value.attr == "versions":
                        tg = (t, n.value)
            elif isinstance(n, ast.AugAssign) and isinstance(n.target, ast.Subscript) and isinstance(n.target.value, ast.Attribute) and n.target.value.attr == "versions":
                tg = (n.target, n)
            elif isinstance(n, ast.Delete):
                for t in n.targets:
                    if isinstance(t, ast.Subscript) and isinstance(t.value, ast.Attribute) and t.value.attr == "versions":
                        rep.bad("C04.R3", f"{f.qname}:versions-delete", f"{f.module.rel}:{n.lineno}", "a version entry is deleted (versions must be monotone)")
            elif isinstance(n, ast.Call) and isinstance(n.func, ast.Attribute) and n.func.attr in ("pop", "clear", "update", "setdefault", "popitem") and isinstance(n.func.value, ast.Attribute) and n.func.value.attr == "versions":
                rep.bad("C04.R3", f"{f.qname}:versions-{n.func.attr}", f"{f.module.rel}:{n.lineno}", "versions mutated other than by '+1' (versions must be monotone)")
            if tg is None:
                continue
            n_w += 1
            t, v = tg
            ok = False
            if isinstance(v, ast.BinOp) and isinstance(v.op, ast.Add) and isinstance(v.right, ast.Constant) and v.right.value == 1:
                l = v.left
                key = src(t.slice)
                if isinstance(l, ast.Call) and isinstance(l.func, ast.Attribute) and l.func.attr == "get" and src(l.func.value) == src(t.value) and l.args and src(l.args[0]) == key:
                    ok = True
                if isinstance(l, ast.Subscript) and src(l) == src(t):
                    ok = True
            if isinstance(v, ast.AugAssign) and isinstance(v.op, ast.Add) and isinstance(v.value, ast.Constant) and v.value.value == 1:
                ok = True
            rep.add("C04.R3", f"{f.qname}:version-write#{n_w}", ok, f"{f.module.rel}:{n.lineno}", "version write is previous + 1" if ok else f"version write '{src(n)[:60]}' is not 'previous + 1' (a reset or jump makes 'current < consumed' feasible)")
    if n_w < 2:
        raise AnalysisError("version writes not found")

    # ---- R4 ----------------------------------------------------------------------
    check_end_never_cleared(ctx, "C04.R4")
    _r5(ctx)


def check_step_loop(ctx, r_bound: str, r_exh: str) -> None:
    """Supersteps are bounded by one for-range loop over max_iterations; exhausting it raises
    ExecutionError(InfiniteLoopError(bound), state) only if a fresh scheduler query on the final state still
    finds ready nodes (a graph that becomes quiescent on its last allowed step completes)."""
    db, rep = ctx.db, ctx.rep
    sss = set(superstep_funcs(db))
    impls = execute_impl_funcs(db)
    for impl in impls:
        calls = [c for c, cal in db.callees(impl) if cal.func in sss]
        for c in calls:
            loops = [a for a in ancestors(c) if isinstance(a, (ast.For, ast.AsyncFor, ast.While)) and contains(impl.node, a)]
            ok = len(loops) == 1 and isinstance(loops[0], ast.For)
            why = "superstep call is not inside exactly one for loop"
            if ok:
                lp = loops[0]
                it = lp.iter
                ok = isinstance(it, ast.Call) and dotted(it.func) == "range" and len(it.args) == 1 and not it.keywords
                why = f"loop iterates '{src(it)[:40]}', not range(<bound>)"
                if ok:
                    b = it.args[0]
                    ok = isinstance(b, ast.Name) and b.id in impl.param_names and b.id not in db.local_defs(impl) and "iter" in b.id
                    why = f"step loop bound is range({src(b)}) — the unmodified max_iterations parameter" if ok else f"loop bound '{src(b)}' is not the unmodified max_iterations parameter"
                    # the loop target must not be used to extend the loop; no nested loop re-entering
                    if ok and any(isinstance(x, ast.While) for x in walk_local(lp)):
                        ok, why = False, "a while loop inside the step loop can run supersteps unboundedly"
            rep.add(r_bound, f"{impl.qname}:superstep-call", ok, f"{impl.module.rel}:{c.lineno}", why)
            # R2: else branch
            if ok:
                lp = loops[0]
                okb = False
                whyb = "the step loop has no else branch: exhausting max_iterations returns silently"
                if lp.orelse:
                    raises = [n for s in lp.orelse for n in [s] + list(walk_local(s)) if isinstance(n, ast.Raise)]
                    whyb = "else branch does not raise"
                    for r in raises:
                        e = r.exc
                        if isinstance(e, ast.Call) and "ExecutionError" in src(e.func) and len(e.args) >= 2:
                            inner = e.args[0]
                            g = enclosing(r, (ast.If,))
                            cond_ok = g is not None and any(isinstance(x, ast.Call) and "get_ready_nodes" in call_names(db, x, impl) for x in ast.walk(g.test))
                            inner_ok = isinstance(inner, ast.Call) and "InfiniteLoopError" in src(inner.func) and inner.args and src(inner.args[0]) == src(lp.iter.args[0])
                            svars = {nm for nm, ds in db.local_defs(impl).items() if any(isinstance(d, ast.Assign) and isinstance(d.value, ast.Call) and "initialize_state" in call_names(db, d.value, impl) for d in ds)}
                            state_ok = isinstance(e.args[1], ast.Name) and e.args[1].id in svars
                            okb = cond_ok and inner_ok and state_ok
                            whyb = "exhaustion raises ExecutionError(InfiniteLoopError(bound), state) when nodes are still ready" if okb else f"exhaustion report malformed (ready-check={cond_ok}, InfiniteLoopError(bound)={inner_ok}, carries state={state_ok})"
                rep.add(r_exh, f"{impl.qname}:for-else", okb, f"{impl.module.rel}:{lp.lineno}", whyb)


def check_staleness_over_all_node_inputs(ctx, rule: str) -> None:
    """Staleness is tracked for every input the node *declares*, not only for those that happened to be collected when it
    ran: both supersteps record a version for each name in ``node.inputs`` and the staleness test walks ``node.inputs``.
    (A nested graph node runs on an inner default while a boundary-crossing value is still pending — that input is not
    among the collected ones, and only its recorded version lets the later arrival make the node stale.)"""
    db, rep = ctx.db, ctx.rep
    from sa.model import superstep_funcs

    n = 0
    for ss in superstep_funcs(db):
        for f in [ss] + list(ss.children.values()):
            for a in walk_local(f.node):
                if isinstance(a, ast.Assign) and isinstance(a.targets[0], ast.Name) and isinstance(a.value, ast.DictComp) and any(isinstance(c, ast.Call) and isinstance(c.func, ast.Attribute) and c.func.attr == "get_version" for c in ast.walk(a.value)) and "wait_for" not in src(a.value.generators[0].iter):
                    n += 1
                    it = a.value.generators[0].iter
                    ok = isinstance(it, ast.Attribute) and it.attr == "inputs"
                    rep.add(rule, f"{f.qname}:versions-for-every-declared-input", ok, f"{f.module.rel}:{a.lineno}", "a consumed version is recorded for every name in node.inputs" if ok else f"consumed versions are recorded for '{src(it)}' only (the values that were collected): an input the node ran without — a nested graph's inner default whose real value arrives later — has no recorded version and can never make the node stale")
    if n < 2:
        raise AnalysisError(f"only {n} input-version recordings found")
    stale = db.func("runners._shared.helpers._is_stale")
    loops = [lp for lp in walk_local(stale.node) if isinstance(lp, ast.For)]
    ok = any(isinstance(lp.iter, ast.Attribute) and lp.iter.attr == "inputs" for lp in loops)
    rep.add(rule, f"{stale.qname}:walks-declared-inputs", ok, stale.loc(), "the staleness test walks node.inputs" if ok else f"the staleness test walks '{src(loops[0].iter) if loops else '?'}' instead of the node's declared inputs: an input without a recorded version is never looked at")


def check_stale_comparator(ctx, rule: str):
    """Staleness is decided per input: the current version of a parameter is compared with the version of
    the *same* parameter the node consumed last time; equal -> fresh, greater -> stale."""
    db, rep = ctx.db, ctx.rep
    stale = db.func("runners._shared.helpers._is_stale")
    cur = cons = None
    # operands found by what they denote (through single-assignment locals): 'current' asks the state for a version,
    # 'consumed' reads the versions the last execution recorded
    sdefs = {nm: ds[0].value for nm, ds in db.local_defs(stale).items() if len(ds) == 1 and isinstance(ds[0], (ast.Assign, ast.AnnAssign)) and getattr(ds[0], "value", None) is not None}

    def expand(e: ast.AST, depth: int = 0) -> str:
        t_ = src(e)
        if depth < 3:
            for x in ast.walk(e):
                if isinstance(x, ast.Name) and x.id in sdefs:
                    t_ += " " + expand(sdefs[x.id], depth + 1)
        return t_

    tests = []
    cur_e = cons_e = None
    for n in walk_local(stale.node):
        if isinstance(n, ast.If):
            for cmp_ in [x for x in ast.walk(n.test) if isinstance(x, ast.Compare) and len(x.ops) == 1]:
                ops_ = [cmp_.left, cmp_.comparators[0]]
                kinds = ["cons" if "input_versions" in expand(o) else "cur" if "get_version" in expand(o) or ".versions" in expand(o) else None for o in ops_]
                if set(kinds) == {"cur", "cons"}:
                    cur_e, cons_e = ops_[kinds.index("cur")], ops_[kinds.index("cons")]
                    cur, cons = src(cur_e), src(cons_e)
                    tests.append(n)
    if not (cur and cons and tests):
        rep.bad(rule, f"{stale.qname}:comparator", stale.loc(), "comparison of current and consumed input versions not found")
    else:
        t = tests[0]
        returns_true = any(isinstance(s, ast.Return) and isinstance(s.value, ast.Constant) and s.value.value is True for s in t.body)
        try:
            tab = ordering_table(t.test, cur, cons)
            # feasible orderings: eq, gt (versions are monotone: consumed <= current)
            stale_tab = {k: (v if returns_true else not v) for k, v in tab.items()}
            ok = stale_tab["eq"] is False and stale_tab["gt"] is True
            rep.add(rule, f"{stale.qname}:comparator", ok, f"{stale.module.rel}:{t.lineno}", f"stale iff current > consumed (table over feasible orderings: eq->{stale_tab['eq']}, gt->{stale_tab['gt']})" if ok else f"staleness test '{src(t.test)}' has table eq->{stale_tab['eq']}, gt->{stale_tab['gt']} (expected eq->False, gt->True)")
        except NotComparable as e:
            rep.bad(rule, f"{stale.qname}:comparator", f"{stale.module.rel}:{t.lineno}", f"staleness test is not a pure comparison of the two versions ({e})")
    # both versions belong to the same parameter
    same = False
    why = "current/consumed versions not recognised"
    if cur and cons:
        kcur = kcons = None

        def through(e):
            d = 0
            while isinstance(e, ast.Name) and e.id in sdefs and d < 3:
                e, d = sdefs[e.id], d + 1
            return e

        ce, se = through(cur_e), through(cons_e)
        if isinstance(ce, ast.Call) and isinstance(ce.func, ast.Attribute) and ce.func.attr == "get_version" and ce.args:
            kcur = ce.args[0]
        if isinstance(se, ast.Call) and isinstance(se.func, ast.Attribute) and se.func.attr == "get" and "input_versions" in expand(se.func.value) and se.args:
            kcons = se.args[0]
        loopvars = {x.id for lp in walk_local(stale.node) if isinstance(lp, ast.For) and src(lp.iter).endswith(".inputs") for x in ast.walk(lp.target) if isinstance(x, ast.Name)}
        same = kcur is not None and kcons is not None and src(kcur) == src(kcons) and isinstance(kcur, ast.Name) and kcur.id in loopvars
        why = "each input's current version is compared with that same input's consumed version" if same else "the consumed version compared against is not the one recorded for the same parameter (e.g. a maximum over all inputs): versions are independent counters per name, so a first upstream production (version 1) no longer makes a node stale once any other input was consumed at version >= 1"
    rep.add(rule, f"{stale.qname}:per-parameter", same, stale.loc(), why)
    return cur, cons


def check_readiness_ignores_own_decision(ctx, rule: str) -> None:
    """Whether a gate is scheduled again is decided by its inputs (staleness), its signals and the gates that control
    it — never by what the gate itself decided last time: a gate that once answered END must be asked again when its
    inputs change (an inner 'skip this turn' gate, or a gate first evaluated on a default)."""
    db, rep = ctx.db, ctx.rep
    inr = db.func("runners._shared.helpers._is_node_ready")
    clo = [f for f in db.closure([inr], property_reads=False) if f.module is inr.module]
    bad = None
    n_f = 0
    for f in clo:
        npar = next((p_ for p_ in f.param_names if "HyperNode" in src(f.param_annotation(p_) or ast.Constant("")) or p_ == "node"), None)
        if npar is None:
            continue
        n_f += 1
        own = f"{npar}.name"
        for n in walk_local(f.node):
            if isinstance(n, ast.Subscript) and src(n.value).endswith("routing_decisions") and src(n.slice) == own:
                bad = (f, n)
            elif isinstance(n, ast.Call) and isinstance(n.func, ast.Attribute) and n.func.attr in ("get", "pop") and src(n.func.value).endswith("routing_decisions") and n.args and src(n.args[0]) == own:
                bad = (f, n)
            elif isinstance(n, ast.Compare) and len(n.ops) == 1 and isinstance(n.ops[0], (ast.In, ast.NotIn)) and src(n.left) == own and src(n.comparators[0]).endswith("routing_decisions"):
                bad = (f, n)
    if n_f < 3:
        raise AnalysisError("readiness helpers not found")
    rep.add(rule, f"{inr.qname}:readiness-ignores-own-decision", bad is None, f"{inr.module.rel}:{(bad[1] if bad else inr.node).lineno}", f"none of the {n_f} readiness helpers reads the decision of the node being scheduled" if bad is None else f"'{src(bad[1])[:60]}' in {bad[0].name} makes a gate's readiness depend on its own previous decision: a gate that answered END once (an inner 'skip this turn' gate, or a loop gate first evaluated on a signature default) is never asked again although its inputs changed — the body runs fewer iterations than the gate dictates")


def _r5(ctx) -> None:
    from .c17 import check_block_before_deferral
    from .c03 import check_node_options_used

    check_block_before_deferral(ctx, "C04.R5")
    check_readiness_ignores_own_decision(ctx, "C04.R4")
    # an iteration is one gate decision: the body nodes that decision activates in one step all read the values (and
    # record the versions) of the step's start snapshot, not each other's fresh outputs — else a later node in ready
    # order runs on next-turn values, records them as consumed and is never re-run (a, b = b, a % b needs both reads old)
    from .c02 import check_versions_from_snapshot

    check_versions_from_snapshot(ctx, "C04.R3")
    check_staleness_over_all_node_inputs(ctx, "C04.R3")

    # ---- R7 ---------------------------------------------------------------------
    from .c17 import check_wait_freshness

    check_wait_freshness(ctx, "C04.R7")
    check_node_options_used(ctx, "C04.R6")
    from .c03 import check_any_gate_activates, check_controlled_by_from_targets

    check_any_gate_activates(ctx, "C04.R4")
    # 'is this node gated?' (activation, and the self-producer exemption of the staleness test) is answered from the
    # gates' declared targets — not from control edges, which exist only where no other edge joins the pair
    check_controlled_by_from_targets(ctx, "C04.R4")


def _deletes_decisions(n) -> bool:
    return n.kind == "stmt" and ((isinstance(n.ast, ast.Delete) and "routing_decisions" in src(n.ast)) or (isinstance(n.ast, ast.Expr) and isinstance(n.ast.value, ast.Call) and isinstance(n.ast.value.func, ast.Attribute) and n.ast.value.func.attr == "pop" and "routing_decisions" in src(n.ast)))


def stale_clearers(ctx) -> list:
    """Functions called from the activation computation that delete routing decisions (found by role)."""
    db = ctx.db
    gan = db.func("runners._shared.helpers._get_activated_nodes")
    out = []
    for _, cal in db.callees(gan):
        g = cal.func
        if g is not None and g not in out and any(_deletes_decisions(n) for n in ctx.cfg(g).nodes):
            out.append(g)
    return out


def check_end_never_cleared(ctx, rule: str) -> None:
    db, rep = ctx.db, ctx.rep
    fs = stale_clearers(ctx)
    if not fs:
        rep.bad(rule, "runners._shared.helpers._get_activated_nodes:stale-decisions-deleted", "src/hypergraph/runners/_shared/helpers.py:1", "no function called by the activation computation deletes the decisions of gates that will re-execute: a stale decision that is merely ignored comes back to life when the gate's re-execution writes nothing (a cached gate replayed with decision None), and its old target starts again")
        return
    f = fs[0]
    cfg = ctx.cfg(f)
    dels = [n for n in cfg.nodes if _deletes_decisions(n)]
    # tests of the form `<stored decision> is END`
    end_tests = [n for n in cfg.nodes if n.kind == "test" and isinstance(n.ast, ast.Compare) and len(n.ast.ops) == 1 and isinstance(n.ast.ops[0], (ast.Is, ast.IsNot)) and src(n.ast.comparators[0]) == "END" and "routing_decisions" in _expand(cfg, n)]
    ok = bool(end_tests)
    why = "no test of the stored decision against END guards the deletion"
    if ok:
        val = {}
        for t in end_tests:
            val[src(ast.Compare(t.ast.left, [ast.Is()], t.ast.comparators))] = True
        live = reachable(cfg.entry, specialize(val))
        # per-iteration: from the END test's taken branch, the delete must not be reachable without passing the loop header
        loops = [n for n in cfg.nodes if n.kind == "for"]
        bad = False
        for t in end_tests:
            for s, l, _ in t.succ:
                is_end_branch = (l == "T") == isinstance(t.ast.ops[0], ast.Is)
                if is_end_branch and l in ("T", "F"):
                    if any(reaches(s, d, avoid=loops) or s is d for d in dels):
                        bad = True
        ok = not bad
        why = "when the stored decision is END the deletion is unreachable in that iteration" if ok else "an END decision can be cleared as stale (the loop restarts after END)"
    rep.add(rule, f"{f.qname}:END-terminal", ok, f"{f.module.rel}:{dels[0].lineno}", why)
    # completeness: a recorded non-END decision of a gate that needs re-execution is always cleared
    from .common import must_reach_in_iteration

    loops = [n for n in cfg.nodes if n.kind == "for"]
    val = {}
    for t in cfg.nodes:
        if t.kind != "test" or t.ast is None:
            continue
        for c in ast.walk(t.ast):
            if isinstance(c, ast.Call) and "_needs_execution" in call_names(db, c, f):
                val[src(c)] = True
            if isinstance(c, ast.Call) and dotted(c.func) == "isinstance":
                val[src(c)] = True
            if isinstance(c, ast.Compare) and isinstance(c.ops[0], ast.In) and "routing_decisions" in src(c.comparators[0]):
                val[src(c)] = True
    for t in end_tests:
        val[src(ast.Compare(t.ast.left, [ast.Is()], t.ast.comparators))] = False
    ok2 = bool(loops) and bool(val) and must_reach_in_iteration(cfg, loops[0], dels, val)
    rep.add(rule, f"{f.qname}:needs-execution-suffices", ok2, f"{f.module.rel}:{dels[0].lineno}", "a recorded non-END decision is cleared whenever its gate needs re-execution — no further condition" if ok2 else "a stale decision survives although its gate needs re-execution (the clear depends on an additional condition, e.g. wait_for freshness): targets re-run on the outdated decision before the gate re-decides")


def _expand(cfg, n) -> str:
    """Source of a test with its single-definition locals expanded (one level)."""
    rd = reaching_defs(cfg)
    s = src(n.ast)
    for x in ast.walk(n.ast):
        if isinstance(x, ast.Name):
            for d, v in defs_reaching(cfg, rd, n, x.id):
                if v is not None and not isinstance(v, (ast.FunctionDef, ast.ExceptHandler, ast.ClassDef)):
                    try:
                        s += " " + src(v)
                    except Exception:
                        pass
    return s


HP = "src/hypergraph/runners/_shared/helpers.py"
SR = "src/hypergraph/runners/sync/runner.py"
AR = "src/hypergraph/runners/async_/runner.py"
TS = "src/hypergraph/runners/_shared/template_sync.py"
TY = "src/hypergraph/runners/_shared/types.py"
VARIANTS = [
    Variant("gate-that-answered-end-never-ready", HP, replace_once("    # Check if all inputs are available\n    if not _has_all_inputs(node, graph, state):\n        return False\n", "    if state.routing_decisions.get(node.name) is not None and not isinstance(state.routing_decisions.get(node.name), (str, list, bool)):\n        return False\n\n    # Check if all inputs are available\n    if not _has_all_inputs(node, graph, state):\n        return False\n"), {"C04.R4"}),
    Variant("sync-range-plus-one", SR, replace_once("        for _ in range(max_iterations):", "        for _ in range(max_iterations + 1):"), {"C04.R1"}),
    Variant("async-while-true", AR, replace_once("            for _ in range(max_iterations):\n                ready_nodes = get_ready_nodes(graph, state, active_nodes=active_nodes)\n\n                if not ready_nodes:\n                    break  # No more nodes to execute\n", "            while True:\n                ready_nodes = get_ready_nodes(graph, state, active_nodes=active_nodes)\n\n                if not ready_nodes:\n                    break  # No more nodes to execute\n").__call__ and (lambda s: s.replace("            for _ in range(max_iterations):\n                ready_nodes = get_ready_nodes(graph, state, active_nodes=active_nodes)", "            while True:\n                ready_nodes = get_ready_nodes(graph, state, active_nodes=active_nodes)").replace("            else:\n                # Loop completed without break = hit max_iterations\n                if get_ready_nodes(graph, state, active_nodes=active_nodes):\n                    raise ExecutionError(\n                        InfiniteLoopError(max_iterations),\n                        state,\n                    )\n", "")), {"C04.R1"}),
    Variant("sync-bound-rebound", SR, replace_once("        active_nodes = compute_active_node_set(graph)\n\n        for _ in range(max_iterations):", "        active_nodes = compute_active_node_set(graph)\n        max_iterations = max(max_iterations, len(graph._nodes) * 2)\n\n        for _ in range(max_iterations):"), {"C04.R1"}),
    Variant("template-ignores-max-iterations", TS, replace_once("        max_iter = max_iterations or self.default_max_iterations", "        max_iter = self.default_max_iterations"), {"C04.R1"}),
    Variant("sync-no-else-branch", SR, sub_once(r"        else:\n            # Loop completed without break = hit max_iterations\n            if get_ready_nodes\(graph, state, active_nodes=active_nodes\):\n                raise ExecutionError\(\n                    InfiniteLoopError\(max_iterations\),\n                    state,\n                \)\n", ""), {"C04.R2"}),
    Variant("async-exhaustion-without-state", AR, replace_once("                    raise ExecutionError(\n                        InfiniteLoopError(max_iterations),\n                        state,\n                    )", "                    raise ExecutionError(\n                        InfiniteLoopError(max_iterations),\n                        None,\n                    )"), {"C04.R2"}),
    Variant("stale-comparator-gte", HP, replace_once("        if current_version != consumed_version:\n            return True", "        if current_version >= consumed_version:\n            return True"), {"C04.R3"}),
    Variant("stale-comparator-gt-twin", HP, replace_once("        if current_version != consumed_version:\n            return True", "        if consumed_version < current_version:\n            return True"), set()),
    Variant("stale-sole-producers", HP, replace_once("        if not is_gated and node.name in self_producers.get(param, set()):", "        if not is_gated and graph.sole_producers.get(param) == node.name:"), {"C04.R3"}),
    Variant("stale-skip-even-when-gated", HP, replace_once("        if not is_gated and node.name in self_producers.get(param, set()):", "        if node.name in self_producers.get(param, set()):"), {"C04.R3"}),
    Variant("version-reset", TY, replace_once("            if changed:\n                self.versions[name] = self.versions.get(name, 0) + 1", "            if changed:\n                self.versions[name] = 1"), {"C04.R3"}),
    Variant("clear-end-too", HP, replace_once("            if state.routing_decisions[node.name] is END:\n                continue\n", ""), {"C04.R4"}),
    Variant("clear-end-inverted", HP, replace_once("            if state.routing_decisions[node.name] is END:\n                continue\n", "            if state.routing_decisions[node.name] is not END:\n                continue\n"), {"C04.R4"}),
    Variant("twin-end-check-via-local", HP, replace_once("            if state.routing_decisions[node.name] is END:\n                continue\n", "            stored = state.routing_decisions[node.name]\n            if stored is END:\n                continue\n"), set()),
]

"""C03 Gate routing: a gated node runs only while a controlling gate selects it."""

from __future__ import annotations

import ast

from sa.cfg import all_paths_pass, dominators, reachable, reaches, specialize, test_atoms
from sa.db import AnalysisError, FuncInfo, ancestors, bind_args, dotted, src, walk_local
from sa.flow import backward_slice, defs_reaching, reaching_defs
from sa.model import contains, enclosing, execute_impl_funcs, is_user_func_call, superstep_funcs
from sa.variants import Variant, chain, replace_once, sub_first, sub_once

from .c04 import check_end_never_cleared
from .common import call_names

ID = "C03"
EXPLANATION = (
    "Decides who may record a routing decision, that it is validated first, and the shape of the scheduler's gate handling: (R1) routing_decisions is "
    "written only by the two gate executors, the cache restore, the stale-decision clear (delete only) and GraphState.copy; (R2) each executor store is "
    "dominated by the decision check (bool isinstance-else-raise for if/else; fallback substitution then validate_routing_decision for route, whose "
    "validators raise for wrong list-ness and for any target outside node.targets); (R3) a node is ready only if activation, inputs, wait_for and "
    "needs-execution all hold, and the ready list is filtered by the targets of the gates that are ready in the same step (gate decides first); "
    "(R4) stale decisions are cleared before activation is computed, END is never cleared, and END/None activate nothing; (R5) the list handed to a "
    "superstep is the scheduler's result; (R6) early start of a default-open gate's targets is granted only while that gate has never executed in "
    "this run (the test consults node_executions, not merely the absence of a decision). R4 also requires that a decision which is a single target name is compared by equality: a membership test on the decision is reachable only once an isinstance test established that it is a collection (for a str, `in` is substring containment). (R7) the controlling-gate relation that activation consults is computed from every gate's declared targets — the relation the gate-decides-first filter uses — not read back from graph edges (a control edge is omitted when another edge already links gate and target), and every gate kind contributes. R3 also requires that every ready gate takes part in the block (the only condition on the set of blocking gates is the node kind) and that activation consults the unfiltered list of declared controlling gates; (R8) every option a node factory/constructor accepts is used."
    " (R9) the cache key covers every gate attribute the gate executors consult (targets, fallback, multi_target, branch names), so a routing decision restored on a hit was made under this gate's own configuration."
    " R2 also requires that every container type the multi-target validator accepts is one the activation test takes apart."
)
NOT_DECIDED = "The activation semantics over time: which decision sequence activates which target for a particular program and input."

ALLOWED_WRITERS = {
    "hypergraph.runners._shared.gate_execution.execute_ifelse": "gate executor",
    "hypergraph.runners._shared.gate_execution.execute_route": "gate executor",
    "hypergraph.runners._shared.caching.restore_routing_decision": "cache restore of a stored decision",
}


def run(ctx) -> None:
    db, rep = ctx.db, ctx.rep
    rep.rule("C03.R1", "routing_decisions has a closed set of writers", floor=4)
    rep.rule("C03.R2", "every recorded decision is validated first", floor=5)
    rep.rule("C03.R3", "readiness conjunction and gate-decides-first filter", floor=2)
    rep.rule("C03.R4", "stale clear precedes activation; END terminal; END/None activate nothing", floor=3)
    rep.rule("C03.R5", "supersteps receive the scheduler's ready list", floor=2)
    rep.rule("C03.R6", "default-open early start only for gates that never executed", floor=1)
    rep.rule("C03.R8", "every option a node factory or node constructor accepts is used (none is silently dropped on the way to the node)", floor=8)
    rep.rule("C03.R9", "a routing decision restored from the node cache was made under this gate's own configuration: the cache key covers every gate attribute the gate executors consult (targets, fallback, multi_target, branch names)", floor=2)
    rep.rule("C03.R7", "the controlling-gate relation is derived from the gates' declared targets (the relation the gate-decides-first filter uses), for every gate", floor=3)

    # ---- R1 ---------------------------------------------------------------------
    from .c04 import stale_clearers as _sc

    _clearers = _sc(ctx)
    n_w = 0
    for f in db.all_funcs():
        for n in walk_local(f.node):
            kind = None
            if isinstance(n, (ast.Assign, ast.AugAssign, ast.AnnAssign)):
                tg = n.targets if isinstance(n, ast.Assign) else [n.target]
                for t in tg:
                    if isinstance(t, ast.Subscript) and isinstance(t.value, ast.Attribute) and t.value.attr == "routing_decisions":
                        kind = "store"
                    if isinstance(t, ast.Attribute) and t.attr == "routing_decisions":
                        kind = "rebind"
            elif isinstance(n, ast.Delete):
                for t in n.targets:
                    if isinstance(t, ast.Subscript) and isinstance(t.value, ast.Attribute) and t.value.attr == "routing_decisions":
                        kind = "delete"
            elif isinstance(n, ast.Call) and isinstance(n.func, ast.Attribute) and n.func.attr in ("pop", "update", "clear", "setdefault", "popitem", "__setitem__", "__delitem__") and isinstance(n.func.value, ast.Attribute) and n.func.value.attr == "routing_decisions":
                kind = n.func.attr
            if kind is None:
                continue
            n_w += 1
            why = ALLOWED_WRITERS.get(f.qname)
            if why is None and f in _clearers:
                why = "stale-decision clear (delete only)"
            ok = why is not None
            if ok and f in _clearers and kind not in ("delete", "pop"):
                ok = False
            if ok and "restore" in f.qname and kind != "store":
                ok = False
            rep.add("C03.R1", f"{f.qname}:{kind}", ok, f"{f.module.rel}:{n.lineno}", f"allowed writer: {why}" if ok else f"routing_decisions is written ({kind}) outside the closed writer set")
    if n_w < 3:
        raise AnalysisError("routing_decisions writers not found")

    # ---- R2 ---------------------------------------------------------------------
    ife = db.func("runners._shared.gate_execution.execute_ifelse")
    rte = db.func("runners._shared.gate_execution.execute_route")
    for f in (ife, rte):
        cfg = ctx.cfg(f)
        rd = reaching_defs(cfg)
        dom = dominators(cfg.entry)
        stores = [n for n in cfg.nodes if n.kind == "stmt" and isinstance(n.ast, ast.Assign) and any(isinstance(t, ast.Subscript) and "routing_decisions" in src(t) for t in n.ast.targets)]
        if not stores:
            raise AnalysisError(f"{f.qname}: decision store not found")
        for s in stores:
            val = s.ast.value
            if f is ife:
                # value = node.when_true if result else node.when_false, result checked to be a bool
                tests = [n for n in cfg.nodes if n.kind == "test" and "isinstance" in src(n.ast) and "bool" in src(n.ast)]
                ok = False
                why = "no isinstance(..., bool) check dominates the store"
                for t in tests:
                    if t in dom.get(s, set()):
                        # the failing branch must raise
                        neg = isinstance(t.ast, ast.UnaryOp)
                        bad_edge = "T" if neg else "F"
                        tgt = [x for x, l, _ in t.succ if l == bad_edge]
                        if tgt and not reaches(tgt[0], s):
                            ok = True
                vals = [val]
                if isinstance(val, ast.Name):
                    vals = [v for d, v in defs_reaching(cfg, rd, s, val.id) if v is not None]
                shape = all(isinstance(v, ast.IfExp) and "when_true" in src(v.body) and "when_false" in src(v.orelse) for v in vals)
                if ok and not shape:
                    ok, why = False, f"stored decision is '{src(vals[0])[:50]}', not 'when_true if <bool> else when_false'"
                rep.add("C03.R2", f"{f.qname}:store", ok, f"{f.module.rel}:{s.lineno}", "decision = when_true/when_false selected by a checked bool" if ok else why)
            else:
                vnodes = [n for n in cfg.nodes if any("validate_routing_decision" in call_names(db, c, f) for c in cfg.calls_at(n))]
                ok = bool(vnodes) and any(v in dom.get(s, set()) for v in vnodes)
                why = "validate_routing_decision does not dominate the store"
                if ok:
                    vn = [v for v in vnodes if v in dom[s]][0]
                    vcall = [c for c in cfg.calls_at(vn) if "validate_routing_decision" in call_names(db, c, f)][0]
                    same = len(vcall.args) >= 2 and isinstance(vcall.args[1], ast.Name) and isinstance(val, ast.Name) and vcall.args[1].id == val.id
                    # no rebinding of the decision between validation and store
                    if same:
                        ds_v = {d for d, _ in defs_reaching(cfg, rd, vn, val.id)}
                        ds_s = {d for d, _ in defs_reaching(cfg, rd, s, val.id)}
                        same = ds_v == ds_s
                    ok = same
                    why = "the validated value and the stored value are the same binding" if ok else "the stored decision is not the value that was validated (re-bound after validation, e.g. fallback applied too late)"
                rep.add("C03.R2", f"{f.qname}:store", ok, f"{f.module.rel}:{s.lineno}", why)
    # validators raise
    rv = db.module("hypergraph.runners._shared.routing_validation")
    vs = db.func("runners._shared.routing_validation._validate_single_target")
    vm = db.func("runners._shared.routing_validation._validate_multi_target_decision")
    v1 = db.func("runners._shared.routing_validation._validate_single_target_decision")
    vd = db.func("runners._shared.routing_validation.validate_routing_decision")

    def raises_under(f: FuncInfo, needle: str) -> bool:
        for n in walk_local(f.node):
            if isinstance(n, ast.If) and needle in src(n.test).replace(" ", "") and any(isinstance(x, ast.Raise) for s in n.body for x in [s] + list(walk_local(s))):
                return True
        return False

    from .common import param_bound_to

    d_vm = param_bound_to(db, vd, vm, "decision", "decision")
    d_v1 = param_bound_to(db, vd, v1, "decision", "decision")
    n_vs = param_bound_to(db, vm, vs, "node", None) or param_bound_to(db, v1, vs, "node", "node")
    ok = raises_under(vs, "notin") and f"{n_vs}.targets" in src(vs.node)
    rep.add("C03.R2", f"{vs.qname}:membership", ok, vs.loc(), "a target outside node.targets raises" if ok else "a decision naming a target outside node.targets is no longer rejected")
    ok = raises_under(vm, f"notisinstance({d_vm},list)") and any(vs in [c.func for c in db.resolve_call(x, vm)] for x in db.calls_in(vm))
    rep.add("C03.R2", f"{vm.qname}:list-of-targets", ok, vm.loc(), "multi-target: non-list raises, every element is validated" if ok else "multi-target validator does not reject non-lists or skips element validation")
    ok = raises_under(v1, f"isinstance({d_v1},list)") and any(vs in [c.func for c in db.resolve_call(x, v1)] for x in db.calls_in(v1))
    rep.add("C03.R2", f"{v1.qname}:single-target", ok, v1.loc(), "single-target: list raises, target is validated" if ok else "single-target validator does not reject lists or skips target validation")
    disp = {c.func for x in db.calls_in(vd) for c in db.resolve_call(x, vd)}
    ok = vm in disp and v1 in disp and any(isinstance(n, ast.If) and "multi_target" in src(n.test) for n in walk_local(vd.node))
    rep.add("C03.R2", f"{vd.qname}:dispatch", ok, vd.loc(), "dispatches on multi_target to both validators" if ok else "validate_routing_decision no longer dispatches on multi_target to both validators")

    # ---- R3 ---------------------------------------------------------------------
    check_ready_conjunction(ctx, "C03.R3")
    grn = db.func("runners._shared.helpers.get_ready_nodes")
    cfg = ctx.cfg(grn)
    rd = reaching_defs(cfg)
    rets = [n for n in cfg.nodes if n.kind == "stmt" and isinstance(n.ast, ast.Return)]
    ok = False
    why = "returned ready list does not depend on a filter built from the targets of ready gates"
    for r in rets:
        sl = backward_slice(cfg, rd, r, [r.ast.value])
        texts = [src(v) for d, nm, v in sl if v is not None and not isinstance(v, (ast.FunctionDef, ast.ExceptHandler, ast.ClassDef)) and hasattr(v, "lineno")]
        has_filter = any(isinstance(v, ast.ListComp) and any(isinstance(c, ast.Compare) and isinstance(c.ops[0], ast.NotIn) for g in v.generators for c in g.ifs) for d, nm, v in sl if v is not None)
        # the filter set derives from .targets of ready gate nodes
        blocked_from_targets = False
        for n in cfg.nodes:
            for c in cfg.calls_at(n):
                if isinstance(c.func, ast.Attribute) and c.func.attr in ("add", "update") and isinstance(c.func.value, ast.Name):
                    setname = c.func.value.id
                    loop = enclosing(c, (ast.For,))
                    if loop is not None and ".targets" in src(loop.iter) and any(isinstance(v, ast.ListComp) and setname in src(v) for d, nm, v in sl if v is not None):
                        blocked_from_targets = True
        gate_from_ready = any("GateNode" in t and "ready" in t for t in texts)
        if not gate_from_ready:
            # follow the loops that feed the filter set: for gate_name in <names of ready gates>: for target in gate.targets: S.add(target)
            for n in cfg.nodes:
                for c in cfg.calls_at(n):
                    if isinstance(c.func, ast.Attribute) and c.func.attr in ("add", "update"):
                        pass

                        for lp in [a for a in ancestors(c) if isinstance(a, ast.For)]:
                            for x in ast.walk(lp.iter):
                                if isinstance(x, ast.Name):
                                    for d in db.local_defs(grn).get(x.id, []):
                                        v = getattr(d, "value", None)
                                        if v is not None and "GateNode" in src(v) and "ready" in src(v):
                                            gate_from_ready = True
        ok = has_filter and blocked_from_targets and gate_from_ready
        if ok:
            why = "ready list is filtered by targets of the gates that are ready in this step"
    rep.add("C03.R3", f"{grn.qname}:gate-decides-first", ok, grn.loc(), why)

    # every ready gate takes part in the block — first execution or re-execution alike
    from .common import eval_bool

    gate_sets = [n for n in walk_local(grn.node) if isinstance(n, ast.Assign) and isinstance(n.value, (ast.SetComp, ast.ListComp)) and any(isinstance(x, ast.Call) and dotted(x.func) == "isinstance" and "GateNode" in src(x) for x in ast.walk(n.value))]
    okg = bool(gate_sets)
    whyg = "the set of ready gates was not found"
    for gs in gate_sets:
        g_ = gs.value.generators[0]
        isin = [src(x) for i_ in g_.ifs for x in ast.walk(i_) if isinstance(x, ast.Call) and dotted(x.func) == "isinstance" and "GateNode" in src(x)]
        conj = g_.ifs[0] if len(g_.ifs) == 1 else ast.BoolOp(op=ast.And(), values=list(g_.ifs))
        r = eval_bool(conj, {a: True for a in isin}) if g_.ifs else None
        if r is not True or not (isinstance(g_.iter, ast.Name)):
            okg, whyg = False, f"ready gates are collected under an extra condition ('{src(conj)}'): a gate that does not satisfy it (e.g. one that is re-executing) does not hold its targets back, so a target still activated through another gate starts in the deciding gate's own step"
        else:
            whyg = "every ready gate holds its targets back (the only condition is the node kind)"
    rep.add("C03.R3", f"{grn.qname}:every-ready-gate-blocks", okg, grn.loc(), whyg)

    # completeness of the block: every target of a ready gate other than END and the gate itself is blocked
    from .common import must_reach_in_iteration

    tl = [n for n in cfg.nodes if n.kind == "for" and isinstance(n.ast.iter, ast.Attribute) and n.ast.iter.attr == "targets"]
    adds = [n for n in cfg.nodes if any(isinstance(c.func, ast.Attribute) and c.func.attr in ("add", "update") and isinstance(c.func.value, ast.Name) and "block" in c.func.value.id for c in cfg.calls_at(n))]
    ok = bool(tl) and bool(adds)
    if ok:
        lp = tl[0]
        tv = lp.ast.target.id if isinstance(lp.ast.target, ast.Name) else "target"
        val = {f"{tv} is END": False}
        # the only other exemption allowed: the gate itself
        for t in cfg.nodes:
            if t.kind == "test" and t.ast is not None and contains(lp.ast, t.ast) and isinstance(t.ast, ast.Compare) and isinstance(t.ast.ops[0], ast.Eq) and tv in src(t.ast):
                val[src(t.ast)] = False
        ok = must_reach_in_iteration(cfg, lp, adds, val)
    brk = [b for lp_ in tl for b in ast.walk(lp_.ast) if isinstance(b, ast.Break) and next((a for a in ancestors(b) if isinstance(a, (ast.For, ast.While))), None) is lp_.ast] if tl else []
    rep.add("C03.R3", f"{grn.qname}:every-target-examined", bool(tl) and not brk, f"{grn.module.rel}:{(brk[0] if brk else grn.node).lineno}", "the loop over a ready gate's targets examines every target" if tl and not brk else "the loop over a ready gate's targets is left early (break): targets listed after that point — e.g. after END in route(targets=[END, 'work']) — are not held back and start in the gate's own step, before its decision exists")
    rep.add("C03.R3", f"{grn.qname}:all-targets-blocked", ok, grn.loc(), "every target of a ready gate (other than END and the gate itself) is blocked for this step" if ok else "a target of a ready gate can escape the block under an additional condition (e.g. because it is itself a ready gate): it runs in the deciding gate's own step, before the decision exists")

    # a runnable gate decides before its co-runnable targets even when the gate itself is postponed behind the producer of
    # a signal it waits for: the block is computed from the gates that are ready before that deferral
    from .c17 import check_block_before_deferral

    check_block_before_deferral(ctx, "C03.R3")

    # ---- R4 ---------------------------------------------------------------------
    check_end_never_cleared(ctx, "C03.R4")
    gan = db.func("runners._shared.helpers._get_activated_nodes")
    cfg = ctx.cfg(gan)
    dom = dominators(cfg.entry)
    from .c04 import stale_clearers

    clear_fs = stale_clearers(ctx)
    clears = [n for n in cfg.nodes if any(cal.func in clear_fs for c in cfg.calls_at(n) for cal in db.resolve_call(c, gan))]
    reads = [n for n in cfg.nodes if n not in clears and any(isinstance(x, ast.Attribute) and x.attr == "routing_decisions" for e in cfg.header_exprs(n) for x in ast.walk(e))]
    ok = bool(clears) and bool(reads) and all(dom.get(r, set()) & set(clears) for r in reads)
    rep.add("C03.R4", f"{gan.qname}:clear-before-activation", ok, gan.loc(), "stale decisions are cleared before any decision is read for activation" if ok else "activation can read routing decisions before stale ones were cleared (targets start on an outdated decision)")
    act = db.func("runners._shared.helpers._is_node_activated_by_decision")
    acfg = ctx.cfg(act)
    # the decision parameter is the one the function compares with END
    d_act = next((a.left.id for t in acfg.nodes if t.kind == "test" and t.ast is not None for a in test_atoms(t.ast) if isinstance(a, ast.Compare) and isinstance(a.left, ast.Name) and len(a.ops) == 1 and isinstance(a.ops[0], ast.Is) and src(a.comparators[0]) == "END"), "decision")
    live_end = reachable(acfg.entry, specialize({f"{d_act} is END": True}))
    live_none = reachable(acfg.entry, specialize({f"{d_act} is END": False, f"{d_act} is None": True}))

    def only_false(live) -> bool:
        rets_ = [n for n in live if n.kind == "stmt" and isinstance(n.ast, ast.Return)]
        return bool(rets_) and all(isinstance(r.ast.value, ast.Constant) and r.ast.value.value is False for r in rets_)

    # validation and activation agree on what a collection-valued decision is: the container types the multi-target
    # validator accepts are exactly the ones the activation test takes apart (a tuple accepted by one and compared as a
    # single name by the other passes validation and then activates nothing)
    def _isinstance_types(f_, var_):
        out_ = set()
        for x in walk_local(f_.node):
            if isinstance(x, ast.Call) and dotted(x.func) == "isinstance" and len(x.args) == 2 and isinstance(x.args[0], ast.Name) and x.args[0].id == var_:
                t_ = x.args[1]
                out_ |= {src(e) for e in (t_.elts if isinstance(t_, ast.Tuple) else [t_])}
        return out_

    coll_types = {"list", "tuple", "set", "frozenset", "Sequence", "Collection", "Iterable"}
    tv, ta = _isinstance_types(vm, d_vm) & coll_types, _isinstance_types(act, d_act) & coll_types
    rep.add("C03.R2", "decision-container-types-agree", tv <= ta and bool(tv), vm.loc(), f"every container type validation accepts ({sorted(tv)}) is taken apart by activation ({sorted(ta)})" if tv <= ta and tv else f"the multi-target validator accepts {sorted(tv)} but the activation test takes apart {sorted(ta)} only: a decision of the other container type is stored as valid and then selects nothing (the selected branches never start)")
    ok = only_false(live_end) and only_false(live_none)
    rep.add("C03.R4", f"{act.qname}:END-None-activate-nothing", ok, act.loc(), "END and None decisions activate no node (decided before any membership test)" if ok else "an END or None decision can activate a node")

    # a decision that is a single target name (str) is compared by equality: no membership test
    # (substring for str) is reachable unless the decision is known to be a collection
    pn, pd = (act.param_names + ["", ""])[:2]
    val = {f"{pd} is END": False, f"{pd} is None": False}
    for t in acfg.nodes:
        if t.kind == "test" and t.ast is not None:
            for a in test_atoms(t.ast):
                if isinstance(a, ast.Call) and dotted(a.func) == "isinstance" and a.args and isinstance(a.args[0], ast.Name) and a.args[0].id == pd:
                    val[src(a)] = False
    live_name = reachable(acfg.entry, specialize(val, acfg))
    bad = []
    for n in live_name:
        for e in acfg.header_exprs(n):
            for x in ast.walk(e):
                if isinstance(x, ast.Compare) and any(isinstance(o, (ast.In, ast.NotIn)) for o in x.ops) and any(isinstance(c, ast.Name) and c.id == pd for c in x.comparators):
                    bad.append(x)
    rets_ = [n for n in live_name if n.kind == "stmt" and isinstance(n.ast, ast.Return)]

    def eq_or_false(v: ast.AST | None) -> bool:
        if isinstance(v, ast.Constant) and v.value is False:
            return True
        return isinstance(v, ast.Compare) and len(v.ops) == 1 and isinstance(v.ops[0], ast.Eq) and {src(v.left), src(v.comparators[0])} == {pn, pd}

    ok = bool(pn and pd) and not bad and bool(rets_) and all(eq_or_false(r.ast.value) for r in rets_)
    rep.add("C03.R4", f"{act.qname}:name-decision-by-equality", ok, f"{act.module.rel}:{(bad[0].lineno if bad else act.node.lineno)}", "a single-name decision activates exactly the node of that name (membership tests are reachable only for collection decisions)" if ok else "a single-name decision is tested by membership/other than equality: for a str that is substring containment, so a node whose name is contained in the chosen target's name is activated too")

    # ---- R7 ---------------------------------------------------------------------
    check_controlled_by_from_targets(ctx, "C03.R7")
    check_node_options_used(ctx, "C03.R8")
    # 'ungated' means: no *declared* controlling gate.  The list whose emptiness activates a node unconditionally
    # and which is iterated for decisions is the unfiltered controlled_by entry (a gate that cannot run still gates)
    gan_ = db.func("runners._shared.helpers._get_activated_nodes")
    loops_ = [n for n in walk_local(gan_.node) if isinstance(n, ast.For) and isinstance(n.iter, ast.Name)]
    gate_lists = set()
    for lp in loops_:
        if any(isinstance(x, ast.Attribute) and x.attr == "routing_decisions" for x in ast.walk(lp)):
            gate_lists.add(lp.iter.id)
    okg = bool(gate_lists)
    whyg = "the loop over a node's controlling gates was not found"
    for nm in gate_lists:
        ds = db.local_defs(gan_).get(nm, [])
        vals = [getattr(d, "value", None) for d in ds]
        direct = len(ds) == 1 and vals[0] is not None and any(isinstance(x, ast.Attribute) and x.attr == "controlled_by" for x in ast.walk(vals[0])) and not isinstance(vals[0], (ast.ListComp, ast.SetComp, ast.GeneratorExp)) and not any(isinstance(x, ast.Call) and dotted(x.func) in ("filter", "list", "set") for x in ast.walk(vals[0]))
        if not direct:
            okg, whyg = False, f"'{nm}' is not the unfiltered controlled_by entry (bound {len(ds)} times / filtered): gates dropped from it — e.g. those outside the entry-point scope — stop gating, so targets of a closed-by-default gate that never decided start anyway"
        else:
            whyg = "activation consults every declared controlling gate of a node"
    rep.add("C03.R7", f"{gan_.qname}:all-declared-gates-consulted", okg, gan_.loc(), whyg)
    check_any_gate_activates(ctx, "C03.R7")

    # ---- R9 ---------------------------------------------------------------------
    from .c09 import check_key_covers_executor_reads

    check_key_covers_executor_reads(ctx, "C03.R9", only=("GateNode",))

    # ---- R5 ---------------------------------------------------------------------
    check_ready_list_provenance(ctx, "C03.R5")

    # ---- R6 ---------------------------------------------------------------------
    cfg = ctx.cfg(gan)
    adds = [n for n in cfg.nodes if any(isinstance(c.func, ast.Attribute) and c.func.attr == "add" for c in cfg.calls_at(n))]
    # additions taken on the "no decision" path: reachable when decision is None
    exec_tests = [n for n in cfg.nodes if n.kind == "test" and "node_executions" in src(n.ast) and "not in" in src(n.ast)]
    default_open_adds = []
    for a in adds:
        # an add whose controlling tests mention default_open
        g = enclosing(a.ast, (ast.If,))
        chain = []
        cur = a.ast
        while True:
            g = enclosing(cur, (ast.If,))
            if g is None:
                break
            chain.append(g)
            cur = g
        if any("default_open" in src(g.test) for g in chain):
            default_open_adds.append((a, chain))
    ok = bool(default_open_adds)
    why = "default-open activation not found"
    for a, chain in default_open_adds:
        if not exec_tests:
            ok, why = False, "early start is granted without consulting node_executions (a gate that already decided and whose decision was cleared re-opens all its targets)"
            break

        def ef(x, y, l, i, tests=exec_tests):
            return not (x in tests and l == "T")

        if reaches(cfg.entry, a, ef):
            ok, why = False, "early start is reachable without the 'gate never executed' test"
        else:
            why = "early start only on the path 'no decision and gate not in node_executions'"
    rep.add("C03.R6", f"{gan.qname}:early-start-guard", ok, gan.loc(), why)
    # the option consulted is that of the very gate that has not decided: it is read per gate inside the loop over the
    # controlling gates, never quantified over all of them (one default-open sibling must not open a closed gate's target)
    def _do_reads(f):
        return [x for x in ast.walk(f.node) if (isinstance(x, ast.Attribute) and x.attr == "default_open") or (isinstance(x, ast.Call) and dotted(x.func) == "getattr" and len(x.args) >= 2 and isinstance(x.args[1], ast.Constant) and x.args[1].value == "default_open")]

    wrong = None
    for g_ in db.closure([gan], property_reads=False):
        if g_.module is not gan.module:
            continue
        for x in _do_reads(g_):
            quant = next((a for a in ancestors(x) if isinstance(a, (ast.GeneratorExp, ast.ListComp, ast.SetComp))), None)
            if g_ is not gan or quant is not None:
                wrong = wrong or (g_, x, quant)
    rep.add("C03.R6", f"{gan.qname}:option-of-the-undecided-gate", wrong is None, f"{gan.module.rel}:{(wrong[1] if wrong else gan.node).lineno}", "default_open is read from the gate under test, inside the per-gate loop" if wrong is None else f"default_open is resolved in {wrong[0].name} {'over all controlling gates at once' if wrong[2] is not None else 'outside the per-gate test'} ('{src(wrong[2] or wrong[1])[:70]}'): an undecided closed gate is treated as open when a sibling gate controlling the same target is default-open — the shared target starts although no most-recent decision names it")


def check_ready_conjunction(ctx, rule: str) -> None:
    db, rep = ctx.db, ctx.rep
    f = db.func("runners._shared.helpers._is_node_ready")
    cfg = ctx.cfg(f)
    need = {"activated": None, "_has_all_inputs": None, "_wait_for_satisfied": None, "_needs_execution": None}
    # every path to "return True"/"return <needs_execution>" must have passed the positive branch of each predicate
    preds = {}
    for n in cfg.nodes:
        s = " ".join(src(e) for e in cfg.header_exprs(n))
        for k in need:
            if (k == "activated" and "activated_nodes" in s and n.kind == "test") or (k != "activated" and k + "(" in s):
                preds.setdefault(k, []).append(n)
    missing = [k for k in need if k not in preds]
    if missing:
        rep.bad(rule, f"{f.qname}:conjunction", f.loc(), f"readiness no longer consults {missing}")
        return
    ok = True
    why = "ready only if activation, inputs, wait_for and needs-execution all hold"
    # returns that can yield True
    for r in [n for n in cfg.nodes if n.kind == "stmt" and isinstance(n.ast, ast.Return)]:
        v = r.ast.value
        if isinstance(v, ast.Constant) and v.value is False:
            continue
        for k, ns in preds.items():
            if r in ns:
                continue
            # negative branch of each test predicate must not reach this return
            for t in ns:
                if t.kind == "test":
                    neg = isinstance(t.ast, ast.UnaryOp) and isinstance(t.ast.op, ast.Not) or " not in " in src(t.ast)
                    fail_edge = "T" if neg else "F"
                    for x, l, _ in t.succ:
                        if l == fail_edge and (x is r or reaches(x, r)):
                            ok, why = False, f"a node can be reported ready although {k} failed"
                    if not reaches(t, r):
                        ok, why = False, f"a ready verdict is reachable without evaluating {k}"
    rep.add(rule, f"{f.qname}:conjunction", ok, f.loc(), why)


def check_any_gate_activates(ctx, rule: str) -> None:
    db, rep = ctx.db, ctx.rep
    gan_ = db.func("runners._shared.helpers._get_activated_nodes")
    gate_lists = set()
    for lp in [n for n in walk_local(gan_.node) if isinstance(n, ast.For) and isinstance(n.iter, ast.Name)]:
        if any(isinstance(x, ast.Attribute) and x.attr == "routing_decisions" for x in ast.walk(lp)):
            gate_lists.add(lp.iter.id)
    # activation is an OR over the controlling gates: the scan over a node's gates is left early only after the
    # node was activated (a gate whose decision names another target must not end the scan)
    gcfg_ = ctx.cfg(gan_)
    gloops = [n for n in gcfg_.nodes if n.kind == "for" and isinstance(n.ast.iter, ast.Name) and n.ast.iter.id in gate_lists]
    adds_ = [n for n in gcfg_.nodes if any(isinstance(c.func, ast.Attribute) and c.func.attr == "add" for c in gcfg_.calls_at(n))]
    oko = bool(gloops) and bool(adds_)
    whyo = "scan over controlling gates not recognised"
    for lp in gloops:
        start = [t for t, l, _ in lp.succ if l == "T"]
        brks = [n for n in gcfg_.nodes if n.kind == "stmt" and isinstance(n.ast, ast.Break) and contains(lp.ast, n.ast) and enclosing(n.ast, (ast.For, ast.While)) is lp.ast]
        for b in brks:
            if not (start and all_paths_pass(start[0], b, adds_, lambda a, b_, l, i: l != "exc" and a is not lp)):
                oko, whyo = False, f"the scan over a node's controlling gates can stop (line {b.lineno}) before the node was activated: the first gate with a live decision settles the question alone, so a node that a later gate did route to is never activated (a loop body targeted by two gates stalls)"
        if oko:
            whyo = "the scan over controlling gates ends early only once the node is activated (any gate may activate it)"
    rep.add(rule, f"{gan_.qname}:any-gate-activates", oko, gan_.loc(), whyo)


def check_ready_list_provenance(ctx, rule: str) -> None:
    """The list a superstep executes is exactly what the scheduler returned for the current state: it is not
    re-filtered, truncated (e.g. to the concurrency limit) or re-ordered on the way."""
    db, rep = ctx.db, ctx.rep
    sss = set(superstep_funcs(db))
    for impl in execute_impl_funcs(db):
        cfg = ctx.cfg(impl)
        rd = reaching_defs(cfg)
        for n in cfg.nodes:
            for c in cfg.calls_at(n):
                tg = [cal.func for cal in db.resolve_call(c, impl) if cal.func in sss]
                if not tg:
                    continue
                a = bind_args(c, tg[0]).get("ready_nodes")
                ok = False
                if isinstance(a, ast.Name):
                    ds = defs_reaching(cfg, rd, n, a.id)
                    ok = bool(ds) and all(isinstance(v, ast.Call) and "get_ready_nodes" in call_names(db, v, impl) for d, v in ds)
                rep.add(rule, f"{impl.qname}:ready-list-provenance", ok, f"{impl.module.rel}:{n.lineno}", "superstep receives exactly get_ready_nodes(...)" if ok else f"the list handed to the superstep ('{src(a) if a is not None else '?'}') is not the scheduler's result")



def check_node_options_used(ctx, rule: str) -> None:
    """Public node factories (the @node/@route/@ifelse/@interrupt decorators) and node constructors use every
    parameter they accept: an option that is accepted and documented but never forwarded (default_open,
    emit, wait_for, cache ...) silently gives the node the default behaviour."""
    db, rep = ctx.db, ctx.rep
    n = 0
    for f in db.all_funcs():
        if not f.module.name.startswith("hypergraph.nodes.") or f.parent is not None:
            continue
        is_factory = f.cls is None and not f.name.startswith("_")
        is_ctor = f.cls is not None and f.name == "__init__"
        if not (is_factory or is_ctor):
            continue
        real = [s_ for s_ in f.node.body if not (isinstance(s_, ast.Expr) and isinstance(s_.value, ast.Constant))]
        if not real or all(isinstance(s_, (ast.Pass, ast.Raise)) for s_ in real):
            continue
        used = {x.id for x in ast.walk(f.node) if isinstance(x, ast.Name) and isinstance(x.ctx, ast.Load)}
        unused = [p_ for p_ in f.param_names if p_ not in ("self", "cls") and not p_.startswith("_") and p_ not in used]
        n += 1
        rep.add(rule, f"{f.qname}:options-used", not unused, f.loc(), "every accepted option is used" if not unused else f"option(s) {unused} are accepted but never used: the node silently gets the default (e.g. a gate declared default_open=False is built default-open, its targets run before its first decision)")
    if n < 8:
        raise AnalysisError(f"only {n} node factories/constructors found")


def check_controlled_by_from_targets(ctx, rule: str) -> None:
    """Activation consults graph.controlled_by; the 'gate decides first' filter consults gate.targets.
    Both must be the same relation: controlled_by[t] lists every gate whose declared targets contain t."""
    from sa.pattern import solve

    db, rep = ctx.db, ctx.rep
    g = db.cls("graph.core.Graph")
    ccb = g.methods.get("_compute_controlled_by")
    if ccb is None:
        raise AnalysisError("Graph._compute_controlled_by vanished")
    reads_targets = any(isinstance(x, ast.Attribute) and x.attr == "targets" for x in walk_local(ccb.node))
    reads_graph = [x for x in walk_local(ccb.node) if isinstance(x, ast.Attribute) and x.attr in ("_nx_graph", "edges", "successors", "predecessors", "out_edges", "in_edges")]
    ok = reads_targets and not reads_graph
    rep.add(rule, f"{ccb.qname}:source-is-declared-targets", ok, ccb.loc(), "controlled_by is computed from every gate's declared targets" if ok else "controlled_by is not computed from the gates' declared targets (e.g. read back from control edges, which are omitted when another edge already links gate and target): a target then counts as ungated and starts although no gate selected it")
    envs = solve(["for _T in _N.targets: ...", "_C.setdefault(_T, []).append(_N.name)"], ccb.node) or solve(["for _T in _N.targets: ...", "_C[_T].append(_N.name)"], ccb.node)
    rep.add(rule, f"{ccb.qname}:target-maps-to-gate-name", bool(envs), ccb.loc(), "each declared target is mapped to the name of the gate that declares it" if envs else "the relation no longer maps each declared target to its gate's name")
    # every gate kind contributes: the narrowing test is on the gate base class
    gate = db.cls("nodes.gate.GateNode")
    narrowed = []
    for c in walk_local(ccb.node):
        if isinstance(c, ast.Call) and dotted(c.func) == "isinstance" and len(c.args) == 2:
            for e in c.args[1].elts if isinstance(c.args[1], ast.Tuple) else [c.args[1]]:
                r = db.resolve_expr_symbol(e, ccb.module, ccb)
                if r and r[0] == "class":
                    narrowed.append(r[1])
    kinds = {k.qname for k in gate.all_subclasses() if k is not gate}
    covered = set()
    for k in gate.all_subclasses():
        if any(a in narrowed for a in k.mro()):
            covered.add(k.qname)
    ok = bool(narrowed) and kinds <= covered
    rep.add(rule, f"{ccb.qname}:all-gate-kinds", ok, ccb.loc(), "every gate kind contributes its targets" if ok else f"gate kinds {sorted(q.split('.')[-1] for q in kinds - covered)} do not contribute to controlled_by")


HP = "src/hypergraph/runners/_shared/helpers.py"
GE = "src/hypergraph/runners/_shared/gate_execution.py"
RV = "src/hypergraph/runners/_shared/routing_validation.py"
SR = "src/hypergraph/runners/sync/runner.py"
VARIANTS = [
    Variant("ifelse-drops-default-open", "src/hypergraph/nodes/gate.py", sub_once(r"(            when_false=when_false,\n            cache=cache,\n            hide=hide,\n)            default_open=default_open,\n", r"\1"), {"C03.R8"}),
    Variant("controlled-by-from-control-edges", "src/hypergraph/graph/core.py", replace_once("        for node in self._nodes.values():\n            if isinstance(node, GateNode):\n                for target in node.targets:\n                    if target is not END and target in self._nodes:\n                        controlled_by.setdefault(target, []).append(node.name)", "        for gate_name, target, edge_type in self._nx_graph.edges(data=\"edge_type\"):\n            if edge_type == \"control\":\n                controlled_by.setdefault(target, []).append(gate_name)"), {"C03.R7"}),
    Variant("controlled-by-route-gates-only", "src/hypergraph/graph/core.py", chain(replace_once("        from hypergraph.nodes.gate import END, GateNode\n\n        controlled_by", "        from hypergraph.nodes.gate import END, RouteNode\n\n        controlled_by"), replace_once("            if isinstance(node, GateNode):\n                for target in node.targets:\n                    if target is not END and target in self._nodes:", "            if isinstance(node, RouteNode):\n                for target in node.targets:\n                    if target is not END and target in self._nodes:")), {"C03.R7"}),
    Variant("superstep-writes-decision", "src/hypergraph/runners/sync/superstep.py", replace_once("        # Record wait_for versions\n", "        if not outputs:\n            new_state.routing_decisions.pop(node.name, None)\n        # Record wait_for versions\n"), {"C03.R1"}),
    Variant("ifelse-truthy", GE, replace_once("    if not isinstance(result, bool):\n        raise TypeError(", "    if result is None:\n        raise TypeError("), {"C03.R2"}),
    Variant("route-store-before-validate", GE, replace_once("    validate_routing_decision(node, decision)\n    state.routing_decisions[node.name] = decision\n", "    state.routing_decisions[node.name] = decision\n    validate_routing_decision(node, decision)\n"), {"C03.R2"}),
    Variant("route-fallback-after-validate", GE, replace_once("    if decision is None and node.fallback is not None:\n        decision = node.fallback\n\n    validate_routing_decision(node, decision)\n", "    validate_routing_decision(node, decision)\n    if decision is None and node.fallback is not None:\n        decision = node.fallback\n"), {"C03.R2"}),
    Variant("single-target-no-membership", RV, replace_once("    if target not in valid_targets:\n", "    if target not in valid_targets and not isinstance(target, str):\n"), set(), note="still a membership-guarded raise syntactically; weakening of the condition itself is a value-level change the shape rule does not decide"),
    Variant("multi-target-skips-elements", RV, replace_once("    for target in decision:\n        _validate_single_target(node, target)\n", "    return\n"), {"C03.R2"}),
    Variant("ready-ignores-wait-for", HP, replace_once("    if not _wait_for_satisfied(node, state):\n        return False\n", ""), {"C03.R3"}),
    Variant("ready-no-gate-block", HP, replace_once("        if blocked_targets:\n            ready = [n for n in ready if n.name not in blocked_targets]\n", ""), {"C03.R3"}),
    Variant("ready-gates-never-blocked", HP, replace_once("                if target == gate_name:\n                    continue\n                blocked_targets.add(target)", "                if target in ready_gate_names:\n                    continue\n                blocked_targets.add(target)"), {"C03.R3"}),
    Variant("clear-after-activation", HP, replace_once("    _clear_stale_gate_decisions(graph, state)\n\n    activated = set()\n", "    activated = set()\n").__call__ and (lambda s: s.replace("    _clear_stale_gate_decisions(graph, state)\n\n    activated = set()\n", "    activated = set()\n").replace("    return activated\n\n\ndef _clear_stale_gate_decisions", "    _clear_stale_gate_decisions(graph, state)\n    return activated\n\n\ndef _clear_stale_gate_decisions")), {"C03.R4"}),
    Variant("end-activates", HP, replace_once("    if decision is END:\n        return False\n    if decision is None:\n        return False\n", "    if decision is None:\n        return False\n"), {"C03.R4"}),
    Variant("runner-ready-list-unfiltered", SR, replace_once("                    ready_nodes,\n                    values,\n                    self._make_execute_node(event_processors),", "                    [n for n in graph._nodes.values() if n.name not in state.node_executions] or ready_nodes,\n                    values,\n                    self._make_execute_node(event_processors),"), {"C03.R5"}),
    Variant("early-start-without-exec-check", HP, replace_once("                    if gate_name not in state.node_executions:\n                        gate = graph._nodes.get(gate_name)\n                        if gate is None:\n                            continue\n                        default_open = getattr(gate, \"default_open\", True)\n                        if default_open:\n                            # Gate has never executed — default to open (configurable)\n                            activated.add(node_name)\n                            break\n                        continue\n                    continue  # Gate executed before but decision was cleared (stale)", "                    gate = graph._nodes.get(gate_name)\n                    if gate is None:\n                        continue\n                    default_open = getattr(gate, \"default_open\", True)\n                    if default_open:\n                        activated.add(node_name)\n                        break\n                    continue"), {"C03.R6"}),
    Variant("name-decision-substring", HP, replace_once("    if isinstance(decision, list):\n        return node_name in decision\n    return decision == node_name", "    return node_name in decision"), {"C03.R4"}),
    Variant("name-decision-startswith", HP, replace_once("    return decision == node_name", "    return decision.startswith(node_name)"), {"C03.R4"}),
    Variant("twin-decision-list-or-tuple", HP, replace_once("    if isinstance(decision, list):\n        return node_name in decision\n    return decision == node_name", "    if isinstance(decision, (list, tuple)):\n        return node_name in decision\n    return node_name == decision"), set()),
    Variant("twin-activation-extract-helper", HP, replace_once("                if _is_node_activated_by_decision(node_name, decision):\n                    activated.add(node_name)\n                    break\n\n    return activated", "                hit = _is_node_activated_by_decision(node_name, decision)\n                if hit:\n                    activated.add(node_name)\n                    break\n\n    return activated"), set()),
    Variant("route-cache-key-without-fallback", "src/hypergraph/runners/_shared/caching.py", replace_once("return (tuple(str(t) for t in node.targets), str(node.fallback), node.multi_target)", "return (tuple(str(t) for t in node.targets), node.multi_target)"), {"C03.R9"}),
]

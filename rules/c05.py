"""C05 Composition: a nested graph behaves exactly like its nodes inlined."""

from __future__ import annotations

import ast

from sa.db import AnalysisError, bind_args, dotted, src, walk_local
from sa.variants import Variant, replace_once, sub_first, sub_once

from .c06 import check_executor_returns, check_qualifiers
from .c07 import check_cache_invalidation

ID = "C05"
EXPLANATION = (
    "Decides the boundary clauses of nesting ('a nested graph receives exactly the values addressed to its inputs and exposes exactly its "
    "outputs'), which is what the property says about renames and bindings: (R1) name-space discipline at the nesting boundary — in GraphNode's "
    "methods, both graph-node executors, the per-output collector, the bound-value collector and the resolver's inner-bound branch no wrapper-space "
    "name meets inner-graph keys without a translator; (R2) the nested run/map receives the translated inputs of the node (not the outer state) "
    "with map parameters and clone lists in original names, and what the executor returns is keyed by the wrapper's current output names; (R3) the "
    "wrapper's inputs are the inner graph's inputs.all and its exposed outputs implement the same policy as the nested run's default selection "
    "(selected, else all); (R4) cached name maps/metadata of a wrapper are dropped when a derivation changes what they read; (R5) defaults and bound "
    "values of the inner graph surface through the wrapper in the order bound-then-default, under the resolved original name. R5 also requires that a value the resolver classifies BOUND (shared, never copied) is read from a bind() table under the key that was just tested, so that signature defaults surfaced by a wrapper stay in the DEFAULT class (deep-copied per run exactly as in the flat graph). R5 also requires that 'optional because some consumer has a default' quantifies over every consuming node (a wrapper counts inner bound values as defaults, so the first consumer does not decide). R2 also requires that the wrapper's own translators (GraphNode.map_inputs_to_params, map_outputs_from_original, ...) reach the batch-aware resolver."
    " R5 also requires that a binding made on the enclosing graph itself overrides the one made inside the nested graph (as the later of two bind() calls wins on the flat graph)."
    " R2 also requires that an input of a nested graph node is withheld only on the resolver's own DEFAULT classification; R5 that the readiness test accepts exactly the resolver's sources."
)
NOT_DECIDED = "Equivalence with the inlined graph over all convex cuts — a differential statement about computed values and input specifications — is not decided; only the boundary clauses above are."


from .common import exposes_selection_else_all as _exposes_selection_else_all  # noqa: E402
from .common import template_methods  # noqa: E402


def run(ctx) -> None:
    db, rep = ctx.db, ctx.rep
    rep.rule("C05.R1", "name-space discipline at the nesting boundary", floor=12)
    rep.rule("C05.R2", "nested runs receive translated inputs; executors return wrapper-space outputs", floor=4)
    rep.rule("C05.R3", "wrapper interface = inner inputs.all / (selected else all) outputs; same policy as the nested run's default selection", floor=3)
    rep.rule("C05.R4", "cached views of a wrapper are invalidated by derivations", floor=1)
    rep.rule("C05.R5", "inner bound values and defaults surface through the wrapper (bound first), under the resolved original name", floor=2)

    check_qualifiers(ctx, "C05.R1")
    check_executor_returns(ctx, "C05.R2")
    from .c06 import check_translators_reach_resolver

    check_translators_reach_resolver(ctx, "C05.R2", only_class="GraphNode")
    # the nested call gets the node's graph and the translated inputs, not the outer state
    for q in ("runners.sync.executors.graph_node.SyncGraphNodeExecutor.__call__", "runners.async_.executors.graph_node.AsyncGraphNodeExecutor.__call__"):
        f = db.func(q)
        for c in db.calls_in(f):
            if isinstance(c.func, ast.Attribute) and c.func.attr in ("run", "map") and "runner" in src(c.func.value):
                a0 = c.args[0] if c.args else None
                a1 = c.args[1] if len(c.args) > 1 else None
                # the second argument is a local (or an expression) that does not mention the executor's own 'state' / 'inputs' parameters
                a1_ok = a1 is not None and not any(isinstance(x, ast.Name) and x.id in ("state", "inputs") for x in ast.walk(a1))
                ok = a0 is not None and src(a0) in ("node.graph", "node._graph", "node.nested_graph") and a1_ok
                rep.add("C05.R2", f"{f.qname}:{c.func.attr}-args", ok, f"{f.module.rel}:{c.lineno}", "nested call runs the wrapper's own graph on the translated inputs" if ok else f"nested call receives '{src(a1) if a1 is not None else '?'}' (untranslated inputs or outer state) or not the wrapper's graph")

    gn = db.cls("nodes.graph_node.GraphNode")
    init = gn.methods["__init__"]
    ins = [n for n in walk_local(init.node) if isinstance(n, ast.Assign) and any(src(t) == "self.inputs" for t in n.targets)]
    ok = len(ins) == 1 and src(ins[0].value) == "graph.inputs.all"
    rep.add("C05.R3", f"{gn.qname}:inputs", ok, init.loc(), "wrapper inputs = inner graph.inputs.all" if ok else "wrapper inputs are not the inner graph's inputs.all")
    outs = [n for n in walk_local(init.node) if isinstance(n, ast.Assign) and any(src(t) == "self.outputs" for t in n.targets)]
    from .common import wrapper_outputs_expose_selection

    ok = wrapper_outputs_expose_selection(db, init, outs)
    rep.add("C05.R3", f"{gn.qname}:outputs", ok, init.loc(), "wrapper outputs = inner selection if set, else all inner outputs" if ok else "wrapper outputs are not 'graph.selected if set else graph.outputs'")
    # ... and the nested run is left to that default: the executors of a graph node pass no selection of their own
    # (a "**" there hands every inner output, selected or not, to the enclosing state under its inner name)
    run_map_ = set(template_methods(db, "run") + template_methods(db, "map"))
    n_nested = 0
    for qc in ("runners.sync.executors.graph_node.SyncGraphNodeExecutor", "runners.async_.executors.graph_node.AsyncGraphNodeExecutor"):
        exc_ = db.cls(qc)
        # the executor object is shared by every nesting level (the runner holds one per node kind and nested runs
        # re-enter it): it keeps nothing about the node being executed between statements — no method but __init__
        # assigns an attribute of the executor
        stateful = [(m_, x) for m_ in exc_.methods.values() if m_.name != "__init__" for x in walk_local(m_.node) if isinstance(x, (ast.Assign, ast.AugAssign, ast.AnnAssign)) for t in (x.targets if isinstance(x, ast.Assign) else [x.target]) if isinstance(t, ast.Attribute) and isinstance(t.value, ast.Name) and t.value.id == "self"]
        rep.add("C05.R2", f"{exc_.qname}:re-entrant", not stateful, f"{exc_.module.rel}:{(stateful[0][1] if stateful else exc_.node).lineno}", "the executor stores nothing on itself while executing a node" if not stateful else f"'{src(stateful[0][1])[:60]}' in {stateful[0][0].name} keeps the node being executed on the shared executor object: a nested run at the next level re-enters the same executor and overwrites it, so after the inner run returns the enclosing wrapper translates its results with the *inner* node's renames — a renamed output of the outer wrapper is never produced (depth >= 2)")
        for ex in exc_.methods.values():
          for c, cal in db.callees(ex):
            if cal.func not in run_map_:
                continue
            n_nested += 1
            sel = bind_args(c, cal.func).get("select")
            rep.add("C05.R3", f"{exc_.qname}:{cal.func.name}:no-own-selection", sel is None, f"{ex.module.rel}:{c.lineno}", "the nested call passes no selection: the inner graph's own selection (else all outputs) applies, exactly what the wrapper advertises" if sel is None else f"the nested {cal.func.name}() is given select={src(sel)}: the inner graph's own select() is overridden, unselected inner values are written into the enclosing state under their inner names and overwrite equally named values there — the nested graph no longer exposes exactly its selected outputs")
    if n_nested < 4:
        raise AnalysisError(f"only {n_nested} nested run/map calls found in the graph-node executors")
    # results of the nested run reach the enclosing graph under the wrapper's *current* output names: the translator never
    # inverts the rename table over abandoned intermediate names
    from .c06 import check_inversions_over_current_names

    check_inversions_over_current_names(ctx, "C05.R2")
    rs = db.func("runners._shared.helpers._resolve_select")
    from .common import canon_src

    t = canon_src(rs)  # the private helper's own parameter names do not matter
    ok = "graph.selected is not None" in t and "list(graph.selected)" in t and "'**'" in t
    rep.add("C05.R3", f"{rs.qname}:same-policy", ok, rs.loc(), "the nested run's default selection is the inner selection if set, else all outputs — the policy that defines the wrapper's outputs" if ok else "the nested run's default selection differs from what the wrapper exposes")

    check_cache_invalidation(ctx, "C05.R4", families=("Node",), only_classes=("GraphNode",))
    from .c08 import check_inner_bound_merge_complete

    check_inner_bound_merge_complete(ctx, "C05.R5")
    from .c01 import check_bound_class_from_bound_tables

    check_bound_class_from_bound_tables(ctx, "C05.R5")
    from .c08 import check_default_existential

    check_default_existential(ctx, "C05.R5")
    # a nested graph node whose input is satisfied by an inner binding must be *scheduled* on it as well: the readiness
    # test accepts exactly the sources the resolver can return (inner binding included), wherever the outer merged
    # table happens to lack it
    from .c01 import check_readiness_vs_resolver

    check_readiness_vs_resolver(ctx, "C05.R5")
    # a nested graph receives exactly the values addressed to its inputs: nothing the resolver finds for it (edge,
    # provided, bound — also a binding surfaced from a sibling) is withheld; only what the resolver itself classifies as
    # the inner graph's own signature default is left to the nested run
    from .c18 import check_skip_by_resolver_class

    check_skip_by_resolver_class(ctx, "C05.R2")
    # a nested graph node that ran on an inner default re-runs when the boundary-crossing value arrives: staleness is
    # tracked for every declared input, collected or not
    from .c04 import check_staleness_over_all_node_inputs

    check_staleness_over_all_node_inputs(ctx, "C05.R5")

    for name in ("has_default_for", "get_default_for"):
        m = gn.methods.get(name)
        if m is None:
            raise AnalysisError(f"GraphNode.{name} vanished")
        from sa.pattern import find_all, solve

        ok = False
        for env in solve(["_O = self._resolve_original_input_name(param)", "_O in self._graph.inputs.bound", "_I.has_default_for(_O)"], m.node):
            res = [n.lineno for n, _ in find_all("_O = self._resolve_original_input_name(param)", m.node, env)]
            bnd = [n.lineno for n, _ in find_all("_O in self._graph.inputs.bound", m.node, env)]
            dfl = [n.lineno for n, _ in find_all("_I.has_default_for(_O)", m.node, env)]
            if res and bnd and dfl and min(res) < min(bnd) < min(dfl):
                ok = True
        rep.add("C05.R5", f"{m.qname}", ok, m.loc(), "resolves the original name, then inner bound value, then inner node default" if ok else "inner bound values / defaults are not consulted in the order resolve -> bound -> default under the original name")


GN = "src/hypergraph/nodes/graph_node.py"
SG = "src/hypergraph/runners/sync/executors/graph_node.py"
HP = "src/hypergraph/runners/_shared/helpers.py"
VARIANTS = [
    Variant("twin-wrapper-outputs-as-two-branches", GN, replace_once("        exposed = graph.selected if graph.selected is not None else graph.outputs\n        emit_only = graph._get_emit_only_outputs()\n        self.outputs = tuple(o for o in exposed if o not in emit_only)\n", "        emit_only = graph._get_emit_only_outputs()\n        if graph.selected is not None:\n            self.outputs = tuple(o for o in graph.selected if o not in emit_only)\n        else:\n            self.outputs = tuple(o for o in graph.outputs if o not in emit_only)\n"), set()),
    Variant("nested-run-selects-everything", SG, replace_once("            inner_inputs,\n            event_processors=event_processors,\n            _parent_span_id=parent_span_id,\n        )\n        return node.map_outputs_from_original(result.values)", "            inner_inputs,\n            select=\"**\",\n            event_processors=event_processors,\n            _parent_span_id=parent_span_id,\n        )\n        return node.map_outputs_from_original(result.values)"), {"C05.R3"}),
    Variant("wrapper-inputs-required-only", GN, replace_once("        self.inputs = graph.inputs.all", "        self.inputs = graph.inputs.required"), {"C05.R3"}),
    Variant("wrapper-outputs-ignore-selection", GN, replace_once("        exposed = graph.selected if graph.selected is not None else graph.outputs", "        exposed = graph.outputs"), {"C05.R3"}),
    Variant("nested-run-gets-outer-inputs", SG, replace_once("        result = self.runner.run(\n            node.graph,\n            inner_inputs,", "        result = self.runner.run(\n            node.graph,\n            inputs,"), {"C05.R1", "C05.R2"}),
    Variant("default-before-bound", GN, replace_once("        # Check if bound in inner graph first\n        if original_param in self._graph.inputs.bound:\n            return self._graph.inputs.bound[original_param]\n        # Check inner nodes for defaults\n        for inner_node in self._graph.iter_nodes():\n            if original_param in inner_node.inputs and inner_node.has_default_for(original_param):\n                return inner_node.get_default_for(original_param)\n", "        # Check inner nodes for defaults\n        for inner_node in self._graph.iter_nodes():\n            if original_param in inner_node.inputs and inner_node.has_default_for(original_param):\n                return inner_node.get_default_for(original_param)\n        if original_param in self._graph.inputs.bound:\n            return self._graph.inputs.bound[original_param]\n"), {"C05.R5"}),
    Variant("get-input-type-by-current-name", GN, replace_once("        # Resolve param back to original name if renamed\n        original_param = self._resolve_original_input_name(param)\n\n        # Find which node in inner graph has this as an input", "        original_param = param\n\n        # Find which node in inner graph has this as an input"), {"C05.R1"}),
    Variant("collector-untranslated", HP, replace_once("        renamed_values = node.map_outputs_from_original(result.values)\n", "        renamed_values = result.values\n"), {"C05.R1"}),
]
